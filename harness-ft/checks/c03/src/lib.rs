//! C03 — scaled and hinted outlines match FreeType for static fonts.
//!
//! Online reference-model monitor. The reference is the FreeType build that
//! the repository's own comparison tool (`fauntlet`) links (bundled
//! freetype-sys = FreeType 2.12.1); the adapter and the cosmetic path
//! normalisation (`RegularizingPen`) are fauntlet's, used as a library.
//!
//! For each (font, glyph, ppem, mode) both engines draw through a
//! `RegularizingPen` into a `Vec<PathElement>`:
//!   * both produced an outline and the paths differ            -> violation
//!   * both produced an outline, skrifa reports an adjusted advance
//!     (glyf, auto-hinter) and it differs from FT's horiAdvance -> violation
//!   * exactly one side failed                                  -> `error_mismatch`
//!     (inconclusive bucket; C02's business, never a match)
//!   * both failed                                              -> `both_error`
//!
//! `fauntlet::compare_glyphs` is deliberately not used: it unwraps skrifa
//! errors (charstring_path_ops.ttf) and never checks the advance of static
//! fonts.
//!
//! Workload: every glyph of every static glyf/CFF face of
//! `vf_core::corpus_fonts()` + `vf_core::klippa_fonts()` (40 faces, 25 254
//! glyphs) x ppem grid x {unscaled, unhinted, interpreter x 5 targets,
//! auto-hinter x 5 targets}; work items (face, ppem, mode) are dealt to shards
//! with `ctx.mine`. One fauntlet instance pair per item; one FT library + mmap
//! per font file per shard.
//!
//! Constructive workload (`synth.rs`): the corpus is a sample, the property
//! quantifies over all static outline fonts, so each shard also BUILDS small
//! static TrueType fonts (write-fonts + hand-serialised glyf) deterministically
//! from (VERIF_SEED, font index) and runs the same differential on every glyph
//! x a per-font ppem list (unscaled, small/medium/large sizes, plus a size at
//! which some negative component offsets land exactly on half pixels) x
//! {unscaled, unhinted, interpreter, auto-hinter}. The fonts cover every
//! component feature of the composite loader (8/16-bit offsets, point anchors
//! also under a non-zero point base, scale / x-y scale / 2x2, ROUND_XY_TO_GRID,
//! USE_MY_METRICS, (UN)SCALED_COMPONENT_OFFSET, OVERLAP_COMPOUND, nesting
//! depth 1..=4 with nested composites first and non-first, empty components),
//! odd simple glyphs (off-curve starts, all-off-curve, 1-2 point contours,
//! extreme coordinates, several point encodings) and, for half of the fonts,
//! small fpgm/prep/cvt/glyph programs (simple and composite) from a
//! conservative instruction subset. Counters `synthetic_feature:*` say how
//! often each feature was generated. A fixed probe font (`synth-probe-v1`)
//! holds the shapes on which skrifa is known to differ from FreeType 2.12.1
//! (open known findings); the random fonts keep away from exactly those.
//! Synthetic signature: `ft-mismatch:synth-v<gen>-s<seed>-i<index>:gid=<g>:engine=<e>`;
//! the replay record carries the generator parameters, the glyph's recipe and
//! the font bytes, and REPLAY re-runs that glyph at every size.
//!
//! Signature: `ft-mismatch:<file>[@face]#<fnv64 of file>:gid=<g>:engine=<none|interpreter|auto>`;
//! sizes/targets are in the detail, the counter `differing_comparisons:<sig>`
//! and the distinct set `mismatching_cases`.
//!
//! IMPORTANT: this crate lives in its own workspace so that skrifa is built
//! WITHOUT `autohint_shaping` (like fauntlet); see /verif/DESIGN.md C03.

extern crate a_vf_core as vf_core;

pub mod synth;

use fauntlet::{Font, Hinting, HintingTarget, InstanceOptions, RegularizingPen};
use serde_json::{json, Value};
use skrifa::{outline::pen::PathElement, GlyphId};
use std::collections::BTreeMap;
use std::path::Path;
use vf_core::{fnv64, Args, Ctx, CorpusFont, Digest, Rng};

pub const REPLAY: Option<fn(&mut Ctx, &Args, &Value, Option<&[u8]>)> = Some(replay);

const TARGETS: [HintingTarget; 5] = [
    HintingTarget::Mono,
    HintingTarget::Normal,
    HintingTarget::Light,
    HintingTarget::Lcd,
    HintingTarget::VerticalLcd,
];

/// Quick tier: unscaled, every ppem 6..=32 and a spread of larger sizes
/// (a superset of DESIGN.md's {0,7,8,9,11,12,13,16,17,24,48,113}).
const QUICK_EXTRA_SIZES: [u32; 15] = [36, 40, 48, 56, 64, 72, 96, 113, 128, 150, 200, 256, 512, 1000, 2000];
/// Thorough tier: unscaled, every ppem 5..=200 and these. 2000 is the largest
/// size FreeType's CFF engine hints (CF2_MAX_SIZE); above it FreeType falls
/// back to unhinted outlines scaled afterwards, which skrifa does not imitate.
const THOROUGH_EXTRA_SIZES: [u32; 10] = [250, 256, 300, 400, 512, 600, 800, 1000, 1500, 2000];

/// Quick tier: glyph budget per (font, ppem, mode); fonts with more glyphs
/// are sampled on a seed-dependent residue class of stride ceil(n / budget).
/// Every font of the current corpus is below the budget (max 6253 glyphs).
const QUICK_GLYPHS_PER_CONFIG: usize = 8192;

fn target_name(t: HintingTarget) -> &'static str {
    match t {
        HintingTarget::Mono => "mono",
        HintingTarget::Normal => "normal",
        HintingTarget::Light => "light",
        HintingTarget::Lcd => "lcd",
        HintingTarget::VerticalLcd => "vlcd",
    }
}

/// A comparison mode (`ppem == 0` has the single mode `Unscaled`).
#[derive(Copy, Clone, PartialEq, Eq, Debug)]
enum Mode {
    Unscaled,
    Unhinted,
    Hinted(Hinting),
}

impl Mode {
    fn engine(self) -> &'static str {
        match self {
            Mode::Unscaled | Mode::Unhinted => "none",
            Mode::Hinted(Hinting::Interpreter(_)) => "interpreter",
            Mode::Hinted(Hinting::Auto(_)) => "auto",
        }
    }
    fn target(self) -> &'static str {
        match self {
            Mode::Unscaled => "unscaled",
            Mode::Unhinted => "unhinted",
            Mode::Hinted(Hinting::Interpreter(t)) | Mode::Hinted(Hinting::Auto(t)) => {
                target_name(t)
            }
        }
    }
    fn name(self) -> String {
        format!("{}/{}", self.engine(), self.target())
    }
    fn hinting(self) -> Option<Hinting> {
        match self {
            Mode::Hinted(h) => Some(h),
            _ => None,
        }
    }
}

fn scaled_modes() -> Vec<Mode> {
    let mut v = vec![Mode::Unhinted];
    v.extend(TARGETS.iter().map(|t| Mode::Hinted(Hinting::Interpreter(*t))));
    v.extend(TARGETS.iter().map(|t| Mode::Hinted(Hinting::Auto(*t))));
    v
}

fn sizes(ctx: &Ctx) -> Vec<u32> {
    // Debugging aid only (never set by the driver): C03_SIZES=1,2,3 overrides the grid.
    if let Ok(s) = std::env::var("C03_SIZES") {
        return s.split(',').filter_map(|x| x.parse().ok()).collect();
    }
    if ctx.tier.is_thorough() {
        let mut v = vec![0u32];
        v.extend(5..=200u32);
        v.extend(THOROUGH_EXTRA_SIZES);
        v
    } else {
        let mut v = vec![0u32];
        v.extend(6..=32u32);
        v.extend(QUICK_EXTRA_SIZES);
        v
    }
}

/// Static properties of one face of a corpus file, gathered without FreeType.
struct FaceInfo {
    index: usize,
    glyph_count: u32,
    flavour: &'static str,
}

/// Faces of a corpus file that are in the property's domain: static (no
/// `fvar` table at all) and with a glyf or CFF/CFF2 outline table.
fn static_outline_faces(ctx: &mut Ctx, font: &CorpusFont) -> Vec<FaceInfo> {
    use read_fonts::{types::Tag, FileRef, FontRef, TableProvider};
    let mut out = vec![];
    let data: &[u8] = &font.data;
    let n = match FileRef::new(data) {
        Ok(FileRef::Font(_)) => 1,
        Ok(FileRef::Collection(c)) => c.len() as usize,
        Err(_) => {
            ctx.count("files_skipped:unparsable", 1);
            return out;
        }
    };
    for index in 0..n {
        let Ok(f) = FontRef::from_index(data, index as u32) else {
            ctx.count("faces_skipped:unparsable", 1);
            continue;
        };
        if f.table_data(Tag::new(b"fvar")).is_some() {
            ctx.count("faces_skipped:variable", 1);
            continue;
        }
        let flavour = if f.table_data(Tag::new(b"glyf")).is_some()
            && f.table_data(Tag::new(b"loca")).is_some()
        {
            "glyf"
        } else if f.table_data(Tag::new(b"CFF ")).is_some() {
            "cff"
        } else if f.table_data(Tag::new(b"CFF2")).is_some() {
            "cff2"
        } else {
            ctx.count("faces_skipped:no_outlines", 1);
            continue;
        };
        let Ok(maxp) = f.maxp() else {
            ctx.count("faces_skipped:no_maxp", 1);
            continue;
        };
        out.push(FaceInfo {
            index,
            glyph_count: maxp.num_glyphs() as u32,
            flavour,
        });
    }
    out
}

fn font_key(font: &CorpusFont, index: usize) -> String {
    if index == 0 {
        font.id()
    } else {
        format!("{}@{}#{:016x}", font.name, index, fnv64(&font.data))
    }
}

fn path_to_strings(p: &[PathElement], max: usize) -> Vec<String> {
    let mut v: Vec<String> = p.iter().take(max).map(|e| format!("{e:?}")).collect();
    if p.len() > max {
        v.push(format!("... {} more", p.len() - max));
    }
    v
}

fn first_diff(a: &[PathElement], b: &[PathElement]) -> Value {
    let i = a
        .iter()
        .zip(b.iter())
        .position(|(x, y)| x != y)
        .unwrap_or(a.len().min(b.len()));
    json!({
        "index": i,
        "freetype": a.get(i).map(|e| format!("{e:?}")),
        "skrifa": b.get(i).map(|e| format!("{e:?}")),
        "freetype_len": a.len(),
        "skrifa_len": b.len(),
    })
}

/// Differing comparisons per signature seen by this shard.
#[derive(Default)]
struct Stats {
    mismatches: BTreeMap<String, u64>,
}

/// Outcome of one (font, ppem, mode) configuration.
enum ConfigOutcome {
    Ran,
    Skipped(&'static str),
}

#[allow(clippy::too_many_arguments)]
fn run_config(
    ctx: &mut Ctx,
    stats: &mut Stats,
    ft_font: &mut Font,
    font: &CorpusFont,
    face: &FaceInfo,
    ppem: u32,
    mode: Mode,
    gids: &mut dyn Iterator<Item = u32>,
    mut synth_run: Option<&mut SynthRun>,
) -> ConfigOutcome {
    let synth: Option<&synth::SynthFont> = synth_run.as_ref().map(|r| r.font);
    let options = InstanceOptions::new(face.index, ppem, &[], mode.hinting());
    // Instance creation runs fpgm/prep (skrifa) and FT_New_Memory_Face +
    // FT_Set_Pixel_Sizes; a panic in there is not this property's subject.
    let inst = vf_core::guard(|| ft_font.instantiate(&options));
    let (ft, sk) = match inst {
        Ok(Some(pair)) => pair,
        Ok(None) => {
            // fauntlet does not say which side refused; ask skrifa directly.
            return ConfigOutcome::Skipped(if skrifa_instantiates(&font.data, face.index, ppem, mode) {
                "instantiate_failed:freetype_refuses_skrifa_accepts"
            } else {
                "instantiate_failed:skrifa_refuses"
            });
        }
        Err(p) => {
            ctx.inconclusive(format!(
                "panic while instantiating {} ppem={} {}: {}:{} {}",
                font.name,
                ppem,
                mode.name(),
                p.file,
                p.line,
                p.msg
            ));
            return ConfigOutcome::Skipped("instantiate_panicked");
        }
    };
    if !ft.is_scalable() {
        return ConfigOutcome::Skipped("not_scalable");
    }
    if mode != Mode::Unscaled && (ft.is_tricky() || sk.is_tricky()) {
        // fauntlet lets FreeType "do its own thing" for tricky fonts (load
        // flags ignore the requested hinting) and is only meaningful there
        // for its own hinting=None configuration.
        if mode != Mode::Unhinted {
            return ConfigOutcome::Skipped("tricky_font_hinting_mode");
        }
    }
    let is_scaled = ppem != 0;
    // Synthetic fonts are identified by generator version + seed + index (their
    // name); the byte hash is left out so that a serialisation change in
    // write-fonts does not rename known findings.
    let fkey = if synth.is_some() { font.name.clone() } else { font_key(font, face.index) };
    let fhash = fnv64(fkey.as_bytes());
    let mode_name = mode.name();
    let mode_hash = fnv64(mode_name.as_bytes());
    let cmp_key = format!("cmp:{}", mode_name);
    let mut d = Digest::new();
    d.u64(fhash);
    d.u64(mode_hash);
    ctx.distinct("font_mode_pairs", d.finish());
    d.u64(ppem as u64);
    ctx.distinct("font_mode_ppem_configs", d.finish());

    let cell = std::cell::RefCell::new((ft, sk, Vec::<PathElement>::new(), Vec::<PathElement>::new()));
    let mut compared = 0u64;
    let mut nontrivial = 0u64;
    let mut empty_both = 0u64;
    let mut both_error = 0u64;
    let mut advance_checked = 0u64;

    for gid in gids {
        let glyph_id = GlyphId::new(gid);
        let label = || format!("{} gid={} ppem={} {}", fkey, gid, ppem, mode_name);
        // One case = one glyph drawn by both engines, under the panic,
        // cpu-progress and wall-clock monitors.
        let res = ctx.run_case(&label, None, &|| {
            let mut g = cell.borrow_mut();
            let (ft, sk, ft_path, sk_path) = &mut *g;
            ft_path.clear();
            sk_path.clear();
            let ft_adv = ft.outline(glyph_id, &mut RegularizingPen::new(ft_path, is_scaled));
            let sk_adv = sk
                .outline(glyph_id, &mut RegularizingPen::new(sk_path, is_scaled))
                .map_err(|e| format!("{e:?}"));
            (ft_adv, sk_adv)
        });
        ctx.eval();
        let (ft_adv, sk_adv) = match res {
            Ok(x) => x,
            Err(p) => {
                // A panic while drawing is C02's (totality), not a FreeType
                // disagreement; keep it visible but out of this verdict.
                ctx.count("draw_panics", 1);
                ctx.label("draw_panic_sites", &p.signature());
                ctx.inconclusive(format!("panic while drawing {}: {} {}", label(), p.signature(), p.msg));
                continue;
            }
        };
        let g = cell.borrow();
        let (ft_path, sk_path) = (&g.2, &g.3);
        match (ft_adv, sk_adv) {
            (None, Err(_)) => {
                both_error += 1;
                continue;
            }
            (Some(_), Err(e)) => {
                ctx.count("error_mismatch", 1);
                ctx.count("error_mismatch:skrifa_only_fails", 1);
                ctx.distinct("error_mismatch_glyphs", {
                    let mut d = Digest::new();
                    d.u64(fhash);
                    d.u64(gid as u64);
                    d.finish()
                });
                ctx.label("error_mismatch_glyphs", &format!("{} gid={} skrifa:{} freetype:ok", fkey, gid, e));
                ctx.sample_by_kind(
                    &format!("error_mismatch:{}:{}", font.name, gid),
                    json!({"font": fkey, "gid": gid, "ppem": ppem, "mode": mode_name, "skrifa_error": e, "freetype_path_len": ft_path.len()}),
                );
                continue;
            }
            (None, Ok(_)) => {
                ctx.count("error_mismatch", 1);
                ctx.count("error_mismatch:freetype_only_fails", 1);
                ctx.distinct("error_mismatch_glyphs", {
                    let mut d = Digest::new();
                    d.u64(fhash);
                    d.u64(gid as u64);
                    d.finish()
                });
                ctx.label("error_mismatch_glyphs", &format!("{} gid={} skrifa:ok freetype:error", fkey, gid));
                ctx.sample_by_kind(
                    &format!("error_mismatch:{}:{}", font.name, gid),
                    json!({"font": fkey, "gid": gid, "ppem": ppem, "mode": mode_name, "freetype_error": true, "skrifa_path_len": sk_path.len()}),
                );
                continue;
            }
            (Some(ft_adv), Ok(sk_adv)) => {
                compared += 1;
                if let Some(sr) = synth_run.as_deref_mut() {
                    // evidence that hinting is actually exercised on synthetic fonts
                    let dg = path_digest(sk_path);
                    match mode {
                        Mode::Unhinted => {
                            sr.unhinted.insert((ppem, gid), dg);
                        }
                        Mode::Hinted(_) => {
                            if let Some(u) = sr.unhinted.get(&(ppem, gid)) {
                                if *u != dg {
                                    ctx.count(&format!("synthetic_hinted_outline_differs_from_unhinted:{}", mode.engine()), 1);
                                    if sr.font.glyphs.get(gid as usize).map(|g| g.depth > 0).unwrap_or(false) {
                                        ctx.count(&format!("synthetic_hinted_composite_differs_from_unhinted:{}", mode.engine()), 1);
                                    }
                                }
                            }
                        }
                        Mode::Unscaled => {}
                    }
                }
                let path_differs = ft_path != sk_path;
                let mut adv_differs = false;
                if let Some(a) = sk_adv {
                    advance_checked += 1;
                    adv_differs = a != ft_adv;
                }
                if !ft_path.is_empty() && !sk_path.is_empty() {
                    nontrivial += 1;
                    let mut d = Digest::new();
                    d.u64(fhash);
                    d.u64(gid as u64);
                    d.u64(ppem as u64);
                    d.u64(mode_hash);
                    ctx.nontrivial(d.finish());
                } else if ft_path.is_empty() && sk_path.is_empty() {
                    empty_both += 1;
                }
                if path_differs || adv_differs {
                    let sig = format!("ft-mismatch:{}:gid={}:engine={}", fkey, gid, mode.engine());
                    *stats.mismatches.entry(sig.clone()).or_default() += 1;
                    ctx.label("mismatching_glyph_engine", &sig);
                    ctx.distinct("mismatching_cases", {
                        let mut d = Digest::new();
                        d.str(&sig);
                        d.u64(ppem as u64);
                        d.u64(mode_hash);
                        d.finish()
                    });
                    ctx.count(&format!("mismatch:{}", mode.engine()), 1);
                    if path_differs {
                        ctx.count("mismatch_kind:path", 1);
                    }
                    if adv_differs {
                        ctx.count("mismatch_kind:advance", 1);
                    }
                    let first_for_sig = stats.mismatches.get(&sig).copied() == Some(1);
                    let diagnosis = if first_for_sig {
                        diagnose(font, face, gid, ppem, mode, ft_path, sk_path)
                    } else {
                        Value::Null
                    };
                    let mut detail = json!({
                        "diagnosis": diagnosis,
                        "font": fkey,
                        "font_path": font.path.to_string_lossy(),
                        "index": face.index,
                        "flavour": face.flavour,
                        "gid": gid,
                        "ppem": ppem,
                        "engine": mode.engine(),
                        "target": mode.target(),
                        "path_differs": path_differs,
                        "advance_differs": adv_differs,
                        "freetype_advance": ft_adv,
                        "skrifa_advance": sk_adv,
                        "first_difference": first_diff(ft_path, sk_path),
                        "freetype_path": path_to_strings(ft_path, 40),
                        "skrifa_path": path_to_strings(sk_path, 40),
                        "note": "first differing (ppem, target) seen by this shard for this (font, glyph, engine); events.differing_comparisons:<signature> has the total",
                    });
                    if let Some(sf) = synth {
                        // synthetic font: generator parameters + the glyph's recipe;
                        // the font bytes are the replay input
                        detail["synthetic"] = sf.params.clone();
                        detail["glyph_recipe"] = synth::describe_glyph(sf, gid);
                        ctx.count(&format!("mismatch_synthetic:{}", mode.engine()), 1);
                    }
                    let bytes: Option<&[u8]> = synth.map(|sf| sf.bytes.as_slice());
                    if ctx.violation(&sig, detail, bytes) {
                        // not a known finding: keep a per-size breakdown
                        ctx.count(&format!("new_mismatch_by_font_engine_ppem:{}:{}:{:05}", font.name, mode.engine(), ppem), 1);
                    }
                } else if nontrivial == 1 && !ft_path.is_empty() {
                    ctx.sample_by_kind(
                        &format!("{}:{}", face.flavour, mode_name),
                        json!({"font": fkey, "gid": gid, "ppem": ppem, "mode": mode_name, "advance": ft_adv, "skrifa_advance": sk_adv, "path_len": ft_path.len(), "path_head": path_to_strings(ft_path, 3)}),
                    );
                }
            }
        }
    }
    ctx.count(&cmp_key, compared);
    ctx.count("comparisons", compared);
    ctx.count(&format!("comparisons:{}", face.flavour), compared);
    ctx.count("comparisons_nonempty_both", nontrivial);
    ctx.count("comparisons_empty_both", empty_both);
    ctx.count("both_error", both_error);
    ctx.count("advance_comparisons", advance_checked);
    ctx.count("configs_run", 1);
    ConfigOutcome::Ran
}

pub fn run(ctx: &mut Ctx, _args: &Args) {
    ctx.rule = "a comparison where BOTH FreeType and skrifa produced a non-empty regularised outline; digest = (font file+content hash, face index, glyph id, ppem, engine/target)".into();
    ctx.level = "exploration".into();
    ctx.assumptions = vec![
        "reference = the FreeType that fauntlet links (freetype-sys 0.17 bundled FreeType 2.12.1), driven through fauntlet's own adapter and RegularizingPen".into(),
        "skrifa built without `autohint_shaping` (default-features=false, features=[std]) exactly like fauntlet".into(),
        "static fonts only (any face with an fvar table is skipped); tricky fonts are compared unscaled/unhinted only, as fauntlet lets FreeType ignore hinting flags for them".into(),
        "advance compared when skrifa reports AdjustedMetrics.advance_width (glyf, auto-hinter) against FT glyph metrics horiAdvance".into(),
        "synthetic fonts: valid by construction for both engines. Kept out of the random fonts and visible only in the fixed probe font (open known findings): GETINFO selector bit 12 (differs under the light target), INSTCTRL in prep (selector 2 is undone by FreeType's TT_Hint_Glyph, selector 3 differs under the normal target; C03_SYNTH_INSTCTRL=1 re-enables it). The shapes of the first round of findings (SCALED_COMPONENT_OFFSET with 2x2, zero-contour glyphs with a header, phantom point rounding, int16 auto-hinter input) are fixed upstream and generated again".into(),
        "synthetic fonts, AUTO-HINTER comparisons only (unscaled / unhinted / interpreter comparisons cover every glyph): restricted to glyphs the auto-hinter can classify unambiguously -- every contour of the flattened glyph has >= 3 points and a bounding box of at least upem/20 in both directions, all coordinates within 4 em and within int16 after the lsb shift; Latin letters (blue-zone / stem-width sources) map only to stem- or bowl-like glyphs; two targets and the quick size list. Outside that domain skrifa and FreeType 2.12.1 differ about once per 5*10^7 comparisons on clusters of zero-area contours (two-point contours, slivers from squashing transforms); 4 reproducers, not root-caused, in checks/c03/notes/autohint_unexplained.md. IP is generated only for simple glyphs between reference points that are well apart (otherwise results overflow 32 bits in skrifa but not FreeType's 64-bit FT_Pos)".into(),
    ];
    let fonts = all_fonts();
    let quick = !ctx.tier.is_thorough();
    let sizes = sizes(ctx);
    let modes = scaled_modes();
    let mut stats = Stats::default();
    let mut item = 0usize;

    ctx.extra.insert("ppem_grid".into(), json!({"count": sizes.len(), "min_scaled": sizes.iter().filter(|s| **s != 0).min(), "max": sizes.iter().max(), "includes_unscaled": sizes.contains(&0)}));
    ctx.extra.insert(
        "freetype".into(),
        json!("freetype-sys 0.17 bundled FreeType 2.12.1, driven through fauntlet's adapter"),
    );

    // Debugging aid only (never set by the driver): skip the corpus part.
    let skip_corpus = std::env::var("C03_SKIP_CORPUS").is_ok();
    for font in &fonts {
        let faces = static_outline_faces(ctx, font);
        if faces.is_empty() || skip_corpus {
            continue;
        }
        // One FT library + mmap per corpus file per shard, opened lazily.
        let mut ft_font: Option<Font> = None;
        for face in &faces {
            let fkey = font_key(font, face.index);
            let n = face.glyph_count as usize;
            if n == 0 {
                continue;
            }
            let stride = if quick {
                n.div_ceil(QUICK_GLYPHS_PER_CONFIG).max(1)
            } else {
                1
            };
            let mut face_seen = false;
            for (si, &ppem) in sizes.iter().enumerate() {
                let mode_list: &[Mode] = if ppem == 0 { &[Mode::Unscaled] } else { &modes };
                for (mi, &mode) in mode_list.iter().enumerate() {
                    let mine = ctx.mine(item);
                    item += 1;
                    if !mine {
                        continue;
                    }
                    if ft_font.is_none() {
                        ft_font = open_font(ctx, &font.path);
                        if ft_font.is_none() {
                            break;
                        }
                    }
                    let Some(ff) = ft_font.as_mut() else { break };
                    // seed-dependent residue class (quick, big fonts only)
                    let offset = if stride > 1 {
                        Rng::derive(ctx.seed, &fkey, (si * 16 + mi) as u64).usize(stride)
                    } else {
                        0
                    };
                    let mut gids = (0..n as u32).filter(|g| (*g as usize) % stride == offset);
                    match run_config(ctx, &mut stats, ff, font, face, ppem, mode, &mut gids, None) {
                        ConfigOutcome::Ran => {
                            if !face_seen {
                                face_seen = true;
                                ctx.label("fonts", &format!("{} [{} glyphs, {}]", fkey, n, face.flavour));
                                ctx.label("flavours", face.flavour);
                            }
                            ctx.label("ppem", &format!("{:04}", ppem));
                            // glyph coverage is the same residue class for
                            // every shard only when stride == 1; record ids.
                            let fhash = fnv64(fkey.as_bytes());
                            for g in (0..n as u32).filter(|g| (*g as usize) % stride == offset) {
                                let mut d = Digest::new();
                                d.u64(fhash);
                                d.u64(g as u64);
                                ctx.distinct("glyphs", d.finish());
                            }
                        }
                        ConfigOutcome::Skipped(why) => {
                            ctx.count(&format!("configs_skipped:{}", why), 1);
                            ctx.label("configs_skipped", &format!("{}:{}", font.name, why));
                        }
                    }
                }
            }
        }
    }

    run_synthetic(ctx, &mut stats, &mut item);

    for (sig, n) in stats.mismatches.iter().take(200) {
        // per-signature totals (summed over shards by the merge)
        ctx.count(&format!("differing_comparisons:{}", sig), *n);
    }
    ctx.exhaustive = Some(!quick);
}

/// Per-font state of a synthetic run.
struct SynthRun<'a> {
    font: &'a synth::SynthFont,
    /// digest of skrifa's unhinted outline per (ppem, glyph)
    unhinted: std::collections::HashMap<(u32, u32), u64>,
}

fn path_digest(p: &[PathElement]) -> u64 {
    let mut d = Digest::new();
    for e in p {
        match *e {
            PathElement::MoveTo { x, y } => {
                d.u32(1);
                d.f32(x);
                d.f32(y);
            }
            PathElement::LineTo { x, y } => {
                d.u32(2);
                d.f32(x);
                d.f32(y);
            }
            PathElement::QuadTo { cx0, cy0, x, y } => {
                d.u32(3);
                d.f32(cx0);
                d.f32(cy0);
                d.f32(x);
                d.f32(y);
            }
            PathElement::CurveTo { cx0, cy0, cx1, cy1, x, y } => {
                d.u32(4);
                d.f32(cx0);
                d.f32(cy0);
                d.f32(cx1);
                d.f32(cy1);
                d.f32(x);
                d.f32(y);
            }
            PathElement::Close => d.u32(5),
        }
    }
    d.finish()
}

/// Synthetic fonts per tier (dealt to shards one font at a time).
const SYNTH_FONTS_QUICK: u32 = 4000;
const SYNTH_FONTS_THOROUGH: u32 = 12000;

/// A synthetic font written to a private temporary file (fauntlet maps files).
struct TempFont {
    dir: std::path::PathBuf,
    path: std::path::PathBuf,
}

impl TempFont {
    fn write(name: &str, bytes: &[u8]) -> Option<TempFont> {
        let dir = std::env::temp_dir().join(format!("vf-c03-synth-{}", std::process::id()));
        std::fs::create_dir_all(&dir).ok()?;
        let path = dir.join(format!("{name}.ttf"));
        std::fs::write(&path, bytes).ok()?;
        Some(TempFont { dir, path })
    }
}

impl Drop for TempFont {
    fn drop(&mut self) {
        let _ = std::fs::remove_file(&self.path);
        let _ = std::fs::remove_dir(&self.dir); // only succeeds when empty
    }
}

fn synth_corpus_font(sf: &synth::SynthFont, tmp: &TempFont) -> CorpusFont {
    CorpusFont {
        name: sf.name.clone(),
        path: tmp.path.clone(),
        data: std::sync::Arc::new(sf.bytes.clone()),
    }
}

/// Modes for one synthetic font. Interpreter: all five targets for fonts with
/// programs; fonts without any bytecode have a single interpreter behaviour
/// per target class, so two targets are enough there. Auto-hinter: two targets
/// (the corpus part runs all five on real shapes); the synthetic glyphs are
/// about the loader/scaler, and on their irregular shapes skrifa's auto-hinter
/// very rarely differs from FreeType's (about 1 in 5*10^7 comparisons, open
/// findings in the report), so the exposure is kept moderate.
fn synth_modes(sf: &synth::SynthFont) -> Vec<Mode> {
    let mut v = vec![Mode::Unhinted];
    if sf.has_programs {
        v.extend(TARGETS.iter().map(|t| Mode::Hinted(Hinting::Interpreter(*t))));
    } else {
        v.push(Mode::Hinted(Hinting::Interpreter(HintingTarget::Mono)));
        v.push(Mode::Hinted(Hinting::Interpreter(HintingTarget::Normal)));
    }
    v.push(Mode::Hinted(Hinting::Auto(HintingTarget::Mono)));
    v.push(Mode::Hinted(Hinting::Auto(HintingTarget::Normal)));
    v
}

/// Runs every glyph of one synthetic font through its size list and modes.
fn run_synth_font(ctx: &mut Ctx, stats: &mut Stats, sf: &synth::SynthFont, ppems: &[u32], only: Option<(u32, &str)>) {
    let Some(tmp) = TempFont::write(&sf.name, &sf.bytes) else {
        ctx.inconclusive(format!("cannot write temporary font file for {}", sf.name));
        return;
    };
    let font = synth_corpus_font(sf, &tmp);
    let faces = static_outline_faces(ctx, &font);
    let Some(face) = faces.first() else {
        // the generator promises a static glyf font that read-fonts can open
        ctx.inconclusive(format!("synthetic font {} not recognised as a static glyf face", sf.name));
        return;
    };
    let face = FaceInfo { index: face.index, glyph_count: face.glyph_count, flavour: "glyf-synthetic" };
    let Some(mut ff) = open_font(ctx, &font.path) else { return };
    let modes = synth_modes(sf);
    let n = face.glyph_count;
    let mut sr = SynthRun { font: sf, unhinted: Default::default() };
    for &ppem in ppems {
        let mode_list: Vec<Mode> = if ppem == 0 { vec![Mode::Unscaled] } else { modes.clone() };
        for mode in mode_list {
            let outcome = match only {
                Some((gid, engine)) => {
                    if mode.engine() != engine {
                        continue;
                    }
                    run_config(ctx, stats, &mut ff, &font, &face, ppem, mode, &mut std::iter::once(gid), Some(&mut sr))
                }
                None => {
                    if matches!(mode, Mode::Hinted(Hinting::Auto(_))) && !sf.ppems_quick.contains(&ppem) {
                        // thorough tier: the extra sizes are for the scaler and the interpreter
                        continue;
                    }
                    if matches!(mode, Mode::Hinted(Hinting::Auto(_))) {
                        // auto-hinter comparisons only on eligible glyphs (see assumptions):
                        // glyphs with very large coordinates are outside its sane domain
                        // (the probe font keeps two such cases visible)
                        let skipped = sf.glyphs.iter().filter(|g| !g.autohint_ok).count() as u64;
                        ctx.count("synthetic_auto_comparisons_skipped:glyph_not_eligible", skipped);
                        ctx.count("synthetic_auto_comparisons_eligible_glyphs", sf.glyphs.len() as u64 - skipped);
                        let mut gids = (0..n).filter(|g| sf.glyphs.get(*g as usize).map(|x| x.autohint_ok).unwrap_or(true));
                        run_config(ctx, stats, &mut ff, &font, &face, ppem, mode, &mut gids, Some(&mut sr))
                    } else {
                        run_config(ctx, stats, &mut ff, &font, &face, ppem, mode, &mut (0..n), Some(&mut sr))
                    }
                }
            };
            match outcome {
                ConfigOutcome::Ran => ctx.count("synthetic_configs_run", 1),
                ConfigOutcome::Skipped(why) => ctx.count(&format!("synthetic_configs_skipped:{}", why), 1),
            }
        }
    }
}

/// The constructive part of the workload: fonts built by `synth::generate`
/// from (VERIF_SEED, index), same differential as the corpus.
fn run_synthetic(ctx: &mut Ctx, stats: &mut Stats, item: &mut usize) {
    let n_fonts = std::env::var("C03_SYNTH_FONTS")
        .ok()
        .and_then(|s| s.parse().ok())
        .unwrap_or(ctx.tier.pick(SYNTH_FONTS_QUICK, SYNTH_FONTS_THOROUGH));
    let thorough = ctx.tier.is_thorough();
    let debug_sizes: Option<Vec<u32>> = std::env::var("C03_SIZES").ok().map(|s| s.split(',').filter_map(|x| x.parse().ok()).collect());
    let mut features: BTreeMap<String, u64> = BTreeMap::new();
    // the fixed probe font (known divergences under stable signatures): one work item
    let mine = ctx.mine(*item);
    *item += 1;
    if mine {
        match vf_core::guard(synth::probe_font) {
            Ok(pf) => {
                ctx.count("synthetic_probe_fonts", 1);
                let ppems = pf.ppems_quick.clone();
                run_synth_font(ctx, stats, &pf, &ppems, None);
            }
            Err(p) => ctx.inconclusive(format!("probe font generator panicked: {}:{} {}", p.file, p.line, p.msg)),
        }
    }
    for index in 0..n_fonts {
        let mine = ctx.mine(*item);
        *item += 1;
        if !mine {
            continue;
        }
        let sf = match vf_core::guard(|| synth::generate(ctx.seed, index)) {
            Ok(f) => f,
            Err(p) => {
                ctx.inconclusive(format!("generator panicked for font {}: {}:{} {}", index, p.file, p.line, p.msg));
                continue;
            }
        };
        ctx.count("synthetic_fonts", 1);
        ctx.count("synthetic_glyphs", sf.glyphs.len() as u64);
        if sf.has_programs {
            ctx.count("synthetic_fonts_with_programs", 1);
        }
        ctx.label("synthetic_units_per_em", &format!("{:05}", sf.upem));
        for (k, v) in &sf.features {
            *features.entry(k.clone()).or_default() += *v;
        }
        for sel in &sf.round_selectors {
            ctx.distinct(if *sel < 256 { "synthetic_sround_selectors" } else { "synthetic_s45round_selectors" }, *sel as u64);
        }
        let ppems = debug_sizes.clone().unwrap_or_else(|| if thorough { sf.ppems_thorough.clone() } else { sf.ppems_quick.clone() });
        run_synth_font(ctx, stats, &sf, &ppems, None);
    }
    for (k, v) in features {
        ctx.count(&format!("synthetic_feature:{}", k), v);
    }
    ctx.extra.insert(
        "synthetic".into(),
        json!({
            "generator_version": synth::GEN_VERSION,
            "fonts_this_tier": n_fonts,
            "note": "fonts derive from (VERIF_SEED, index); counters synthetic_feature:* count generated glyphs/components per feature; comparisons:glyf-synthetic counts the comparisons",
        }),
    );
}

/// Mirror of `fauntlet::SkrifaInstance::new`, used only to attribute an
/// instantiation failure to one side.
fn skrifa_instantiates(data: &[u8], index: usize, ppem: u32, mode: Mode) -> bool {
    use skrifa::{
        outline::HintingInstance,
        prelude::Size,
        raw::FontRef,
        MetadataProvider,
    };
    let Ok(font) = FontRef::from_index(data, index as u32) else {
        return false;
    };
    let outlines = font.outline_glyphs();
    if ppem == 0 {
        return true;
    }
    let size = Size::new(ppem as f32);
    let no_coords: &[skrifa::raw::types::F2Dot14] = &[];
    match mode.hinting() {
        Some(h) => vf_core::guard(|| HintingInstance::new(&outlines, size, no_coords, h.skrifa_options()).is_ok())
            .unwrap_or(false),
        None => true,
    }
}

/// Extra observations attached to a mismatch report (never part of the
/// verdict): does FreeType report an error for this glyph under
/// FT_LOAD_PEDANTIC (it silently falls back to the unhinted outline
/// otherwise), and is each side's hinted outline just its unhinted one?
fn diagnose(
    font: &CorpusFont,
    face: &FaceInfo,
    gid: u32,
    ppem: u32,
    mode: Mode,
    ft_path: &[PathElement],
    sk_path: &[PathElement],
) -> Value {
    let r = vf_core::guard(|| {
        let mut out = serde_json::Map::new();
        if ppem == 0 {
            return Value::Object(out);
        }
        // 1. FreeType, same flags as fauntlet + PEDANTIC
        {
            use freetype::face::LoadFlag;
            let pedantic = (|| -> Result<(), String> {
                let lib = freetype::Library::init().map_err(|e| format!("init: {e:?}"))?;
                let f = lib
                    .new_face(&font.path, face.index as isize)
                    .map_err(|e| format!("new_face: {e:?}"))?;
                f.set_pixel_sizes(ppem, ppem).map_err(|e| format!("set_pixel_sizes: {e:?}"))?;
                let mut flags = LoadFlag::NO_BITMAP | LoadFlag::PEDANTIC;
                match mode.hinting() {
                    None => flags |= LoadFlag::NO_HINTING,
                    Some(h) => flags |= h.freetype_load_flags(),
                }
                f.load_glyph(gid, flags).map_err(|e| format!("{e:?}"))
            })();
            out.insert(
                "freetype_load_glyph_with_FT_LOAD_PEDANTIC".into(),
                match pedantic {
                    Ok(()) => json!("ok"),
                    Err(e) => json!(format!("error: {e}")),
                },
            );
        }
        // 2. unhinted outlines from both sides at the same size
        if mode.hinting().is_some() {
            if let Some(mut f2) = Font::new(&font.path) {
                let options = InstanceOptions::new(face.index, ppem, &[], None);
                if let Some((mut ft, mut sk)) = f2.instantiate(&options) {
                    let glyph_id = GlyphId::new(gid);
                    let mut a: Vec<PathElement> = vec![];
                    let mut b: Vec<PathElement> = vec![];
                    let fa = ft.outline(glyph_id, &mut RegularizingPen::new(&mut a, true));
                    let sb = sk.outline(glyph_id, &mut RegularizingPen::new(&mut b, true));
                    if fa.is_some() {
                        out.insert("freetype_hinted_path_equals_freetype_unhinted_path".into(), json!(a.as_slice() == ft_path));
                    }
                    if sb.is_ok() {
                        out.insert("skrifa_hinted_path_equals_skrifa_unhinted_path".into(), json!(b.as_slice() == sk_path));
                    }
                    out.insert("unhinted_paths_agree".into(), json!(a == b));
                }
            }
        }
        Value::Object(out)
    });
    r.unwrap_or(Value::Null)
}

/// The frozen corpus: font-test-data + /verif/corpus/fonts, plus the source
/// fonts of klippa's test data (pinned in the repository; they add real-world
/// hinted TrueType programs and a hinted CFF font).
fn all_fonts() -> Vec<CorpusFont> {
    let mut v = vf_core::corpus_fonts();
    let mut names: std::collections::HashSet<u64> = v.iter().map(|f| fnv64(&f.data)).collect();
    for f in vf_core::klippa_fonts() {
        if names.insert(fnv64(&f.data)) {
            v.push(f);
        }
    }
    v
}

fn open_font(ctx: &mut Ctx, path: &Path) -> Option<Font> {
    match vf_core::guard(|| Font::new(path)) {
        Ok(Some(f)) => Some(f),
        Ok(None) => {
            ctx.count("files_skipped:fauntlet_open_failed", 1);
            None
        }
        Err(p) => {
            ctx.inconclusive(format!("panic opening {}: {}", path.display(), p.msg));
            None
        }
    }
}

/// Replay of a mismatch on a synthetic font: the recorded font bytes (or, if
/// the .bin is gone, the font regenerated from (seed, index)) x all sizes x
/// the recorded engine, for the recorded glyph.
fn replay_synthetic(ctx: &mut Ctx, d: &Value, bytes: Option<&[u8]>) {
    let seed = d["synthetic"]["seed"].as_u64().unwrap_or(ctx.seed);
    let index = d["synthetic"]["index"].as_u64().unwrap_or(0) as u32;
    let gid = d["gid"].as_u64().unwrap_or(0) as u32;
    let engine = d["engine"].as_str().unwrap_or("none").to_string();
    let is_probe = d["synthetic"]["probe"].as_bool().unwrap_or(false);
    let mut sf = match vf_core::guard(|| if is_probe { synth::probe_font() } else { synth::generate(seed, index) }) {
        Ok(f) => f,
        Err(p) => {
            ctx.inconclusive(format!("replay: generator panicked: {}", p.msg));
            return;
        }
    };
    if let Some(b) = bytes {
        if b != sf.bytes.as_slice() {
            // generator changed since the record was written: trust the bytes
            ctx.count("replay_bytes_differ_from_regenerated_font", 1);
            sf.bytes = b.to_vec();
        }
    }
    let mut all_sizes: Vec<u32> = vec![0];
    all_sizes.extend(5..=200u32);
    all_sizes.extend(THOROUGH_EXTRA_SIZES);
    let mut stats = Stats::default();
    run_synth_font(ctx, &mut stats, &sf, &all_sizes, Some((gid, &engine)));
}

/// Re-run one recorded mismatch: all sizes of the tier for the recorded
/// (font, face, glyph, engine).
fn replay(ctx: &mut Ctx, _args: &Args, rec: &Value, _bytes: Option<&[u8]>) {
    ctx.rule = "replay of one recorded (font, glyph, engine)".into();
    let d = &rec["detail"];
    if d["synthetic"].is_object() {
        replay_synthetic(ctx, d, _bytes);
        return;
    }
    let Some(name) = d["font"].as_str().and_then(|s| s.split('#').next()) else {
        ctx.inconclusive("replay record without font");
        return;
    };
    let name = name.split('@').next().unwrap_or(name).to_string();
    let gid = d["gid"].as_u64().unwrap_or(0) as u32;
    let index = d["index"].as_u64().unwrap_or(0) as usize;
    let engine = d["engine"].as_str().unwrap_or("none").to_string();
    let fonts = all_fonts();
    let Some(font) = fonts.iter().find(|f| f.name == name) else {
        ctx.inconclusive(format!("replay: font {} not in corpus", name));
        return;
    };
    let faces = static_outline_faces(ctx, font);
    let Some(face) = faces.iter().find(|f| f.index == index) else {
        ctx.inconclusive("replay: face not in domain");
        return;
    };
    let Some(mut ff) = open_font(ctx, &font.path) else { return };
    let mut stats = Stats::default();
    let mut all_sizes: Vec<u32> = vec![0];
    all_sizes.extend(5..=200u32);
    all_sizes.extend(THOROUGH_EXTRA_SIZES);
    for ppem in all_sizes {
        let modes: Vec<Mode> = if ppem == 0 { vec![Mode::Unscaled] } else { scaled_modes() };
        for mode in modes {
            if mode.engine() != engine {
                continue;
            }
            let mut gids = std::iter::once(gid);
            run_config(ctx, &mut stats, &mut ff, font, face, ppem, mode, &mut gids, None);
        }
    }
}
