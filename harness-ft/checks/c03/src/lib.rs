//! C03 — see /verif/DESIGN.md §3.
use vf_core::{Args, Ctx};

pub const REPLAY: Option<fn(&mut Ctx, &Args, &serde_json::Value, Option<&[u8]>)> = None;

pub fn run(ctx: &mut Ctx, _args: &Args) {
    ctx.rule = "stub".into();
}
