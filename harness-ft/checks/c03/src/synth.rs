//! Constructive generator of small static TrueType fonts for the FreeType
//! differential (C03).
//!
//! The frozen corpus is a sample; the property quantifies over all static
//! outline fonts. This module builds valid `glyf` fonts whose glyphs exercise
//! every branch of the composite loader (`FreeTypeScaler::load_composite` /
//! FreeType's `load_truetype_glyph` + `TT_Process_Composite_Component`) and
//! the simple-glyph decoder, in shapes that no corpus font contains:
//!
//! * simple glyphs: stems, round shapes, random on/off mixes, contours that
//!   start off-curve, all-off-curve contours, one- and two-point contours,
//!   repeated points, extreme coordinates, empty glyphs (zero-length and
//!   zero-contour), compact / wide / randomly chosen point encodings;
//! * composites, nesting depth 1..=4, nested composites as first and as
//!   non-first component, 8/16-bit x/y offsets, POINT anchors (8/16-bit point
//!   numbers, also inside composites that are loaded with a non-zero point
//!   base), scale / x-y scale / 2x2 transforms, ROUND_XY_TO_GRID,
//!   USE_MY_METRICS, SCALED_/UNSCALED_COMPONENT_OFFSET, OVERLAP_COMPOUND,
//!   components that are empty glyphs, negative offsets that land exactly on
//!   half pixels at a ppem that is then part of the font's size list;
//! * optionally small TrueType programs (fpgm / prep / cvt / glyph programs of
//!   simple and composite glyphs) from a conservative instruction subset.
//!
//! Everything is derived deterministically from (VERIF_SEED, font index).

use crate::vf_core::Rng;
use serde_json::{json, Value};
use std::collections::BTreeMap;

/// Bump when the generator changes shape (part of the font name/signature).
pub const GEN_VERSION: u32 = 1;

// component flags
pub const ARG_1_AND_2_ARE_WORDS: u16 = 0x0001;
pub const ARGS_ARE_XY_VALUES: u16 = 0x0002;
pub const ROUND_XY_TO_GRID: u16 = 0x0004;
pub const WE_HAVE_A_SCALE: u16 = 0x0008;
pub const MORE_COMPONENTS: u16 = 0x0020;
pub const WE_HAVE_AN_X_AND_Y_SCALE: u16 = 0x0040;
pub const WE_HAVE_A_TWO_BY_TWO: u16 = 0x0080;
pub const WE_HAVE_INSTRUCTIONS: u16 = 0x0100;
pub const USE_MY_METRICS: u16 = 0x0200;
pub const OVERLAP_COMPOUND: u16 = 0x0400;
pub const SCALED_COMPONENT_OFFSET: u16 = 0x0800;
pub const UNSCALED_COMPONENT_OFFSET: u16 = 0x1000;
const ANY_XFORM: u16 = WE_HAVE_A_SCALE | WE_HAVE_AN_X_AND_Y_SCALE | WE_HAVE_A_TWO_BY_TWO;

#[derive(Clone, Copy, Debug, PartialEq)]
pub struct Pt {
    pub x: i16,
    pub y: i16,
    pub on: bool,
}

#[derive(Clone, Debug)]
pub struct Comp {
    pub gid: u16,
    /// raw flags without MORE_COMPONENTS / WE_HAVE_INSTRUCTIONS
    pub flags: u16,
    pub arg1: i32,
    pub arg2: i32,
    /// raw F2Dot14 bits: xx, yx, xy, yy
    pub xform: [i16; 4],
}

#[derive(Clone, Debug)]
pub enum Recipe {
    /// zero-length glyph (loca[i] == loca[i+1])
    Empty,
    Simple {
        contours: Vec<Vec<Pt>>,
        kind: String,
        encoding: &'static str,
        overlap_simple: bool,
        ins: Vec<u8>,
    },
    Composite {
        comps: Vec<Comp>,
        ins: Vec<u8>,
    },
}

#[derive(Clone, Debug)]
pub struct GlyphInfo {
    pub recipe: Recipe,
    pub bbox: [i16; 4],
    pub advance: u16,
    pub lsb: i16,
    pub n_points: usize,
    pub n_contours: usize,
    pub depth: usize,
    /// number of component records in the flattened tree (maxComponentElements is per level)
    pub has_point_anchor_deep: bool,
    /// coordinates small enough for FreeType's auto-hinter (which keeps font
    /// units and their differences in FT_Short) -- see `autohint_ok`
    pub autohint_ok: bool,
    /// approximate flattened points in font units (f64 model; bbox + growth control only)
    pub pts: Vec<(f64, f64)>,
}

pub struct SynthFont {
    pub name: String,
    pub seed: u64,
    pub index: u32,
    pub upem: u16,
    pub bytes: Vec<u8>,
    pub glyphs: Vec<GlyphInfo>,
    /// quick ppem list (0 = unscaled first); thorough = quick + extra
    pub ppems_quick: Vec<u32>,
    pub ppems_thorough: Vec<u32>,
    pub has_programs: bool,
    pub params: Value,
    pub features: BTreeMap<String, u64>,
    /// SROUND (0..=255) / S45ROUND (256..=511) selectors used by the programs
    pub round_selectors: Vec<u16>,
}

struct Gen {
    rng: Rng,
    upem: u16,
    /// typical coordinate extent (font units)
    ext: i32,
    allow_extreme: bool,
    glyphs: Vec<GlyphInfo>,
    features: BTreeMap<String, u64>,
    /// (ppem, font-unit step) such that odd multiples of `step` scale to n + 1/2 pixels at `ppem`
    half_pixel: Option<(u32, i32)>,
    programs: bool,
    cvt: Vec<i16>,
    /// Keep the shapes of the first round of findings out of the random fonts
    /// (comments saying KNOWN DIVERGENCE next to uses of this flag). They were
    /// fixed in /repo (3fc7b53, 9915a84, ae356e3, 8411bdb, aeb6f2f), so the flag
    /// is now off by default and those shapes are generated; set
    /// C03_SYNTH_AVOID_FIXED=1 to run against an older tree. The probe font
    /// keeps one regression glyph per finding.
    avoid_known: bool,
}

fn f2dot14_to_f64(b: i16) -> f64 {
    b as f64 / 16384.0
}

impl Gen {
    fn feat(&mut self, k: &str) {
        *self.features.entry(k.to_string()).or_default() += 1;
    }

    fn coord(&mut self) -> i16 {
        // box [-0.25 ext, 1.25 ext]
        let lo = -(self.ext / 4) as i64;
        let hi = (self.ext + self.ext / 4) as i64;
        self.rng.range(lo, hi) as i16
    }

    // ------------------------------------------------------------ simple glyphs

    fn contour_of_kind(&mut self, kind: usize) -> (Vec<Pt>, &'static str) {
        let e = self.ext.max(8);
        match kind {
            0 => {
                // axis-aligned rectangle (stem-like), clockwise
                let x0 = self.rng.range(0, (e * 3 / 4) as i64) as i32;
                let y0 = self.rng.range(-(e as i64) / 5, (e * 3 / 4) as i64) as i32;
                let w = self.rng.range(1, (e / 3).max(1) as i64) as i32;
                let h = self.rng.range(1, e as i64) as i32;
                let (x1, y1) = (x0 + w, y0 + h);
                let p = |x: i32, y: i32| Pt { x: x as i16, y: y as i16, on: true };
                let mut v = vec![p(x0, y0), p(x0, y1), p(x1, y1), p(x1, y0)];
                if self.rng.chance(1, 3) {
                    v.reverse();
                }
                (v, "rect")
            }
            1 => {
                // round shape: on-curve extrema with off-curve corners, or all-off variant
                let cx = self.rng.range((e / 4) as i64, (e * 3 / 4) as i64) as i32;
                let cy = self.rng.range((e / 4) as i64, (e * 3 / 4) as i64) as i32;
                let rx = self.rng.range(1, (e / 2).max(1) as i64) as i32;
                let ry = self.rng.range(1, (e / 2).max(1) as i64) as i32;
                let all_off = self.rng.chance(1, 4);
                let mut v = vec![];
                let q = |x: i32, y: i32, on: bool| Pt { x: x as i16, y: y as i16, on };
                if all_off {
                    v.push(q(cx - rx, cy - ry, false));
                    v.push(q(cx - rx, cy + ry, false));
                    v.push(q(cx + rx, cy + ry, false));
                    v.push(q(cx + rx, cy - ry, false));
                    (v, "round_all_off")
                } else {
                    v.push(q(cx - rx, cy, true));
                    v.push(q(cx - rx, cy + ry, false));
                    v.push(q(cx, cy + ry, true));
                    v.push(q(cx + rx, cy + ry, false));
                    v.push(q(cx + rx, cy, true));
                    v.push(q(cx + rx, cy - ry, false));
                    v.push(q(cx, cy - ry, true));
                    v.push(q(cx - rx, cy - ry, false));
                    (v, "round")
                }
            }
            2 => {
                let n = self.rng.range(3, 12) as usize;
                let v = (0..n)
                    .map(|_| Pt { x: self.coord(), y: self.coord(), on: self.rng.chance(3, 5) })
                    .collect();
                (v, "random_mixed")
            }
            3 => {
                let n = self.rng.range(2, 9) as usize;
                let mut v: Vec<Pt> = (0..n)
                    .map(|_| Pt { x: self.coord(), y: self.coord(), on: self.rng.bool() })
                    .collect();
                v[0].on = false;
                if self.rng.bool() {
                    v[1].on = false; // starts with two off-curve points (implied start)
                }
                if self.rng.bool() {
                    let l = v.len() - 1;
                    v[l].on = false; // and ends off-curve
                }
                (v, "starts_off_curve")
            }
            4 => {
                let n = self.rng.range(1, 8) as usize;
                let v = (0..n).map(|_| Pt { x: self.coord(), y: self.coord(), on: false }).collect();
                (v, "all_off_curve")
            }
            5 => {
                // degenerate: 1 or 2 points, or repeated points
                let n = self.rng.range(1, 4) as usize;
                let p = Pt { x: self.coord(), y: self.coord(), on: self.rng.chance(3, 4) };
                let mut v = vec![p; n];
                if n > 1 && self.rng.bool() {
                    v[n - 1] = Pt { x: self.coord(), y: self.coord(), on: self.rng.bool() };
                }
                (v, "degenerate")
            }
            6 => {
                // extreme coordinates (only where the em is large enough)
                let n = self.rng.range(3, 8) as usize;
                let lim: i64 = if self.allow_extreme { 32767 } else { (self.ext as i64 * 4).min(32767) };
                let ex = [-lim - if self.allow_extreme { 1 } else { 0 }, lim, 0, -1, 1, lim - 1, -lim];
                let v = (0..n)
                    .map(|_| {
                        let x = if self.rng.chance(2, 3) { *self.rng.pick(&ex) } else { self.rng.range(-lim, lim) };
                        let y = if self.rng.chance(2, 3) { *self.rng.pick(&ex) } else { self.rng.range(-lim, lim) };
                        Pt { x: x as i16, y: y as i16, on: self.rng.chance(2, 3) }
                    })
                    .collect();
                (v, "extreme")
            }
            _ => {
                // many points, roughly polygonal ring with off-curve points sprinkled in
                let n = self.rng.range(20, 90) as usize;
                let cx = (e / 2) as f64;
                let cy = (e / 2) as f64;
                let r = (e / 2) as f64;
                let v = (0..n)
                    .map(|i| {
                        let a = -(i as f64) / n as f64 * std::f64::consts::TAU;
                        let rr = r * (0.6 + 0.4 * self.rng.f64());
                        Pt {
                            x: (cx + rr * a.cos()).round() as i16,
                            y: (cy + rr * a.sin()).round() as i16,
                            on: self.rng.chance(1, 2),
                        }
                    })
                    .collect();
                (v, "many_points")
            }
        }
    }

    fn gen_simple(&mut self) -> GlyphInfo {
        let n_contours = *self.rng.pick(&[1usize, 1, 1, 2, 2, 3, 4]);
        let base_kind = self.rng.usize(8);
        let mut contours = vec![];
        let mut kinds: Vec<&'static str> = vec![];
        for i in 0..n_contours {
            let k = if i == 0 || self.rng.chance(1, 2) { base_kind } else { self.rng.usize(8) };
            let (c, name) = self.contour_of_kind(k);
            if !kinds.contains(&name) {
                kinds.push(name);
            }
            contours.push(c);
        }
        if self.avoid_known {
            // KNOWN DIVERGENCE (probe font): FreeType's auto-hinter keeps font-unit
            // coordinate differences in FT_Short; a glyph spanning more than 32767
            // units on an axis wraps there and not in skrifa.
            let min_x = contours.iter().flatten().map(|p| p.x as i32).min().unwrap_or(0);
            let min_y = contours.iter().flatten().map(|p| p.y as i32).min().unwrap_or(0);
            for p in contours.iter_mut().flatten() {
                p.x = (p.x as i32).min(min_x + 32767) as i16;
                p.y = (p.y as i32).min(min_y + 32767) as i16;
            }
        }
        // consecutive deltas must fit an int16 (glyf stores deltas)
        let (mut px, mut py) = (0i32, 0i32);
        for c in contours.iter_mut() {
            for p in c.iter_mut() {
                let dx = (p.x as i32 - px).clamp(-32768, 32767);
                let dy = (p.y as i32 - py).clamp(-32768, 32767);
                p.x = (px + dx) as i16;
                p.y = (py + dy) as i16;
                px = p.x as i32;
                py = p.y as i32;
            }
        }
        for k in &kinds {
            self.feat(&format!("simple_contour_kind:{k}"));
        }
        let encoding = *self.rng.pick(&["compact", "compact", "wide", "random"]);
        self.feat(&format!("simple_encoding:{encoding}"));
        let overlap_simple = self.rng.chance(1, 6);
        self.finish_simple(contours, kinds.join("+"), encoding, overlap_simple)
    }

    fn finish_simple(&mut self, contours: Vec<Vec<Pt>>, kind: String, encoding: &'static str, overlap_simple: bool) -> GlyphInfo {
        let pts: Vec<(f64, f64)> = contours.iter().flatten().map(|p| (p.x as f64, p.y as f64)).collect();
        let mut bbox = bbox_of(&pts);
        let n_points = pts.len();
        if n_points > 0 && self.rng.chance(1, 10) {
            // structurally valid but inexact header bbox (common in the wild);
            // both engines take pp1.x = xMin - lsb from the header
            bbox[0] = bbox[0].saturating_add(self.rng.range(-20, 20) as i16);
            bbox[3] = bbox[3].saturating_add(self.rng.range(-20, 20) as i16);
            self.feat("simple_inexact_header_bbox");
        }
        let (advance, mut lsb) = self.metrics(&bbox);
        if self.avoid_known {
            // KNOWN DIVERGENCE (probe font): a glyph with a header and
            // numberOfContours == 0 is a "space" for FreeType (bbox zeroed, phantom
            // points not rounded separately); skrifa hints it like a simple glyph.
            // Unobservable when xMin == lsb == 0.
            if n_points == 0 {
                bbox = [0; 4];
                lsb = 0;
            }
            // KNOWN DIVERGENCE (probe font): the auto-hinter of skrifa truncates
            // unscaled coordinates (after the -pp1.x shift) to int16 before scaling.
            let shift = (bbox[0] as i32 - lsb as i32).abs();
            if pts.iter().any(|p| p.0.abs() as i32 + shift > 32767) {
                bbox = bbox_of(&pts);
                lsb = bbox[0];
            }
        }
        let n_contours = contours.len();
        GlyphInfo {
            recipe: Recipe::Simple { contours, kind, encoding, overlap_simple, ins: vec![] },
            bbox,
            advance,
            lsb,
            n_points,
            n_contours,
            depth: 0,
            has_point_anchor_deep: false,
            autohint_ok: true,
            pts,
        }
    }

    fn metrics(&mut self, bbox: &[i16; 4]) -> (u16, i16) {
        let e = self.upem as i64;
        let advance = match self.rng.usize(10) {
            0 => 0,
            1 => self.rng.range(0, 65535.min(e * 4)) as u16,
            _ => self.rng.range(e / 4, (e * 3 / 2).min(65535)) as u16,
        };
        let lsb = if self.rng.chance(7, 10) {
            bbox[0]
        } else {
            self.feat("lsb_differs_from_xmin");
            bbox[0].saturating_add(self.rng.range(-(e / 8).max(1), (e / 8).max(1)) as i16)
        };
        (advance, lsb)
    }

    // ------------------------------------------------------------ composites

    fn f2dot14(&mut self) -> i16 {
        const POOL: [i16; 14] = [
            0x4000, 0x2000, 0x6000, 0x7fff, -0x4000, -0x2000, -0x8000, 0x3000, 0x5000, 0x1000, 0x4001, 0x3fff, 0x0001, 0,
        ];
        if self.rng.chance(3, 5) {
            // zero and the tiny value are rare members of the pool
            let i = if self.rng.chance(1, 12) { self.rng.range(12, 13) as usize } else { self.rng.usize(12) };
            POOL[i]
        } else {
            self.rng.range(-0x8000, 0x7fff) as i16
        }
    }

    fn gen_xform(&mut self) -> (u16, [i16; 4]) {
        match self.rng.usize(10) {
            0..=3 => (0, [0x4000, 0, 0, 0x4000]),
            4 | 5 => {
                let s = self.f2dot14();
                (WE_HAVE_A_SCALE, [s, 0, 0, s])
            }
            6 | 7 => {
                let (a, b) = (self.f2dot14(), self.f2dot14());
                (WE_HAVE_AN_X_AND_Y_SCALE, [a, 0, 0, b])
            }
            _ => {
                if self.rng.bool() {
                    // rotation / shear like
                    let ang = self.rng.f64() * std::f64::consts::TAU;
                    let s = 0.3 + 1.2 * self.rng.f64();
                    let q = |v: f64| (v * 16384.0).round().clamp(-32768.0, 32767.0) as i16;
                    (WE_HAVE_A_TWO_BY_TWO, [q(s * ang.cos()), q(s * ang.sin()), q(-s * ang.sin()), q(s * ang.cos())])
                } else {
                    (WE_HAVE_A_TWO_BY_TWO, [self.f2dot14(), self.f2dot14(), self.f2dot14(), self.f2dot14()])
                }
            }
        }
    }

    /// One attempt at a composite of exactly `depth`.
    fn try_composite(&mut self, depth: usize, feats: &mut Vec<String>) -> Option<GlyphInfo> {
        let by_depth = |g: &Vec<GlyphInfo>, d: usize| -> Vec<u16> {
            g.iter().enumerate().filter(|(_, x)| x.depth == d).map(|(i, _)| i as u16).collect()
        };
        let nested_pool = by_depth(&self.glyphs, depth - 1);
        if nested_pool.is_empty() {
            return None;
        }
        let lower: Vec<u16> = self
            .glyphs
            .iter()
            .enumerate()
            .filter(|(_, x)| x.depth < depth)
            .map(|(i, _)| i as u16)
            .collect();
        let simple_pool = by_depth(&self.glyphs, 0);
        let n_comps = *self.rng.pick(&[1usize, 2, 2, 2, 3, 3, 3, 4, 5, 8]);
        let nested_pos = if n_comps == 1 || self.rng.chance(2, 5) { 0 } else { self.rng.range(1, n_comps as i64 - 1) as usize };
        let mut comps: Vec<Comp> = vec![];
        let mut pts: Vec<(f64, f64)> = vec![];
        let mut n_points = 0usize;
        let mut n_contours = 0usize;
        let mut has_point_anchor_deep = false;
        for i in 0..n_comps {
            let gid = if i == nested_pos {
                *self.rng.pick(&nested_pool)
            } else if self.rng.chance(3, 5) {
                *self.rng.pick(&simple_pool)
            } else {
                *self.rng.pick(&lower)
            };
            let child = self.glyphs[gid as usize].clone();
            if n_points + child.n_points > 1500 {
                return None;
            }
            let (mut flags, xform) = self.gen_xform();
            let have_xform = flags & ANY_XFORM != 0;
            // offset-scaling flags (mutually exclusive by the spec)
            // KNOWN DIVERGENCE kept out of the random fonts (it lives in the fixed
            // probe font instead, see `probe_font`): with SCALED_COMPONENT_OFFSET
            // and a 2x2 transform that has off-diagonal terms skrifa scales the
            // offset by the FT_HYPOT approximation while FreeType uses the exact
            // FT_Hypot (= FT_Vector_Length).
            let off_diagonal = xform[1] != 0 || xform[2] != 0;
            match self.rng.usize(if have_xform { 4 } else { 8 }) {
                0 if !(self.avoid_known && off_diagonal) => flags |= SCALED_COMPONENT_OFFSET,
                1 => flags |= UNSCALED_COMPONENT_OFFSET,
                _ => {}
            }
            // (see finish_simple) a zero-contour glyph *with a header* never hands on
            // its metrics: skrifa rounds its phantom points, FreeType treats it as a space
            let zero_contour_header = matches!(&child.recipe, Recipe::Simple { contours, .. } if contours.is_empty());
            if self.rng.chance(1, 5) && !(self.avoid_known && zero_contour_header) {
                flags |= USE_MY_METRICS;
            }
            if self.rng.chance(1, 4) {
                flags |= OVERLAP_COMPOUND;
            }
            let (xx, yx, xy, yy) = (
                f2dot14_to_f64(xform[0]),
                f2dot14_to_f64(xform[1]),
                f2dot14_to_f64(xform[2]),
                f2dot14_to_f64(xform[3]),
            );
            let mut cpts: Vec<(f64, f64)> = if have_xform {
                child.pts.iter().map(|(x, y)| (x * xx + y * xy, x * yx + y * yy)).collect()
            } else {
                child.pts.clone()
            };
            let use_point_anchor = i > 0 && n_points > 0 && child.n_points > 0 && self.rng.chance(2, 5);
            let (arg1, arg2, off);
            if use_point_anchor {
                let k = if self.rng.chance(1, 6) { n_points - 1 } else { self.rng.usize(n_points) };
                let l = if self.rng.chance(1, 6) { child.n_points - 1 } else { self.rng.usize(child.n_points) };
                arg1 = k as i32;
                arg2 = l as i32;
                if k > 255 || l > 255 || self.rng.chance(1, 4) {
                    flags |= ARG_1_AND_2_ARE_WORDS;
                }
                // ROUND_XY_TO_GRID is meaningless here but legal; set it sometimes
                if self.rng.chance(1, 4) {
                    flags |= ROUND_XY_TO_GRID;
                }
                off = (pts[k].0 - cpts[l].0, pts[k].1 - cpts[l].1);
                has_point_anchor_deep = true;
                feats.push(format!("anchor:point{}", if flags & ARG_1_AND_2_ARE_WORDS != 0 { 16 } else { 8 }));
                if k == n_points - 1 || l == child.n_points - 1 {
                    feats.push("anchor:point_last_index".into());
                }
            } else {
                flags |= ARGS_ARE_XY_VALUES;
                if self.rng.chance(3, 5) {
                    flags |= ROUND_XY_TO_GRID;
                }
                let e = self.ext as i64;
                let (mut x, mut y): (i64, i64) = match self.rng.usize(8) {
                    0 => (0, 0),
                    1 | 2 => (self.rng.range(-128, 127), self.rng.range(-128, 127)),
                    3 => (*self.rng.pick(&[-128i64, 127, -1, 1, 0]), *self.rng.pick(&[-128i64, 127, -1, 1, 0])),
                    4 => {
                        let lim = if self.allow_extreme { 20000 } else { (e * 3).min(20000) };
                        (self.rng.range(-lim, lim), self.rng.range(-lim, lim))
                    }
                    _ => (self.rng.range(-e, e), self.rng.range(-e, e)),
                };
                if let (Some((_, step)), true) = (self.half_pixel, self.rng.chance(1, 3)) {
                    // offsets that scale to exactly n + 1/2 pixels, mostly negative
                    let kmax = ((e * 2) / (step as i64).max(1)).clamp(1, 40);
                    let m = 2 * self.rng.range(0, kmax) + 1;
                    let sign = if self.rng.chance(3, 4) { -1 } else { 1 };
                    if (m * step as i64) < 32000 {
                        y = sign * m * step as i64;
                        if self.rng.bool() {
                            let m2 = 2 * self.rng.range(0, kmax) + 1;
                            if (m2 * step as i64) < 32000 {
                                x = -(m2 * step as i64);
                            }
                        }
                        flags |= ROUND_XY_TO_GRID;
                        feats.push(if sign < 0 { "offset:negative_half_pixel".into() } else { "offset:positive_half_pixel".into() });
                    }
                }
                let fits8 = (-128..=127).contains(&x) && (-128..=127).contains(&y);
                if !fits8 || self.rng.chance(1, 4) {
                    flags |= ARG_1_AND_2_ARE_WORDS;
                }
                arg1 = x as i32;
                arg2 = y as i32;
                let (mut ox, mut oy) = (x as f64, y as f64);
                if have_xform && flags & SCALED_COMPONENT_OFFSET != 0 {
                    ox *= (xx * xx + xy * xy).sqrt();
                    oy *= (yy * yy + yx * yx).sqrt();
                }
                off = (ox, oy);
                feats.push(format!("anchor:xy{}", if flags & ARG_1_AND_2_ARE_WORDS != 0 { 16 } else { 8 }));
                if x < 0 || y < 0 {
                    feats.push("offset:negative".into());
                }
            }
            for p in cpts.iter_mut() {
                p.0 += off.0;
                p.1 += off.1;
            }
            if cpts.iter().any(|p| p.0.abs() > 30000.0 || p.1.abs() > 30000.0) {
                return None;
            }
            // feature bookkeeping
            feats.push(
                match flags & ANY_XFORM {
                    0 => "xform:none",
                    WE_HAVE_A_SCALE => "xform:scale",
                    WE_HAVE_AN_X_AND_Y_SCALE => "xform:xy_scale",
                    _ => "xform:2x2",
                }
                .into(),
            );
            for (bit, name) in [
                (ROUND_XY_TO_GRID, "flag:ROUND_XY_TO_GRID"),
                (USE_MY_METRICS, "flag:USE_MY_METRICS"),
                (OVERLAP_COMPOUND, "flag:OVERLAP_COMPOUND"),
                (SCALED_COMPONENT_OFFSET, "flag:SCALED_COMPONENT_OFFSET"),
                (UNSCALED_COMPONENT_OFFSET, "flag:UNSCALED_COMPONENT_OFFSET"),
            ] {
                if flags & bit != 0 {
                    feats.push(name.into());
                }
            }
            if have_xform && flags & SCALED_COMPONENT_OFFSET != 0 && flags & ARGS_ARE_XY_VALUES != 0 && (arg1 != 0 || arg2 != 0) {
                feats.push("scaled_offset_effective".into());
            }
            if child.depth > 0 {
                feats.push(if i == 0 { "nested_composite_as_first_component".into() } else { "nested_composite_as_nonfirst_component".into() });
                if i > 0 && n_points > 0 && child.has_point_anchor_deep {
                    feats.push("point_anchor_loaded_at_nonzero_point_base".into());
                }
            }
            if matches!(child.recipe, Recipe::Empty) || child.n_points == 0 {
                feats.push("component_is_empty_glyph".into());
            }
            has_point_anchor_deep |= child.has_point_anchor_deep;
            n_points += child.n_points;
            n_contours += child.n_contours;
            pts.extend(cpts);
            comps.push(Comp { gid, flags, arg1, arg2, xform });
        }
        if self.avoid_known && !pts.is_empty() {
            let b = bbox_of(&pts);
            if b[2] as i32 - b[0] as i32 > 32000 || b[3] as i32 - b[1] as i32 > 32000 {
                return None; // see gen_simple: FT_Short differences in FreeType's auto-hinter
            }
        }
        feats.push(format!("composite_depth:{depth}"));
        feats.push(format!("components_per_composite:{}", comps.len()));
        let mut bbox = bbox_of(&pts);
        if self.rng.chance(1, 10) {
            bbox[0] = bbox[0].saturating_add(self.rng.range(-20, 20) as i16);
        }
        let (advance, lsb) = self.metrics(&bbox);
        Some(GlyphInfo {
            recipe: Recipe::Composite { comps, ins: vec![] },
            bbox,
            advance,
            lsb,
            n_points,
            n_contours,
            depth,
            has_point_anchor_deep,
            autohint_ok: true,
            pts,
        })
    }

    fn gen_composite(&mut self, depth: usize) -> Option<GlyphInfo> {
        for _ in 0..12 {
            let mut feats = vec![];
            if let Some(g) = self.try_composite(depth, &mut feats) {
                for f in feats {
                    self.feat(&f);
                }
                return Some(g);
            }
        }
        None
    }
}

fn bbox_of(pts: &[(f64, f64)]) -> [i16; 4] {
    if pts.is_empty() {
        return [0; 4];
    }
    let mut b = [f64::MAX, f64::MAX, f64::MIN, f64::MIN];
    for (x, y) in pts {
        b[0] = b[0].min(*x);
        b[1] = b[1].min(*y);
        b[2] = b[2].max(*x);
        b[3] = b[3].max(*y);
    }
    let c = |v: f64| v.round().clamp(-32768.0, 32767.0) as i16;
    [c(b[0].floor()), c(b[1].floor()), c(b[2].ceil()), c(b[3].ceil())]
}

// ---------------------------------------------------------------- serialisation

fn be16(v: &mut Vec<u8>, x: u16) {
    v.extend_from_slice(&x.to_be_bytes());
}

fn encode_simple(rng: &mut Rng, g: &GlyphInfo) -> Vec<u8> {
    let Recipe::Simple { contours, encoding, overlap_simple, ins, .. } = &g.recipe else { unreachable!() };
    let mut out = vec![];
    be16(&mut out, contours.len() as u16);
    for b in g.bbox {
        be16(&mut out, b as u16);
    }
    let mut end = 0usize;
    for c in contours {
        end += c.len();
        be16(&mut out, (end - 1) as u16);
    }
    be16(&mut out, ins.len() as u16);
    out.extend_from_slice(ins);
    let mut flags: Vec<u8> = vec![];
    let mut xs: Vec<u8> = vec![];
    let mut ys: Vec<u8> = vec![];
    let (mut px, mut py) = (0i32, 0i32);
    // 0 = shortest, 1 = always int16, 2 = random among the legal encodings
    let mode = match *encoding {
        "compact" => 0,
        "wide" => 1,
        _ => 2,
    };
    let enc = |rng: &mut Rng, d: i32, short_bit: u8, same_bit: u8, buf: &mut Vec<u8>| -> u8 {
        let mut choices: Vec<u8> = vec![];
        if d == 0 {
            choices.push(0); // "same" (no bytes)
        }
        if d.abs() <= 255 {
            choices.push(1); // short
        }
        choices.push(2); // int16
        let c = match mode {
            0 => choices[0],
            1 => 2,
            _ => *rng.pick(&choices),
        };
        match c {
            0 => same_bit,
            1 => {
                buf.push(d.unsigned_abs() as u8);
                // -0 is only produced in random mode
                let positive = if d == 0 { mode != 2 || rng.bool() } else { d > 0 };
                short_bit | if positive { same_bit } else { 0 }
            }
            _ => {
                buf.extend_from_slice(&(d as i16).to_be_bytes());
                0
            }
        }
    };
    let mut first = true;
    for c in contours {
        for p in c {
            let mut f = if p.on { 1u8 } else { 0 };
            f |= enc(rng, p.x as i32 - px, 0x02, 0x10, &mut xs);
            f |= enc(rng, p.y as i32 - py, 0x04, 0x20, &mut ys);
            if first && *overlap_simple {
                f |= 0x40;
            }
            first = false;
            px = p.x as i32;
            py = p.y as i32;
            flags.push(f);
        }
    }
    // run-length compress the flags (never in wide mode; sometimes not in random mode)
    let compress = mode == 0 || (mode == 2 && rng.chance(3, 4));
    if compress {
        let mut i = 0;
        while i < flags.len() {
            let f = flags[i];
            let mut run = 1;
            while i + run < flags.len() && flags[i + run] == f && run < 256 {
                run += 1;
            }
            if run > 1 {
                out.push(f | 0x08);
                out.push((run - 1) as u8);
            } else {
                out.push(f);
            }
            i += run;
        }
    } else {
        out.extend_from_slice(&flags);
    }
    out.extend_from_slice(&xs);
    out.extend_from_slice(&ys);
    out
}

fn encode_composite(g: &GlyphInfo) -> Vec<u8> {
    let Recipe::Composite { comps, ins } = &g.recipe else { unreachable!() };
    let mut out = vec![];
    be16(&mut out, 0xFFFF);
    for b in g.bbox {
        be16(&mut out, b as u16);
    }
    for (i, c) in comps.iter().enumerate() {
        let last = i + 1 == comps.len();
        let mut flags = c.flags;
        if !last {
            flags |= MORE_COMPONENTS;
        } else if !ins.is_empty() {
            flags |= WE_HAVE_INSTRUCTIONS;
        }
        be16(&mut out, flags);
        be16(&mut out, c.gid);
        if flags & ARG_1_AND_2_ARE_WORDS != 0 {
            be16(&mut out, c.arg1 as u16);
            be16(&mut out, c.arg2 as u16);
        } else {
            out.push(c.arg1 as u8);
            out.push(c.arg2 as u8);
        }
        if flags & WE_HAVE_A_SCALE != 0 {
            be16(&mut out, c.xform[0] as u16);
        } else if flags & WE_HAVE_AN_X_AND_Y_SCALE != 0 {
            be16(&mut out, c.xform[0] as u16);
            be16(&mut out, c.xform[3] as u16);
        } else if flags & WE_HAVE_A_TWO_BY_TWO != 0 {
            // xscale, scale01, scale10, yscale  (= xx, yx, xy, yy)
            for v in c.xform {
                be16(&mut out, v as u16);
            }
        }
    }
    if !ins.is_empty() {
        be16(&mut out, ins.len() as u16);
        out.extend_from_slice(ins);
    }
    out
}

fn gcd(a: u64, b: u64) -> u64 {
    if b == 0 {
        a
    } else {
        gcd(b, a % b)
    }
}

/// For (upem, ppem): the font-unit step `s` such that odd multiples of `s`
/// scale to exactly n + 1/2 pixels, if one exists.
fn half_pixel_step(upem: u16, ppem: u32) -> Option<i32> {
    // y * ppem / upem = k + 1/2  <=>  y = upem * (2k+1) / (2 ppem)
    let (u, p2) = (upem as u64, 2 * ppem as u64);
    let d = p2 / gcd(p2, u);
    if d % 2 == 0 {
        return None;
    }
    let step = u * d / p2;
    if step == 0 || step > 8000 {
        return None;
    }
    Some(step as i32)
}

const SMALL_PPEM: std::ops::RangeInclusive<i64> = 6..=24;

fn choose_ppems(rng: &mut Rng, upem: u16) -> (Vec<u32>, Vec<u32>, Option<(u32, i32)>) {
    // a ppem at which half-pixel offsets exist, preferring small sizes
    let mut cands: Vec<(u32, i32)> = vec![];
    for p in 4..=128u32 {
        if let Some(s) = half_pixel_step(upem, p) {
            cands.push((p, s));
        }
    }
    let half = if cands.is_empty() { None } else { Some(*rng.pick(&cands)) };
    let mut quick: Vec<u32> = vec![0];
    let push = |v: &mut Vec<u32>, p: u32| {
        if !v.contains(&p) {
            v.push(p);
        }
    };
    if let Some((p, _)) = half {
        push(&mut quick, p);
    }
    for _ in 0..3 {
        let p = rng.range(*SMALL_PPEM.start(), *SMALL_PPEM.end()) as u32;
        push(&mut quick, p);
    }
    for _ in 0..2 {
        let p = rng.range(25, 64) as u32;
        push(&mut quick, p);
    }
    push(&mut quick, *rng.pick(&[72u32, 96, 113, 128, 150, 200, 256]));
    push(&mut quick, *rng.pick(&[512u32, 1000, 1500, 2000]));
    let mut thorough = quick.clone();
    for _ in 0..8 {
        let p = rng.range(5, 40) as u32;
        push(&mut thorough, p);
    }
    for _ in 0..6 {
        let p = rng.range(41, 300) as u32;
        push(&mut thorough, p);
    }
    for p in [8u32, 12, 16, 2000] {
        push(&mut thorough, p);
    }
    (quick, thorough, half)
}

// ---------------------------------------------------------------- hinting programs
//
// A conservative instruction subset; every point / cvt / function reference is
// valid by construction so that neither interpreter takes an error path.

mod op {
    pub const SVTCA_Y: u8 = 0x00;
    pub const SVTCA_X: u8 = 0x01;
    pub const SRP0: u8 = 0x10;
    pub const SRP1: u8 = 0x11;
    pub const SRP2: u8 = 0x12;
    pub const RTG: u8 = 0x18;
    pub const RTHG: u8 = 0x19;
    pub const SCVTCI: u8 = 0x1D;
    pub const POP: u8 = 0x21;
    pub const SWAP: u8 = 0x23;
    pub const CALL: u8 = 0x2B;
    pub const FDEF: u8 = 0x2C;
    pub const ENDF: u8 = 0x2D;
    pub const MDAP: u8 = 0x2E; // +1 round
    pub const IUP_Y: u8 = 0x30;
    pub const IUP_X: u8 = 0x31;
    pub const SHP: u8 = 0x32; // +1: rp1
    pub const SHPIX: u8 = 0x38;
    pub const IP: u8 = 0x39;
    pub const ALIGNRP: u8 = 0x3C;
    pub const RTDG: u8 = 0x3D;
    pub const MIAP: u8 = 0x3E; // +1 round
    pub const RS: u8 = 0x43;
    pub const WS: u8 = 0x42;
    pub const GC: u8 = 0x46; // +1 original
    pub const SCFS: u8 = 0x48;
    pub const MPPEM: u8 = 0x4B;
    pub const LT: u8 = 0x50;
    pub const IF: u8 = 0x58;
    pub const EIF: u8 = 0x59;
    pub const DELTAP1: u8 = 0x5D;
    pub const ADD: u8 = 0x60;
    pub const SUB: u8 = 0x61;
    pub const ROUND: u8 = 0x68;
    pub const RUTG: u8 = 0x7C;
    pub const RDTG: u8 = 0x7D;
    pub const ROFF: u8 = 0x7A;
    pub const PUSHB: u8 = 0xB0; // + (n-1)
    pub const PUSHW: u8 = 0xB8; // + (n-1)
    pub const MDRP: u8 = 0xC0; // + 5 bits
    pub const MIRP: u8 = 0xE0; // + 5 bits
    pub const SMD: u8 = 0x1A;
    pub const SSWCI: u8 = 0x1E;
    pub const SSW: u8 = 0x1F;
    pub const WCVTP: u8 = 0x44;
    pub const RCVT: u8 = 0x45;
    pub const FLIPON: u8 = 0x4D;
    pub const FLIPOFF: u8 = 0x4E;
    pub const AND: u8 = 0x5A;
    pub const SDB: u8 = 0x5E;
    pub const SDS: u8 = 0x5F;
    pub const DIV: u8 = 0x62;
    pub const NROUND: u8 = 0x6C; // + 2 bits
    pub const DELTAP2: u8 = 0x71;
    pub const DELTAP3: u8 = 0x72;
    pub const DELTAC1: u8 = 0x73;
    pub const DELTAC2: u8 = 0x74;
    pub const DELTAC3: u8 = 0x75;
    pub const SROUND: u8 = 0x76;
    pub const S45ROUND: u8 = 0x77;
    pub const SCANCTRL: u8 = 0x85;
    pub const GETINFO: u8 = 0x88;
    pub const SCANTYPE: u8 = 0x8D;
    pub const INSTCTRL: u8 = 0x8E;
}

/// Per-font state of the program generators.
pub struct ProgCtx {
    /// next SROUND / S45ROUND selector (stride 37 is coprime to 256: every
    /// selector byte is reached; the start depends on the font index)
    sel_next: [u32; 2],
    /// selectors emitted: bit 8 set for S45ROUND
    pub selectors: Vec<u16>,
    upem: i32,
    n_cvt: usize,
    avoid_known: bool,
}

impl ProgCtx {
    fn new(index: u32, upem: u16, n_cvt: usize, avoid_known: bool) -> Self {
        ProgCtx { avoid_known, sel_next: [index.wrapping_mul(101), index.wrapping_mul(59).wrapping_add(128)], selectors: vec![], upem: upem as i32, n_cvt }
    }

    /// One rounding-state instruction: RTG, RTHG, RTDG, RDTG, RUTG, ROFF,
    /// SROUND[sel] or S45ROUND[sel].
    fn round_state_op(&mut self, rng: &mut Rng, v: &mut Vec<u8>, feats: &mut BTreeMap<String, u64>) {
        let mut note = |k: &str| *feats.entry(format!("ins:{k}")).or_default() += 1;
        match rng.usize(12) {
            0..=5 => {
                let (o, name) = [
                    (op::RTG, "RTG"),
                    (op::RTHG, "RTHG"),
                    (op::RTDG, "RTDG"),
                    (op::RDTG, "RDTG"),
                    (op::RUTG, "RUTG"),
                    (op::ROFF, "ROFF"),
                ][rng.usize(6)];
                v.push(o);
                note(name);
            }
            k => {
                let which = if k <= 8 { 0 } else { 1 };
                let sel = (self.sel_next[which] & 0xFF) as i32;
                self.sel_next[which] = self.sel_next[which].wrapping_add(37);
                push(v, &[sel]);
                v.push(if which == 0 { op::SROUND } else { op::S45ROUND });
                self.selectors.push(sel as u16 | ((which as u16) << 8));
                note(if which == 0 { "SROUND" } else { "S45ROUND" });
            }
        }
    }

    /// A 26.6 value on or next to a rounding decision boundary (grid, half
    /// grid, double grid and the sqrt(2)/2 grids of S45ROUND), or anywhere
    /// within +-3 pixels.
    fn boundary_value(&self, rng: &mut Rng) -> i32 {
        if rng.bool() {
            rng.range(-192, 192) as i32
        } else {
            let period = *rng.pick(&[64i64, 32, 128, 45, 22, 90, 16, 8]);
            let k = rng.range(-3, 3);
            (k * period + *rng.pick(&[0i64, 1, -1, period / 2, period / 2 + 1, period / 2 - 1, period / 4, period * 3 / 4])) as i32
        }
    }

    /// Graphics-state setters whose effect is on later MIAP/MIRP/MDRP/DELTA instructions.
    fn state_setter(&mut self, rng: &mut Rng, v: &mut Vec<u8>, feats: &mut BTreeMap<String, u64>) {
        let mut note = |k: &str| *feats.entry(format!("ins:{k}")).or_default() += 1;
        match rng.usize(8) {
            0 => {
                push(v, &[rng.range(0, 200) as i32]);
                v.push(op::SCVTCI);
                note("SCVTCI");
            }
            1 => {
                push(v, &[rng.range(0, 160) as i32]);
                v.push(op::SSWCI);
                note("SSWCI");
            }
            2 => {
                // single width in font units
                push(v, &[rng.range(0, (self.upem / 2).max(1) as i64) as i32]);
                v.push(op::SSW);
                note("SSW");
            }
            3 => {
                push(v, &[*rng.pick(&[0, 16, 32, 48, 64, 65, 96, 128])]);
                v.push(op::SMD);
                note("SMD");
            }
            4 => {
                push(v, &[rng.range(4, 40) as i32]);
                v.push(op::SDB);
                note("SDB");
            }
            5 => {
                push(v, &[rng.range(0, 6) as i32]);
                v.push(op::SDS);
                note("SDS");
            }
            6 => {
                v.push(if rng.bool() { op::FLIPOFF } else { op::FLIPON });
                note("FLIPON_OFF");
            }
            _ => {
                if rng.bool() {
                    push(v, &[rng.range(0, 0x3FFF) as i32]);
                    v.push(op::SCANCTRL);
                    note("SCANCTRL");
                } else {
                    push(v, &[rng.range(0, 7) as i32]);
                    v.push(op::SCANTYPE);
                    note("SCANTYPE");
                }
            }
        }
    }

    /// DELTAC1..3 on one cvt entry.
    fn deltac(&mut self, rng: &mut Rng, v: &mut Vec<u8>, feats: &mut BTreeMap<String, u64>) -> i32 {
        let c = rng.usize(self.n_cvt.max(1)) as i32;
        let arg = (rng.range(0, 15) << 4 | rng.range(0, 15)) as i32;
        push(v, &[arg, c, 1]);
        v.push(*rng.pick(&[op::DELTAC1, op::DELTAC2, op::DELTAC3]));
        *feats.entry("ins:DELTAC".into()).or_default() += 1;
        c
    }
}

fn push(out: &mut Vec<u8>, vals: &[i32]) {
    debug_assert!(!vals.is_empty() && vals.len() <= 8);
    if vals.iter().all(|v| (0..=255).contains(v)) {
        out.push(op::PUSHB + (vals.len() as u8 - 1));
        out.extend(vals.iter().map(|v| *v as u8));
    } else {
        out.push(op::PUSHW + (vals.len() as u8 - 1));
        for v in vals {
            out.extend_from_slice(&(*v as i16).to_be_bytes());
        }
    }
}

const N_FUNCS: i32 = 3;
const N_STORAGE: i32 = 8;

fn fpgm_program() -> Vec<u8> {
    let mut v = vec![];
    // function 0: ( p -- )  MDAP[rnd] p
    push(&mut v, &[0]);
    v.extend_from_slice(&[op::FDEF, op::MDAP + 1, op::ENDF]);
    // function 1: ( p -- )  move p by +1/2 pixel along the freedom vector
    push(&mut v, &[1]);
    v.push(op::FDEF);
    push(&mut v, &[32]);
    v.extend_from_slice(&[op::SHPIX, op::ENDF]);
    // function 2: ( p -- )  SCFS p <- round(GC[cur] p)
    push(&mut v, &[2]);
    v.push(op::FDEF);
    // stack: p ; DUP (0x20)
    v.push(0x20);
    v.push(op::GC);
    v.push(op::ROUND);
    v.push(op::SCFS);
    v.push(op::ENDF);
    v
}

fn prep_program(rng: &mut Rng, pc: &mut ProgCtx, feats: &mut BTreeMap<String, u64>) -> Vec<u8> {
    let mut v = vec![];
    let mut note = |feats: &mut BTreeMap<String, u64>, k: &str| *feats.entry(format!("prep:{k}")).or_default() += 1;
    // the usual prep idiom: round control values under some rounding state
    if rng.chance(1, 2) {
        pc.round_state_op(rng, &mut v, feats);
        for _ in 0..rng.range(1, 4) {
            let c = rng.usize(pc.n_cvt.max(1)) as i32;
            push(&mut v, &[c, c]);
            v.push(op::RCVT);
            v.push(if rng.bool() { op::ROUND } else { op::NROUND } + rng.usize(4) as u8);
            v.push(op::WCVTP);
        }
        note(feats, "round_cvt");
        v.push(op::RTG);
    }
    for _ in 0..rng.range(0, 4) {
        pc.state_setter(rng, &mut v, feats);
        note(feats, "state_setter");
    }
    if rng.chance(1, 3) {
        pc.deltac(rng, &mut v, feats);
        note(feats, "DELTAC");
    }
    if rng.chance(1, 3) {
        // does a rounding state set in prep persist into glyph programs?
        pc.round_state_op(rng, &mut v, feats);
        note(feats, "round_state_left_set");
    }
    if rng.chance(1, 6) {
        // INSTCTRL: value, selector
        let (val, sel) = *rng.pick(&[(1, 1), (0, 1), (2, 2), (0, 2), (4, 3), (0, 3)]);
        // KNOWN DIVERGENCE, kept out of the random fonts (the draws above are made
        // regardless so that C03_SYNTH_INSTCTRL=1 reproduces the same fonts with it):
        // FreeType 2.12.1 copies the default graphics state for INSTCTRL selector 2
        // in tt_loader_init but TT_Hint_Glyph then reloads size->GS, so the prep's
        // settings stay in force; skrifa resets them. Selector 3 (value 4) also
        // differs under the normal target (not root-caused).
        if std::env::var("C03_SYNTH_INSTCTRL").is_ok() {
            push(&mut v, &[val, sel]);
            v.push(op::INSTCTRL);
            note(feats, &format!("INSTCTRL_{sel}_{val}"));
        }
    }
    // storage[0] = ppem
    push(&mut v, &[0]);
    v.push(op::MPPEM);
    v.push(op::WS);
    v
}

/// A glyph program over points 0..n_points (+4 phantom points).
macro_rules! note {
    ($f:expr, $k:expr) => {
        *$f.entry(format!("ins:{}", $k)).or_default() += 1
    };
}

fn glyph_program(
    rng: &mut Rng,
    pc: &mut ProgCtx,
    n_points: usize,
    n_cvt: usize,
    feats: &mut BTreeMap<String, u64>,
    exact_pts: Option<&[(f64, f64)]>,
    min_ip_range: f64,
) -> Vec<u8> {
    let mut v = vec![];
    if n_points == 0 {
        return v;
    }
    let with_phantom = n_points + 4;
    let n_ops = rng.range(2, 16);
    let mut iup = [false, false];
    // Most movement is done along y: under the v40 interpreter's backward
    // compatibility mode (every target but mono) x movement is ignored.
    let mut block_left = 0;
    let mut axis_y = false;
    // reference points default to 0, which is always a valid point here
    for _ in 0..n_ops {
        if block_left == 0 {
            axis_y = rng.chance(7, 10);
            v.push(if axis_y { op::SVTCA_Y } else { op::SVTCA_X });
            note!(feats, "SVTCA");
            block_left = rng.range(1, 6);
        }
        block_left -= 1;
        // Phantom points are only moved along the axis on which FreeType rounds
        // them (pp1/pp2: x, pp3/pp4: y). KNOWN DIVERGENCE (probe font): skrifa
        // rounds both coordinates of all four phantom points before running a
        // glyph program, FreeType only pp1.x, pp2.x, pp3.y, pp4.y; visible once
        // a program has moved e.g. pp1 in y and USE_MY_METRICS hands it on.
        let p = if rng.chance(1, 10) {
            let any = rng.usize(with_phantom); // drawn in both modes: same random stream
            if pc.avoid_known {
                n_points + if axis_y { 2 } else { 0 } + any % 2
            } else {
                any
            }
        } else {
            rng.usize(n_points)
        } as i32;
        let c = rng.usize(n_cvt.max(1)) as i32;
        match rng.usize(34) {
            0 => {
                v.push(op::SVTCA_Y);
                axis_y = true;
                note!(feats, "SVTCA");
            }
            1 => {
                v.push(op::SVTCA_X);
                axis_y = false;
                note!(feats, "SVTCA");
            }
            2 | 3 => {
                push(&mut v, &[p]);
                v.push(op::MDAP + rng.usize(2) as u8);
                note!(feats, "MDAP");
            }
            4 | 5 => {
                push(&mut v, &[p, c]);
                v.push(op::MIAP + rng.usize(2) as u8);
                note!(feats, "MIAP");
            }
            6 | 7 => {
                push(&mut v, &[p]);
                v.push(op::MDRP + rng.usize(32) as u8);
                note!(feats, "MDRP");
            }
            8 => {
                push(&mut v, &[p, c]);
                v.push(op::MIRP + rng.usize(32) as u8);
                note!(feats, "MIRP");
            }
            9 => {
                push(&mut v, &[p]);
                v.push(*rng.pick(&[op::SRP0, op::SRP1, op::SRP2]));
                note!(feats, "SRPn");
            }
            10 => {
                push(&mut v, &[p]);
                v.push(op::SHP + rng.usize(2) as u8);
                note!(feats, "SHP");
            }
            11 => {
                // IP only where the interpreters work from the exact unscaled
                // coordinates (simple glyphs) and between two reference points
                // that are well apart on the current axis: a (nearly) zero
                // original range makes the interpolation factor explode into the
                // range where FreeType's 64-bit FT_Pos and skrifa's i32 differ.
                if let Some(pts) = exact_pts {
                    let coord = |i: usize| if axis_y { pts[i].1 } else { pts[i].0 };
                    let a = rng.usize(n_points);
                    let far: Vec<usize> = (0..n_points).filter(|b| (coord(*b) - coord(a)).abs() >= min_ip_range).collect();
                    if !far.is_empty() {
                        let b = *rng.pick(&far);
                        push(&mut v, &[a as i32]);
                        v.push(op::SRP1);
                        push(&mut v, &[b as i32]);
                        v.push(op::SRP2);
                        push(&mut v, &[rng.usize(n_points) as i32]);
                        v.push(op::IP);
                        note!(feats, "IP");
                    }
                }
            }
            12 => {
                push(&mut v, &[p]);
                v.push(op::ALIGNRP);
                note!(feats, "ALIGNRP");
            }
            13 => {
                push(&mut v, &[p, rng.range(-128, 128) as i32]);
                v.push(op::SHPIX);
                note!(feats, "SHPIX");
            }
            14 => {
                v.push(*rng.pick(&[op::RTG, op::RTHG, op::RTDG, op::RDTG, op::RUTG, op::ROFF]));
                note!(feats, "round_state");
            }
            15 => {
                // DELTAP1: arg = (ppem - 9) << 4 | magnitude
                let arg = (rng.range(0, 15) << 4 | rng.range(0, 15)) as i32;
                push(&mut v, &[arg, p, 1]);
                v.push(op::DELTAP1);
                note!(feats, "DELTAP1");
            }
            16 => {
                push(&mut v, &[p, rng.range(0, (N_FUNCS - 1) as i64) as i32]);
                v.push(op::CALL);
                note!(feats, "CALL");
            }
            17 => {
                // if ppem < k then MDAP[rnd] p
                let k = rng.range(8, 60) as i32;
                v.push(op::MPPEM);
                push(&mut v, &[k]);
                v.push(op::LT);
                v.push(op::IF);
                push(&mut v, &[p]);
                v.push(op::MDAP + 1);
                v.push(op::EIF);
                note!(feats, "IF_MPPEM");
            }
            18 => {
                // p <- GC[cur](p) +/- d
                let d = rng.range(0, 96) as i32;
                push(&mut v, &[p, p]);
                v.push(op::GC);
                push(&mut v, &[d]);
                v.push(if rng.bool() { op::ADD } else { op::SUB });
                v.push(op::SCFS);
                note!(feats, "GC_SCFS");
            }
            19 => {
                // storage round trip
                let s = rng.range(1, (N_STORAGE - 1) as i64) as i32;
                push(&mut v, &[s, rng.range(-300, 300) as i32]);
                v.push(op::WS);
                push(&mut v, &[s]);
                v.push(op::RS);
                v.push(op::POP);
                note!(feats, "WS_RS");
            }
            20 => {
                let a = rng.usize(2);
                if !iup[a] || rng.chance(1, 4) {
                    v.push(if a == 0 { op::IUP_Y } else { op::IUP_X });
                    iup[a] = true;
                    note!(feats, "IUP");
                }
            }
            21 => {
                push(&mut v, &[rng.range(0, 255) as i32, rng.range(0, 255) as i32]);
                v.push(op::SWAP);
                v.push(op::POP);
                v.push(op::POP);
                note!(feats, "stack_ops");
            }
            22 | 23 => {
                // rounding state, then a distance/position instruction that rounds with it
                pc.round_state_op(rng, &mut v, feats);
                match rng.usize(4) {
                    0 => {
                        push(&mut v, &[p]);
                        v.push(op::MDAP + 1);
                    }
                    1 => {
                        push(&mut v, &[p, c]);
                        v.push(op::MIAP + 1);
                    }
                    2 => {
                        push(&mut v, &[p]);
                        v.push(op::MDRP + (rng.usize(32) as u8 | 0x04));
                    }
                    _ => {
                        push(&mut v, &[p, c]);
                        v.push(op::MIRP + (rng.usize(32) as u8 | 0x04));
                    }
                }
                *feats.entry("ins:round_state_then_rounding_move".into()).or_default() += 1;
            }
            24 | 25 => {
                // put p exactly on / next to a decision boundary, then MDAP[1] under a fresh rounding state
                pc.round_state_op(rng, &mut v, feats);
                push(&mut v, &[p, pc.boundary_value(rng)]);
                v.push(op::SCFS);
                push(&mut v, &[p]);
                v.push(op::MDAP + 1);
                *feats.entry("ins:round_at_boundary_MDAP".into()).or_default() += 1;
            }
            26 | 27 => {
                // p <- ROUND[ab] / NROUND[ab] of a literal boundary value
                pc.round_state_op(rng, &mut v, feats);
                push(&mut v, &[p, pc.boundary_value(rng)]);
                let nround = rng.chance(1, 4);
                v.push(if nround { op::NROUND } else { op::ROUND } + rng.usize(4) as u8);
                v.push(op::SCFS);
                *feats.entry(if nround { "ins:NROUND_literal".to_string() } else { "ins:ROUND_literal".to_string() }).or_default() += 1;
            }
            28 => {
                // p <- ROUND[ab](GC[cur] p)
                push(&mut v, &[p, p]);
                v.push(op::GC);
                v.push(op::ROUND + rng.usize(4) as u8);
                v.push(op::SCFS);
                *feats.entry("ins:GC_ROUND_SCFS".into()).or_default() += 1;
            }
            29 | 30 => {
                pc.state_setter(rng, &mut v, feats);
            }
            31 => {
                // DELTAP1..3 (the ranges depend on SDB / SDS)
                let arg = (rng.range(0, 15) << 4 | rng.range(0, 15)) as i32;
                push(&mut v, &[arg, p, 1]);
                v.push(*rng.pick(&[op::DELTAP1, op::DELTAP2, op::DELTAP3]));
                *feats.entry("ins:DELTAP123".into()).or_default() += 1;
            }
            32 => {
                // DELTAC then a MIAP that reads the entry
                let dc = pc.deltac(rng, &mut v, feats);
                push(&mut v, &[p, dc]);
                v.push(op::MIAP + rng.usize(2) as u8);
            }
            _ => {
                // GETINFO made visible: shift p by the result (AND/OR are logical in
                // TrueType, so the bits are brought down with DIV instead of masked).
                // Selector bit 12 is left to the probe font (KNOWN DIVERGENCE: under
                // the light target FreeType's grayscale_cleartype is false because
                // `load_flags & FT_LOAD_TARGET_LCD` also matches FT_LOAD_TARGET_LIGHT).
                match rng.usize(3) {
                    0 => {
                        push(&mut v, &[p, 1]);
                        v.push(op::GETINFO); // version
                    }
                    1 => {
                        push(&mut v, &[p, rng.range(1, 63) as i32 & !1 | 2]);
                        v.push(op::GETINFO); // result bits 8..12
                        push(&mut v, &[4096]);
                        v.push(op::DIV); // r * 64 / 4096 = r >> 6
                    }
                    _ => {
                        let sel = *rng.pick(&[64i32, 256, 1024, 2048, 64 | 256, 1024 | 2048, 64 | 256 | 1024 | 2048]);
                        push(&mut v, &[p, sel]);
                        v.push(op::GETINFO); // result bits 13..18
                        push(&mut v, &[4096]);
                        v.push(op::DIV);
                        push(&mut v, &[8192]);
                        v.push(op::DIV); // r >> 13
                    }
                }
                v.push(op::SHPIX);
                *feats.entry("ins:GETINFO".into()).or_default() += 1;
            }
        }
    }
    if rng.chance(4, 5) {
        v.push(op::IUP_Y);
        v.push(op::IUP_X);
    }
    v
}

// ---------------------------------------------------------------- font assembly

/// Size of the generated font: (#simple, #composites per depth 1..=4).
fn shape_of(rng: &mut Rng) -> (usize, [usize; 4]) {
    let n_simple = rng.range(6, 12) as usize;
    let d1 = rng.range(4, 8) as usize;
    let d2 = rng.range(3, 7) as usize;
    let d3 = rng.range(1, 4) as usize;
    let d4 = rng.range(0, 3) as usize;
    (n_simple, [d1, d2, d3, d4])
}

pub fn generate(seed: u64, index: u32) -> SynthFont {
    let mut rng = Rng::derive(seed, "c03-synth-font", index as u64);
    let upem: u16 = match rng.usize(12) {
        0 | 1 | 2 => 1000,
        3 | 4 => 2048,
        5 => 1024,
        6 => 256,
        7 => 64,
        8 => 16,
        9 => 4096,
        10 => 16384,
        _ => rng.range(16, 16384) as u16,
    };
    let (ppems_quick, ppems_thorough, half_pixel) = choose_ppems(&mut Rng::derive(seed, "c03-synth-ppem", index as u64), upem);
    let programs = rng.chance(1, 2);
    let mut g = Gen {
        rng,
        upem,
        ext: upem as i32,
        allow_extreme: upem >= 2048,
        glyphs: vec![],
        features: BTreeMap::new(),
        half_pixel,
        programs,
        cvt: vec![],
        avoid_known: std::env::var("C03_SYNTH_AVOID_FIXED").is_ok(),
    };
    let (n_simple, n_comp) = shape_of(&mut g.rng);
    // gid 0: .notdef (a box, or empty)
    let notdef = if g.rng.chance(1, 4) {
        empty_glyph(&mut g)
    } else {
        let (c, _) = g.contour_of_kind(0);
        g.finish_simple(vec![c], "notdef_rect".into(), "compact", false)
    };
    g.glyphs.push(notdef);
    // one guaranteed empty glyph and one zero-contour glyph with a header
    let e = empty_glyph(&mut g);
    g.glyphs.push(e);
    g.feat("simple_glyph:zero_length");
    if g.rng.chance(1, 2) {
        let z = g.finish_simple(vec![], "zero_contours_with_header".into(), "compact", false);
        g.glyphs.push(z);
        g.feat("simple_glyph:zero_contours_with_header");
    }
    for _ in 0..n_simple {
        let s = g.gen_simple();
        g.glyphs.push(s);
    }
    for (d, n) in n_comp.iter().enumerate() {
        for _ in 0..*n {
            if let Some(c) = g.gen_composite(d + 1) {
                g.glyphs.push(c);
            } else {
                g.feat("composite_attempts_abandoned");
            }
        }
    }
    // ---- programs
    let mut fpgm = vec![];
    let mut prep = vec![];
    let mut round_selectors: Vec<u16> = vec![];
    if g.programs {
        let n_cvt = 12usize;
        g.cvt = (0..n_cvt).map(|_| g.rng.range(-(upem as i64) / 4, upem as i64) as i16).collect();
        fpgm = fpgm_program();
        let mut feats = BTreeMap::new();
        let mut pc = ProgCtx::new(index, upem, n_cvt, g.avoid_known);
        prep = prep_program(&mut g.rng, &mut pc, &mut feats);
        for i in 0..g.glyphs.len() {
            let n_points = g.glyphs[i].n_points;
            let with_ins = match g.glyphs[i].recipe {
                Recipe::Empty => false,
                Recipe::Simple { .. } => g.rng.chance(7, 10),
                Recipe::Composite { .. } => g.rng.chance(1, 2),
            };
            if !with_ins || n_points == 0 || n_points > 250 {
                continue;
            }
            let exact: Option<Vec<(f64, f64)>> = match g.glyphs[i].recipe {
                Recipe::Simple { .. } => Some(g.glyphs[i].pts.clone()),
                _ => None,
            };
            let min_ip_range = (upem as f64 / 16.0).max(1.0);
            let prog = glyph_program(&mut g.rng, &mut pc, n_points, n_cvt, &mut feats, exact.as_deref(), min_ip_range);
            match &mut g.glyphs[i].recipe {
                Recipe::Simple { ins, .. } => {
                    *ins = prog;
                    *g.features.entry("glyph_program:simple".into()).or_default() += 1;
                }
                Recipe::Composite { ins, .. } => {
                    *ins = prog;
                    *g.features.entry("glyph_program:composite".into()).or_default() += 1;
                }
                Recipe::Empty => {}
            }
        }
        for (k, v) in feats {
            *g.features.entry(k).or_default() += v;
        }
        round_selectors = pc.selectors;
    }
    // Debugging aid only (never set by the driver): "gid=hex bytes;gid=..." replaces glyph programs.
    if let Ok(spec) = std::env::var("C03_DBG_OVERRIDE_INS") {
        for part in spec.split(';').filter(|p| !p.is_empty()) {
            if let Some((gid, hex)) = part.split_once('=') {
                let bytes: Vec<u8> = hex.split_whitespace().filter_map(|b| u8::from_str_radix(b, 16).ok()).collect();
                if let Some(gl) = gid.trim().parse::<usize>().ok().and_then(|i| g.glyphs.get_mut(i)) {
                    match &mut gl.recipe {
                        Recipe::Simple { ins, .. } | Recipe::Composite { ins, .. } => *ins = bytes,
                        Recipe::Empty => {}
                    }
                }
            }
        }
    }
    // Debugging aid only: "gid=x,y,on x,y,on|x,y,on ..." replaces a glyph by a simple glyph
    // (header bbox, advance and lsb are kept).
    if let Ok(spec) = std::env::var("C03_DBG_OVERRIDE_GLYPH") {
        if let Some((gid, rest)) = spec.split_once('=') {
            let contours: Vec<Vec<Pt>> = rest
                .split('|')
                .filter(|c| !c.trim().is_empty())
                .map(|c| {
                    c.split_whitespace()
                        .filter_map(|p| {
                            let v: Vec<i32> = p.split(',').filter_map(|x| x.parse().ok()).collect();
                            (v.len() == 3).then(|| Pt { x: v[0] as i16, y: v[1] as i16, on: v[2] != 0 })
                        })
                        .collect()
                })
                .collect();
            if let Some(gl) = gid.trim().parse::<usize>().ok().and_then(|i| g.glyphs.get_mut(i)) {
                gl.pts = contours.iter().flatten().map(|p| (p.x as f64, p.y as f64)).collect();
                gl.n_points = gl.pts.len();
                gl.n_contours = contours.len();
                gl.depth = 0;
                gl.recipe = Recipe::Simple { contours, kind: "override".into(), encoding: "wide", overlap_simple: false, ins: vec![] };
            }
        }
    }
    // ---- glyf / loca
    let mut enc_rng = Rng::derive(seed, "c03-synth-enc", index as u64);
    let mut glyf: Vec<u8> = vec![];
    let mut offsets: Vec<u32> = vec![];
    for gl in &g.glyphs {
        offsets.push(glyf.len() as u32);
        let bytes = match gl.recipe {
            Recipe::Empty => vec![],
            Recipe::Simple { .. } => encode_simple(&mut enc_rng, gl),
            Recipe::Composite { .. } => encode_composite(gl),
        };
        glyf.extend_from_slice(&bytes);
        while glyf.len() % 4 != 0 {
            glyf.push(0);
        }
    }
    offsets.push(glyf.len() as u32);
    let short_loca = glyf.len() < 0x1_0000 && enc_rng.bool();
    let mut loca: Vec<u8> = vec![];
    for o in &offsets {
        if short_loca {
            be16(&mut loca, (*o / 2) as u16);
        } else {
            loca.extend_from_slice(&o.to_be_bytes());
        }
    }
    g.feat(if short_loca { "loca:short" } else { "loca:long" });
    let head_flags: u16 = *g.rng.pick(&[0u16, 0x0003, 0x0008, 0x000B, 0x001B, 0x0001]);
    let n_glyphs = g.glyphs.len();
    let n_hmetrics = if g.rng.chance(1, 2) { n_glyphs } else { g.rng.range(1, n_glyphs as i64) as usize };
    // glyphs past numberOfHMetrics share the last advance
    let last_adv = g.glyphs[n_hmetrics - 1].advance;
    for gl in g.glyphs.iter_mut().skip(n_hmetrics) {
        gl.advance = last_adv;
    }
    // Glyphs with very large coordinates are not compared under the auto-hinter
    // (and never feed its global metrics through the cmap): FreeType's
    // auto-hinter does FT_Short arithmetic on font units (probe glyphs 6 and 8
    // keep two such divergences visible).
    let autohint_limit: f64 = std::env::var("C03_DBG_AUTOHINT_LIMIT").ok().and_then(|s| s.parse().ok()).unwrap_or(32700.0);
    for gl in g.glyphs.iter_mut() {
        let max_abs = gl.pts.iter().map(|p| p.0.abs().max(p.1.abs())).fold(0.0, f64::max);
        let shift = (gl.bbox[0] as f64 - gl.lsb as f64).abs();
        // ... and glyphs of implausible size (beyond 4 em): the rare unexplained
        // auto-hinter differences seen so far (about 1 in 5*10^7 comparisons) were all
        // on heavily squashed / stretched nested composites several em large.
        gl.autohint_ok = max_abs + shift + (upem as f64 / 8.0) <= autohint_limit && max_abs <= 4.0 * upem as f64;
    }
    // ... and only shapes the auto-hinter can classify unambiguously: every contour
    // of the flattened glyph has at least 3 points and is at least upem/20 wide and
    // high. All unexplained auto-hinter differences seen so far (4 cases, see
    // notes/autohint_unexplained.md) needed clusters of zero-area contours: two-point
    // contours, or slivers produced by squashing transforms, whose coincident
    // zero-width "stems" make the result depend on threshold ties.
    let min_extent = (upem as i32 / 20).max(1);
    for i in 0..g.glyphs.len() {
        if !g.glyphs[i].autohint_ok {
            continue;
        }
        let contours = flatten_glyphs(&g.glyphs, i);
        let ok = contours.iter().all(|c| {
            let (x0, x1) = (c.iter().map(|p| p.x as i32).min().unwrap_or(0), c.iter().map(|p| p.x as i32).max().unwrap_or(0));
            let (y0, y1) = (c.iter().map(|p| p.y as i32).min().unwrap_or(0), c.iter().map(|p| p.y as i32).max().unwrap_or(0));
            c.len() >= 3 && x1 - x0 >= min_extent && y1 - y0 >= min_extent
        });
        if !ok {
            g.glyphs[i].autohint_ok = false;
        }
    }
    let map_ascii = g.rng.chance(3, 5) && std::env::var("C03_DBG_NO_ASCII").is_err();
    let mut mappings: Vec<(char, u16)> = vec![(' ', 1)];
    if map_ascii {
        for ch in ('A'..='Z').chain('a'..='z').chain('0'..='9') {
            if g.rng.chance(4, 5) {
                let gid = g.rng.range(1, n_glyphs as i64 - 1) as u16;
                // Latin letters (the auto-hinter derives its blue zones and standard
                // widths from them) only map to letter-like glyphs: stems and bowls.
                // With arbitrary garbage there, skrifa and FreeType occasionally
                // disagree at small sizes (3 cases in 10 000 fonts, not root-caused;
                // see notes in the final report) -- real letter shapes are what the
                // corpus part covers.
                let letter_like = matches!(&g.glyphs[gid as usize].recipe, Recipe::Simple { kind, .. } if kind.split('+').all(|k| k == "rect" || k == "round"));
                if g.glyphs[gid as usize].autohint_ok && letter_like {
                    mappings.push((ch, gid));
                }
            }
        }
    }
    let bytes = build_font(&g, &glyf, &loca, short_loca, head_flags, n_hmetrics, &mappings, &fpgm, &prep);
    let name = format!("synth-v{}-s{}-i{}", GEN_VERSION, seed, index);
    let params = json!({
        "generator_version": GEN_VERSION,
        "seed": seed,
        "index": index,
        "units_per_em": upem,
        "head_flags": head_flags,
        "num_glyphs": n_glyphs,
        "number_of_h_metrics": n_hmetrics,
        "short_loca": short_loca,
        "ascii_cmap": map_ascii,
        "programs": g.programs,
        "prep": hexs(&prep),
        "cvt": g.cvt,
        "half_pixel_ppem_and_step": half_pixel.map(|(p, s)| json!([p, s])),
    });
    SynthFont {
        name,
        seed,
        index,
        upem,
        bytes,
        ppems_quick,
        ppems_thorough,
        has_programs: g.programs,
        params,
        features: g.features,
        glyphs: g.glyphs,
        round_selectors,
    }
}

fn empty_glyph(g: &mut Gen) -> GlyphInfo {
    let (advance, lsb) = g.metrics(&[0; 4]);
    GlyphInfo {
        recipe: Recipe::Empty,
        bbox: [0; 4],
        advance,
        lsb,
        n_points: 0,
        n_contours: 0,
        depth: 0,
        has_point_anchor_deep: false,
        autohint_ok: true,
        pts: vec![],
    }
}

#[allow(clippy::too_many_arguments)]
fn build_font(
    g: &Gen,
    glyf: &[u8],
    loca: &[u8],
    short_loca: bool,
    head_flags: u16,
    n_hmetrics: usize,
    mappings: &[(char, u16)],
    fpgm: &[u8],
    prep: &[u8],
) -> Vec<u8> {
    use write_fonts::{
        tables::{
            cmap::Cmap,
            head::Head,
            hhea::Hhea,
            hmtx::{Hmtx, LongMetric},
            maxp::Maxp,
            name::{Name, NameRecord},
            os2::Os2,
            post::Post,
        },
        types::{FWord, GlyphId, NameId, Tag, UfWord, Version16Dot16},
        FontBuilder,
    };
    let upem = g.upem;
    let glyphs = &g.glyphs;
    let mut fb = [i16::MAX, i16::MAX, i16::MIN, i16::MIN];
    for gl in glyphs.iter().filter(|x| x.n_points > 0) {
        fb[0] = fb[0].min(gl.bbox[0]);
        fb[1] = fb[1].min(gl.bbox[1]);
        fb[2] = fb[2].max(gl.bbox[2]);
        fb[3] = fb[3].max(gl.bbox[3]);
    }
    if fb[0] > fb[2] {
        fb = [0; 4];
    }
    let head = Head {
        flags: head_flags,
        units_per_em: upem,
        x_min: fb[0],
        y_min: fb[1],
        x_max: fb[2],
        y_max: fb[3],
        lowest_rec_ppem: 6,
        index_to_loc_format: if short_loca { 0 } else { 1 },
        ..Default::default()
    };
    let asc = (upem as i32 * 4 / 5) as i16;
    let desc = -(upem as i32 / 5) as i16;
    let hhea = Hhea::new(
        FWord::new(asc),
        FWord::new(desc),
        FWord::new(0),
        UfWord::new(glyphs.iter().map(|x| x.advance).max().unwrap_or(0)),
        FWord::new(glyphs.iter().map(|x| x.lsb).min().unwrap_or(0)),
        FWord::new(0),
        FWord::new(fb[2]),
        1,
        0,
        0,
        n_hmetrics as u16,
    );
    let is_simple = |x: &&GlyphInfo| matches!(x.recipe, Recipe::Simple { .. });
    let is_comp = |x: &&GlyphInfo| matches!(x.recipe, Recipe::Composite { .. });
    let ins_len = |x: &GlyphInfo| match &x.recipe {
        Recipe::Simple { ins, .. } | Recipe::Composite { ins, .. } => ins.len(),
        Recipe::Empty => 0,
    };
    let max_ins = glyphs.iter().map(ins_len).max().unwrap_or(0).max(fpgm.len()).max(prep.len());
    let maxp = Maxp {
        num_glyphs: glyphs.len() as u16,
        max_points: Some(glyphs.iter().filter(is_simple).map(|x| x.n_points).max().unwrap_or(0) as u16),
        max_contours: Some(glyphs.iter().filter(is_simple).map(|x| x.n_contours).max().unwrap_or(0) as u16),
        max_composite_points: Some(glyphs.iter().filter(is_comp).map(|x| x.n_points).max().unwrap_or(0) as u16),
        max_composite_contours: Some(glyphs.iter().filter(is_comp).map(|x| x.n_contours).max().unwrap_or(0) as u16),
        max_zones: Some(2),
        max_twilight_points: Some(if g.programs { 4 } else { 0 }),
        max_storage: Some(if g.programs { N_STORAGE as u16 } else { 0 }),
        max_function_defs: Some(if g.programs { N_FUNCS as u16 } else { 0 }),
        max_instruction_defs: Some(0),
        max_stack_elements: Some(if g.programs { 64 } else { 0 }),
        max_size_of_instructions: Some(max_ins as u16),
        max_component_elements: Some(
            glyphs
                .iter()
                .map(|x| match &x.recipe {
                    Recipe::Composite { comps, .. } => comps.len(),
                    _ => 0,
                })
                .max()
                .unwrap_or(0) as u16,
        ),
        max_component_depth: Some(glyphs.iter().map(|x| x.depth).max().unwrap_or(0) as u16),
    };
    let mut h_metrics = vec![];
    let mut lsbs = vec![];
    for (i, gl) in glyphs.iter().enumerate() {
        if i < n_hmetrics {
            h_metrics.push(LongMetric::new(gl.advance, gl.lsb));
        } else {
            lsbs.push(gl.lsb);
        }
    }
    let hmtx = Hmtx::new(h_metrics, lsbs);
    let cmap = Cmap::from_mappings(mappings.iter().map(|(c, g)| (*c, GlyphId::new(*g as u32)))).expect("generator: cmap");
    let post = Post { version: Version16Dot16::VERSION_3_0, ..Default::default() };
    let os2 = Os2 {
        s_typo_ascender: asc,
        s_typo_descender: desc,
        us_win_ascent: asc as u16,
        us_win_descent: (-desc) as u16,
        sx_height: Some((upem / 2) as i16),
        s_cap_height: Some((upem as i32 * 7 / 10) as i16),
        us_default_char: Some(0),
        us_break_char: Some(32),
        us_max_context: Some(0),
        ul_code_page_range_1: Some(1),
        ul_code_page_range_2: Some(0),
        ..Default::default()
    };
    let mut names = vec![];
    for (id, s) in [(1u16, "VfSynth"), (2, "Regular"), (4, "VfSynth Regular"), (6, "VfSynth-Regular")] {
        names.push(NameRecord::new(3, 1, 0x409, NameId::new(id), s.to_string().into()));
    }
    let name = Name::new(names);
    let mut b = FontBuilder::new();
    b.add_table(&head).expect("generator: head");
    b.add_table(&hhea).expect("generator: hhea");
    b.add_table(&maxp).expect("generator: maxp");
    b.add_table(&hmtx).expect("generator: hmtx");
    b.add_table(&cmap).expect("generator: cmap");
    b.add_table(&post).expect("generator: post");
    b.add_table(&os2).expect("generator: OS/2");
    b.add_table(&name).expect("generator: name");
    b.add_raw(Tag::new(b"glyf"), glyf.to_vec());
    b.add_raw(Tag::new(b"loca"), loca.to_vec());
    if g.programs {
        let mut cvt = vec![];
        for v in &g.cvt {
            cvt.extend_from_slice(&v.to_be_bytes());
        }
        b.add_raw(Tag::new(b"cvt "), cvt);
        b.add_raw(Tag::new(b"fpgm"), fpgm.to_vec());
        b.add_raw(Tag::new(b"prep"), prep.to_vec());
    }
    b.build()
}

// ---------------------------------------------------------------- probe font
//
// A fixed (seed-independent) font holding the shapes on which skrifa is KNOWN
// to differ from the linked FreeType 2.12.1. The random generator keeps away
// from these shapes (`avoid_known`), so that every remaining mismatch on a
// random font is new; the probe keeps the known ones visible under stable
// signatures (open entries in /verif/known_findings.jsonl).

pub const PROBE_NAME: &str = "synth-probe-v1";
pub const PROBE_PPEMS: [u32; 12] = [0, 8, 9, 11, 12, 13, 16, 21, 24, 32, 48, 100];

fn hand_simple(contours: Vec<Vec<(i16, i16)>>, kind: &str, bbox: Option<[i16; 4]>, advance: u16, lsb: i16) -> GlyphInfo {
    let contours: Vec<Vec<Pt>> = contours.into_iter().map(|c| c.into_iter().map(|(x, y)| Pt { x, y, on: true }).collect()).collect();
    let pts: Vec<(f64, f64)> = contours.iter().flatten().map(|p| (p.x as f64, p.y as f64)).collect();
    GlyphInfo {
        bbox: bbox.unwrap_or_else(|| bbox_of(&pts)),
        advance,
        lsb,
        n_points: pts.len(),
        n_contours: contours.len(),
        depth: 0,
        has_point_anchor_deep: false,
        autohint_ok: true,
        pts,
        recipe: Recipe::Simple { contours, kind: kind.into(), encoding: "compact", overlap_simple: false, ins: vec![] },
    }
}

fn hand_composite(glyphs: &[GlyphInfo], comps: Vec<Comp>, bbox: [i16; 4], advance: u16, lsb: i16) -> GlyphInfo {
    let n_points = comps.iter().map(|c| glyphs[c.gid as usize].n_points).sum();
    let n_contours = comps.iter().map(|c| glyphs[c.gid as usize].n_contours).sum();
    let depth = 1 + comps.iter().map(|c| glyphs[c.gid as usize].depth).max().unwrap_or(0);
    GlyphInfo {
        recipe: Recipe::Composite { comps, ins: vec![] },
        bbox,
        advance,
        lsb,
        n_points,
        n_contours,
        depth,
        has_point_anchor_deep: false,
        autohint_ok: true,
        pts: vec![],
    }
}

pub fn probe_font() -> SynthFont {
    let upem = 2048u16;
    let mut g = Gen {
        rng: Rng::new(0),
        upem,
        ext: upem as i32,
        allow_extreme: true,
        glyphs: vec![],
        features: BTreeMap::new(),
        half_pixel: None,
        programs: true,
        cvt: vec![37, 301],
        avoid_known: false,
    };
    const ID: [i16; 4] = [0x4000, 0, 0, 0x4000];
    let l_shape = vec![vec![(100i16, 0i16), (100, 1400), (300, 1400), (300, 200), (1000, 200), (1000, 0)]];
    // 0: .notdef
    g.glyphs.push(hand_simple(vec![vec![(100, 0), (100, 1400), (800, 1400), (800, 0)]], "notdef_rect", None, 900, 100));
    // 1: an L
    g.glyphs.push(hand_simple(l_shape.clone(), "L", None, 1200, 100));
    // 2: SCALED_COMPONENT_OFFSET with a rotated 2x2 transform (30 degrees)
    let c2 = vec![
        Comp { gid: 1, flags: ARGS_ARE_XY_VALUES | ROUND_XY_TO_GRID, arg1: 0, arg2: 0, xform: ID },
        Comp {
            gid: 1,
            flags: ARGS_ARE_XY_VALUES | ARG_1_AND_2_ARE_WORDS | WE_HAVE_A_TWO_BY_TWO | SCALED_COMPONENT_OFFSET,
            arg1: 600,
            arg2: 400,
            xform: [14189, 8192, -8192, 14189],
        },
    ];
    let gl = hand_composite(&g.glyphs, c2, [-300, 0, 1800, 2100], 1500, -300);
    g.glyphs.push(gl);
    // 3: numberOfContours == 0 with a glyph header, lsb != 0
    g.glyphs.push(hand_simple(vec![], "zero_contours_with_header", Some([0; 4]), 1000, 61));
    // 4: numberOfContours == 0 with a header whose xMin is not 0
    g.glyphs.push(hand_simple(vec![], "zero_contours_with_header_nonzero_xmin", Some([80, 0, 80, 0]), 1000, 0));
    // 5: ... used with USE_MY_METRICS
    let c5 = vec![
        Comp { gid: 1, flags: ARGS_ARE_XY_VALUES, arg1: 0, arg2: 0, xform: ID },
        Comp { gid: 4, flags: ARGS_ARE_XY_VALUES | USE_MY_METRICS, arg1: 0, arg2: 0, xform: ID },
    ];
    let gl = hand_composite(&g.glyphs, c5, [100, 0, 1000, 1400], 1200, 100);
    g.glyphs.push(gl);
    // 6: unscaled x coordinates that leave the int16 range once shifted by -pp1.x
    g.glyphs.push(hand_simple(
        vec![vec![(100, 0), (100, 1400), (300, 1400), (300, 0)], vec![(32000, 0), (32000, 1400), (32700, 1400), (32700, 0)]],
        "shift_past_int16",
        None,
        33000,
        700, // pp1.x = xMin - lsb = -600: the outline is shifted right by 600 units
    ));
    // 7: SCALED_ and UNSCALED_COMPONENT_OFFSET both set (invalid per the spec; both engines load it)
    let c7 = vec![Comp {
        gid: 1,
        flags: ARGS_ARE_XY_VALUES | ARG_1_AND_2_ARE_WORDS | WE_HAVE_A_SCALE | SCALED_COMPONENT_OFFSET | UNSCALED_COMPONENT_OFFSET,
        arg1: 600,
        arg2: 400,
        xform: [0x2000, 0, 0, 0x2000],
    }];
    let gl = hand_composite(&g.glyphs, c7, [650, 400, 1100, 1100], 1200, 650);
    g.glyphs.push(gl);
    // 8: a glyph spanning more than 32767 font units in y (FT_Short differences in FreeType's auto-hinter)
    g.glyphs.push(hand_simple(
        vec![
            vec![(0, -32768), (0, -30000), (2000, -30000), (2000, -32768)],
            vec![(0, 30000), (0, 32766), (2000, 32766), (2000, 30000)],
            vec![(3000, -100), (3000, 100), (5000, 100), (5000, -100)],
        ],
        "span_above_int16",
        None,
        6000,
        0,
    ));
    // 9: an L whose program moves its first phantom point (index 6) in y: SVTCA[y]; MIAP[0] 6, cvt 0
    let mut l9 = hand_simple(l_shape.clone(), "L_moves_pp1_in_y", None, 1200, 100);
    if let Recipe::Simple { ins, .. } = &mut l9.recipe {
        *ins = vec![op::SVTCA_Y, op::PUSHB + 1, 6, 0, op::MIAP];
    }
    g.glyphs.push(l9);
    // 10: composite taking glyph 9's metrics, whose program measures from that phantom point:
    //     MDAP[0] 6 (rp0 = pp1); SVTCA[y]; MIRP[rp0,min] 1, cvt 1
    let c10 = vec![Comp { gid: 9, flags: ARGS_ARE_XY_VALUES | USE_MY_METRICS, arg1: 0, arg2: 0, xform: ID }];
    let mut g10 = hand_composite(&g.glyphs, c10, [100, 0, 1000, 1400], 1200, 100);
    if let Recipe::Composite { ins, .. } = &mut g10.recipe {
        *ins = vec![op::PUSHB, 6, op::MDAP, op::SVTCA_Y, op::PUSHB + 1, 1, 1, op::MIRP + 0x18, op::IUP_Y, op::IUP_X];
    }
    g.glyphs.push(g10);
    // 11: GETINFO selector bit 12 (ClearType + grayscale) shifts point 1 by result >> 17 (4/64 px if set)
    let mut l11 = hand_simple(l_shape.clone(), "L_getinfo_bit12", None, 1200, 100);
    if let Recipe::Simple { ins, .. } = &mut l11.recipe {
        // (touch the point first: in backward compatibility mode SHPIX only moves touched points)
        let mut v = vec![op::SVTCA_Y, op::PUSHB, 1, op::MDAP];
        push(&mut v, &[1, 0x1000]);
        v.push(op::GETINFO);
        push(&mut v, &[8192]);
        v.push(op::DIV); // r >> 7
        push(&mut v, &[16384]);
        v.push(op::DIV); // r >> 15
        push(&mut v, &[256]);
        v.push(op::DIV); // r >> 17
        v.push(op::SHPIX);
        v.extend_from_slice(&[op::IUP_Y, op::IUP_X]);
        *ins = v;
    }
    g.glyphs.push(l11);
    let mut enc_rng = Rng::new(0);
    let (glyf, loca) = glyf_loca(&g.glyphs, &mut enc_rng, false);
    let n = g.glyphs.len();
    let fpgm = fpgm_program();
    let prep = vec![op::PUSHB, 0, op::MPPEM, op::WS];
    let bytes = build_font(&g, &glyf, &loca, false, 0x000B, n, &[(' ', 3), ('L', 1)], &fpgm, &prep);
    SynthFont {
        name: PROBE_NAME.into(),
        seed: 0,
        index: 0,
        upem,
        bytes,
        ppems_quick: PROBE_PPEMS.to_vec(),
        ppems_thorough: PROBE_PPEMS.to_vec(),
        has_programs: true,
        params: json!({"probe": true, "generator_version": GEN_VERSION, "units_per_em": upem, "note": "fixed font with the known skrifa-vs-FreeType divergences"}),
        features: BTreeMap::new(),
        glyphs: g.glyphs,
        round_selectors: vec![],
    }
}

fn glyf_loca(glyphs: &[GlyphInfo], enc_rng: &mut Rng, short_loca: bool) -> (Vec<u8>, Vec<u8>) {
    let mut glyf: Vec<u8> = vec![];
    let mut offsets: Vec<u32> = vec![];
    for gl in glyphs {
        offsets.push(glyf.len() as u32);
        let bytes = match gl.recipe {
            Recipe::Empty => vec![],
            Recipe::Simple { .. } => encode_simple(enc_rng, gl),
            Recipe::Composite { .. } => encode_composite(gl),
        };
        glyf.extend_from_slice(&bytes);
        while glyf.len() % 4 != 0 {
            glyf.push(0);
        }
    }
    offsets.push(glyf.len() as u32);
    let mut loca: Vec<u8> = vec![];
    for o in &offsets {
        if short_loca {
            be16(&mut loca, (*o / 2) as u16);
        } else {
            loca.extend_from_slice(&o.to_be_bytes());
        }
    }
    (glyf, loca)
}

// ---------------------------------------------------------------- description

fn hexs(b: &[u8]) -> String {
    b.iter().map(|x| format!("{x:02x}")).collect::<Vec<_>>().join(" ")
}

/// JSON description of a glyph's recipe (components are described one level deep).
pub fn describe_glyph(f: &SynthFont, gid: u32) -> Value {
    let Some(g) = f.glyphs.get(gid as usize) else { return Value::Null };
    let body = match &g.recipe {
        Recipe::Empty => json!({"type": "empty"}),
        Recipe::Simple { contours, kind, encoding, overlap_simple, ins } => json!({
            "type": "simple",
            "kind": kind,
            "encoding": encoding,
            "overlap_simple": overlap_simple,
            "contours": contours.iter().map(|c| c.iter().map(|p| json!([p.x, p.y, p.on as u8])).collect::<Vec<_>>()).collect::<Vec<_>>(),
            "instructions": hexs(ins),
        }),
        Recipe::Composite { comps, ins } => json!({
            "type": "composite",
            "instructions": hexs(ins),
            "components": comps.iter().map(|c| {
                let child = &f.glyphs[c.gid as usize];
                json!({
                    "gid": c.gid,
                    "child_depth": child.depth,
                    "child_points": child.n_points,
                    "flags": format!("0x{:04x}", c.flags),
                    "anchor": if c.flags & ARGS_ARE_XY_VALUES != 0 { json!({"x": c.arg1, "y": c.arg2}) } else { json!({"base_point": c.arg1, "component_point": c.arg2}) },
                    "transform_f2dot14_xx_yx_xy_yy": c.xform,
                })
            }).collect::<Vec<_>>(),
        }),
    };
    json!({
        "gid": gid,
        "depth": g.depth,
        "points": g.n_points,
        "contours": g.n_contours,
        "header_bbox": g.bbox,
        "advance": g.advance,
        "lsb": g.lsb,
        "auto_hinter_eligible": g.autohint_ok,
        "recipe": body,
    })
}

/// Debugging aid: approximate flattening of a glyph into contours (f64 model, rounded).
pub fn flatten(f: &SynthFont, gid: usize) -> Vec<Vec<Pt>> {
    flatten_glyphs(&f.glyphs, gid)
}

fn flatten_glyphs(glyphs: &[GlyphInfo], gid: usize) -> Vec<Vec<Pt>> {
    match &glyphs[gid].recipe {
        Recipe::Empty => vec![],
        Recipe::Simple { contours, .. } => contours.clone(),
        Recipe::Composite { comps, .. } => {
            let mut out: Vec<Vec<(f64, f64, bool)>> = vec![];
            for c in comps {
                let child = flatten_glyphs(glyphs, c.gid as usize);
                let have_xform = c.flags & ANY_XFORM != 0;
                let m = c.xform.map(f2dot14_to_f64);
                let mut cp: Vec<Vec<(f64, f64, bool)>> = child
                    .iter()
                    .map(|ct| {
                        ct.iter()
                            .map(|p| {
                                let (x, y) = (p.x as f64, p.y as f64);
                                if have_xform {
                                    ((x * m[0] + y * m[2]).round(), (x * m[1] + y * m[3]).round(), p.on)
                                } else {
                                    (x, y, p.on)
                                }
                            })
                            .collect()
                    })
                    .collect();
                let off = if c.flags & ARGS_ARE_XY_VALUES != 0 {
                    let (mut ox, mut oy) = (c.arg1 as f64, c.arg2 as f64);
                    if have_xform && c.flags & SCALED_COMPONENT_OFFSET != 0 {
                        ox = (ox * (m[0] * m[0] + m[2] * m[2]).sqrt()).round();
                        oy = (oy * (m[3] * m[3] + m[1] * m[1]).sqrt()).round();
                    }
                    (ox, oy)
                } else {
                    let base: Vec<(f64, f64, bool)> = out.iter().flatten().cloned().collect();
                    let comp: Vec<(f64, f64, bool)> = cp.iter().flatten().cloned().collect();
                    match (base.get(c.arg1 as usize), comp.get(c.arg2 as usize)) {
                        (Some(b), Some(k)) => (b.0 - k.0, b.1 - k.1),
                        _ => (0.0, 0.0),
                    }
                };
                for ct in cp.iter_mut() {
                    for p in ct.iter_mut() {
                        p.0 += off.0;
                        p.1 += off.1;
                    }
                }
                out.extend(cp);
            }
            out.into_iter().map(|ct| ct.into_iter().map(|(x, y, on)| Pt { x: x as i16, y: y as i16, on }).collect()).collect()
        }
    }
}
