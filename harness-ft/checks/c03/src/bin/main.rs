extern crate a_vf_core as vf_core;
fn main() {
    vf_core::main_with("C03", vf_c03::run, vf_c03::REPLAY);
}
