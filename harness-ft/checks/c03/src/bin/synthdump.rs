//! Debugging aid (not run by the driver): dump one synthetic font and compare
//! glyphs verbosely.  usage: synthdump <seed> <index> <out.ttf> [gid ppem]
extern crate a_vf_core as vf_core;
use fauntlet::{Font, Hinting, HintingTarget, InstanceOptions, RegularizingPen};
use skrifa::{outline::pen::PathElement, GlyphId};
use vf_c03::synth::{Recipe, SynthFont};

fn tokens(ins: &[u8]) -> Vec<Vec<u8>> {
    // one token = one instruction incl. inline push data; IF..EIF blocks are kept whole
    let mut out: Vec<Vec<u8>> = vec![];
    let mut i = 0;
    let mut depth = 0;
    while i < ins.len() {
        let op = ins[i];
        let len = match op {
            0xB0..=0xB7 => 2 + (op - 0xB0) as usize,
            0xB8..=0xBF => 1 + 2 * (1 + (op - 0xB8) as usize),
            _ => 1,
        };
        let tok = ins[i..(i + len).min(ins.len())].to_vec();
        if depth > 0 {
            out.last_mut().unwrap().extend_from_slice(&tok);
        } else {
            out.push(tok);
        }
        if op == 0x58 {
            depth += 1;
        }
        if op == 0x59 {
            depth -= 1;
        }
        i += len;
    }
    out
}

fn stack_effect(tok: &[u8]) -> i32 {
    let op = tok[0];
    match op {
        0xB0..=0xB7 => 1 + (op - 0xB0) as i32,
        0xB8..=0xBF => 1 + (op - 0xB8) as i32,
        0x00 | 0x01 | 0x18 | 0x19 | 0x3D | 0x7A | 0x7C | 0x7D | 0x30 | 0x31 | 0x23 | 0x43 | 0x45 | 0x46 | 0x47 | 0x68..=0x6F | 0x59 | 0x4D | 0x4E | 0x88 => 0,
        0x10..=0x12 | 0x1A | 0x1D..=0x1F | 0x21 | 0x2E | 0x2F | 0x32 | 0x33 | 0x39 | 0x3C | 0x50 | 0x5A | 0x5E | 0x5F | 0x60..=0x62 | 0x58 | 0x76 | 0x77 | 0x85 | 0x8D => -1,
        0x44 | 0x8E => -2,
        0x71..=0x75 => -3,
        0xC0..=0xDF => -1,
        0x2B => -2,
        0x38 | 0x3E | 0x3F | 0x42 | 0x48 => -2,
        0xE0..=0xFF => -2,
        0x5D => -3,
        0x4B | 0x20 => 1,
        _ => 0,
    }
}

/// Groups instruction tokens into stack-neutral snippets (the generator only emits such snippets).
fn groups(ins: &[u8]) -> Vec<Vec<u8>> {
    let mut out: Vec<Vec<u8>> = vec![];
    let mut cur: Vec<u8> = vec![];
    let mut depth = 0;
    for t in tokens(ins) {
        depth += stack_effect(&t);
        cur.extend_from_slice(&t);
        if depth == 0 {
            out.push(std::mem::take(&mut cur));
        }
    }
    if !cur.is_empty() {
        out.push(cur);
    }
    out
}

fn closure(f: &SynthFont, gid: usize, acc: &mut Vec<usize>) {
    if acc.contains(&gid) {
        return;
    }
    acc.push(gid);
    if let Recipe::Composite { comps, .. } = &f.glyphs[gid].recipe {
        for c in comps {
            closure(f, c.gid as usize, acc);
        }
    }
}

fn differs(seed: u64, index: u32, path: &str, gid: u32, ppem: u32, hinting: Option<Hinting>, progs: &[(usize, Vec<Vec<u8>>)]) -> bool {
    let spec: Vec<String> = progs
        .iter()
        .map(|(g, t)| format!("{}={}", g, t.iter().flatten().map(|b| format!("{b:02x}")).collect::<Vec<_>>().join(" ")))
        .collect();
    std::env::set_var("C03_DBG_OVERRIDE_INS", spec.join(";"));
    let f = vf_c03::synth::generate(seed, index);
    std::fs::write(path, &f.bytes).unwrap();
    let mut font = Font::new(path).unwrap();
    // PPEM_RANGE=lo-hi: a difference at any size in the range counts (threshold-dependent cases)
    let sizes: Vec<u32> = match std::env::var("PPEM_RANGE").ok().and_then(|r| r.split_once('-').map(|(a, b)| (a.parse::<u32>().unwrap(), b.parse::<u32>().unwrap()))) {
        Some((lo, hi)) => (lo..=hi).collect(),
        None => vec![ppem],
    };
    for ppem in sizes {
        let Some((mut ft, mut sk)) = font.instantiate(&InstanceOptions::new(0, ppem, &[], hinting)) else { continue };
        let mut p1: Vec<PathElement> = vec![];
        let mut p2: Vec<PathElement> = vec![];
        let a1 = ft.outline(GlyphId::new(gid), &mut RegularizingPen::new(&mut p1, ppem != 0));
        let a2 = sk.outline(GlyphId::new(gid), &mut RegularizingPen::new(&mut p2, ppem != 0));
        if a1.is_some() && a2.is_ok() && p1 != p2 {
            if std::env::var("PPEM_RANGE_VERBOSE").is_ok() {
                println!("differs at ppem {ppem}");
            }
            return true;
        }
    }
    false
}

fn main() {
    let a: Vec<String> = std::env::args().collect();
    let seed: u64 = a[1].parse().unwrap();
    let index: u32 = a[2].parse().unwrap();
    let f = vf_c03::synth::generate(seed, index);
    std::fs::write(&a[3], &f.bytes).unwrap();
    println!("{}", f.params);
    println!("ppems {:?}", f.ppems_quick);
    if a.len() <= 5 {
        for g in 0..f.glyphs.len() as u32 {
            println!("{}", vf_c03::synth::describe_glyph(&f, g));
        }
    }
    if a.len() > 5 {
        let gid: u32 = a[4].parse().unwrap();
        let ppem: u32 = a[5].parse().unwrap();
        let t = |s: &str| match s {
            "mono" => HintingTarget::Mono,
            "light" => HintingTarget::Light,
            "lcd" => HintingTarget::Lcd,
            "vlcd" => HintingTarget::VerticalLcd,
            _ => HintingTarget::Normal,
        };
        let hinting = match a.get(6).map(|s| s.as_str()) {
            Some("interpreter") => Some(Hinting::Interpreter(t(a.get(7).map(|s| s.as_str()).unwrap_or("normal")))),
            Some("auto") => Some(Hinting::Auto(t(a.get(7).map(|s| s.as_str()).unwrap_or("normal")))),
            _ => None,
        };
        if std::env::var("MINIMISE_SHAPE").is_ok() {
            let spec = |c: &Vec<Vec<vf_c03::synth::Pt>>| {
                format!(
                    "{}={}",
                    gid,
                    c.iter().map(|ct| ct.iter().map(|p| format!("{},{},{}", p.x, p.y, p.on as u8)).collect::<Vec<_>>().join(" ")).collect::<Vec<_>>().join("|")
                )
            };
            let mut contours = vf_c03::synth::flatten(&f, gid as usize);
            let check = |c: &Vec<Vec<vf_c03::synth::Pt>>| {
                std::env::set_var("C03_DBG_OVERRIDE_GLYPH", spec(c));
                differs(seed, index, &a[3], gid, ppem, hinting, &[])
            };
            println!("flattened differs: {}", check(&contours));
            loop {
                let mut changed = false;
                let mut i = 0;
                while i < contours.len() {
                    let mut t = contours.clone();
                    t.remove(i);
                    if check(&t) {
                        contours = t;
                        changed = true;
                    } else {
                        i += 1;
                    }
                }
                for ci in 0..contours.len() {
                    let mut pi = 0;
                    while pi < contours[ci].len() && contours[ci].len() > 1 {
                        let mut t = contours.clone();
                        t[ci].remove(pi);
                        if check(&t) {
                            contours = t;
                            changed = true;
                        } else {
                            pi += 1;
                        }
                    }
                }
                if !changed {
                    break;
                }
            }
            println!("minimal: C03_DBG_OVERRIDE_GLYPH='{}'", spec(&contours));
            check(&contours);
        }
        if std::env::var("MINIMISE").is_ok() {
            let mut gl = vec![];
            closure(&f, gid as usize, &mut gl);
            let mut progs: Vec<(usize, Vec<Vec<u8>>)> = gl
                .iter()
                .map(|g| {
                    let ins = match &f.glyphs[*g].recipe {
                        Recipe::Simple { ins, .. } | Recipe::Composite { ins, .. } => ins.clone(),
                        Recipe::Empty => vec![],
                    };
                    (*g, groups(&ins))
                })
                .collect();
            println!("initial differs: {}", differs(seed, index, &a[3], gid, ppem, hinting, &progs));
            loop {
                let mut changed = false;
                for gi in 0..progs.len() {
                    let mut ti = 0;
                    while ti < progs[gi].1.len() {
                        let mut trial = progs.clone();
                        trial[gi].1.remove(ti);
                        if differs(seed, index, &a[3], gid, ppem, hinting, &trial) {
                            progs = trial;
                            changed = true;
                        } else {
                            ti += 1;
                        }
                    }
                }
                if !changed {
                    break;
                }
            }
            for (g, t) in &progs {
                println!("gid {g}: {}", t.iter().map(|x| x.iter().map(|b| format!("{b:02x}")).collect::<Vec<_>>().join(" ")).collect::<Vec<_>>().join(" | "));
            }
            differs(seed, index, &a[3], gid, ppem, hinting, &progs);
        }
        let mut font = Font::new(&a[3]).unwrap();
        let (mut ft, mut sk) = font.instantiate(&InstanceOptions::new(0, ppem, &[], hinting)).unwrap();
        let mut p1: Vec<PathElement> = vec![];
        let mut p2: Vec<PathElement> = vec![];
        let a1 = ft.outline(GlyphId::new(gid), &mut RegularizingPen::new(&mut p1, ppem != 0));
        let a2 = sk.outline(GlyphId::new(gid), &mut RegularizingPen::new(&mut p2, ppem != 0));
        println!("ft adv {:?} sk adv {:?}", a1, a2);
        for i in 0..p1.len().max(p2.len()) {
            let m = if p1.get(i) == p2.get(i) { " " } else { "*" };
            println!("{m} {:?} | {:?}", p1.get(i), p2.get(i));
        }
    }
}
