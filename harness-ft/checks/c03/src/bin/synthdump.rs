//! Debugging aid (not run by the driver): dump one synthetic font and compare
//! glyphs verbosely.  usage: synthdump <seed> <index> <out.ttf> [gid ppem]
extern crate a_vf_core as vf_core;
use fauntlet::{Font, Hinting, HintingTarget, InstanceOptions, RegularizingPen};
use skrifa::{outline::pen::PathElement, GlyphId};
fn main() {
    let a: Vec<String> = std::env::args().collect();
    let seed: u64 = a[1].parse().unwrap();
    let index: u32 = a[2].parse().unwrap();
    let f = vf_c03::synth::generate(seed, index);
    std::fs::write(&a[3], &f.bytes).unwrap();
    println!("{}", f.params);
    println!("ppems {:?}", f.ppems_quick);
    if a.len() <= 5 {
        for g in 0..f.glyphs.len() as u32 {
            println!("{}", vf_c03::synth::describe_glyph(&f, g));
        }
    }
    if a.len() > 5 {
        let gid: u32 = a[4].parse().unwrap();
        let ppem: u32 = a[5].parse().unwrap();
        let mut font = Font::new(&a[3]).unwrap();
        let t = |s: &str| match s {
            "mono" => HintingTarget::Mono,
            "light" => HintingTarget::Light,
            "lcd" => HintingTarget::Lcd,
            "vlcd" => HintingTarget::VerticalLcd,
            _ => HintingTarget::Normal,
        };
        let hinting = match a.get(6).map(|s| s.as_str()) {
            Some("interpreter") => Some(Hinting::Interpreter(t(a.get(7).map(|s| s.as_str()).unwrap_or("normal")))),
            Some("auto") => Some(Hinting::Auto(t(a.get(7).map(|s| s.as_str()).unwrap_or("normal")))),
            _ => None,
        };
        let (mut ft, mut sk) = font.instantiate(&InstanceOptions::new(0, ppem, &[], hinting)).unwrap();
        let mut p1: Vec<PathElement> = vec![];
        let mut p2: Vec<PathElement> = vec![];
        let a1 = ft.outline(GlyphId::new(gid), &mut RegularizingPen::new(&mut p1, ppem != 0));
        let a2 = sk.outline(GlyphId::new(gid), &mut RegularizingPen::new(&mut p2, ppem != 0));
        println!("ft adv {:?} sk adv {:?}", a1, a2);
        for i in 0..p1.len().max(p2.len()) {
            let m = if p1.get(i) == p2.get(i) { " " } else { "*" };
            println!("{m} {:?} | {:?}", p1.get(i), p2.get(i));
        }
    }
}
