//! C01 on libFuzzer-evolved inputs: the bytes as a whole font file go through the
//! generic walker and every helper (`vf_c01::font::walk_file`, the walk the seeded
//! generators of the C01 check use for mutants). A library panic recorded in any
//! guarded section, or an observation digest that differs on a second walk of the
//! same bytes, is an oracle failure.
#![no_main]
use libfuzzer_sys::fuzz_target;
use vf_c01::obs::WalkCfg;
use vf_fuzz::{input_id, judge_panic, stat, violation};

fn seeds() -> Vec<(String, Vec<u8>)> {
    vf_fuzz::small_fonts(64 * 1024)
}

fn run(data: &[u8]) {
    let cfg = WalkCfg::mutant(40_000, None);
    let first = match vf_core::guard(|| vf_c01::font::walk_file(data, &cfg)) {
        Ok(o) => o,
        Err(p) => return judge_panic(&p, "walk_file (unguarded section)"),
    };
    stat("walks", 1);
    stat("fields_visited", first.fields);
    stat("helper_calls", first.helper_calls);
    stat("tables_parsed_ok", first.tables_ok as u64);
    if first.tables_ok > 0 && first.fields >= 16 {
        stat("nontrivial_inputs", 1);
    }
    for (what, p) in &first.panics {
        judge_panic(p, what);
    }
    // work monitor: an iterator that yielded more than its format-defined ceiling
    for a in &first.work_alarms {
        violation(
            &format!("work-bound:{}:{}", a.helper, a.ceiling_expr),
            &format!("iterator yielded {} items, ceiling {}", a.yielded, a.ceiling),
        );
    }
    // purity spot check on a deterministic quarter of the inputs
    if vf_core::fnv64(data) % 4 == 0 {
        stat("determinism_checks", 1);
        match vf_core::guard(|| vf_c01::font::walk_file(data, &cfg)) {
            Err(p) => judge_panic(&p, "walk_file second call (unguarded section)"),
            Ok(second) => {
                if second.key() != first.key() {
                    if second.panic_counts != first.panic_counts || second.panic_sites != first.panic_sites {
                        for (what, p) in &second.panics {
                            judge_panic(p, &format!("{} [only on second-call]", what));
                        }
                    }
                    violation(
                        &format!("nondeterministic:second-call:fuzz-c01_walk:{}", input_id(data)),
                        &format!("observation differs for identical bytes: first={:?} second={:?}", first.key(), second.key()),
                    );
                }
            }
        }
    }
}

fuzz_target!(init: vf_fuzz::init("c01_walk", "C01", seeds), |data: &[u8]| {
    vf_fuzz::run_target(|| run(data));
});
