//! C02 on libFuzzer-evolved fonts: the sampled configuration product the C02 check
//! drives over its own mutants (`drive::groups_for(0, ..)`: open, meta, metrics,
//! charmap, unhinted outlines, caller memory, helpers, colour paint when there is a
//! COLR table, two hinting configurations) through `drive::run_group`, the Ctx-free
//! inner function of `exec_case`. A library panic or an exceeded paint-callback
//! budget is an oracle failure; hangs are libFuzzer's -timeout.
#![no_main]
use libfuzzer_sys::fuzz_target;
use vf_c02::drive::{groups_for, has_table, run_group, Stats};
use vf_core::{PanicClass, Rng};
use vf_fuzz::{input_id, judge_panic, stat, violation};

fn seeds() -> Vec<(String, Vec<u8>)> {
    vf_fuzz::small_fonts(64 * 1024)
}

fn run(data: &[u8]) {
    // the configuration depends on the sfnt header only, so that an edit inside a table
    // keeps the sizes / locations / glyph ids the case is driven with
    let cfg_seed = vf_core::fnv64(&data[..data.len().min(12)]);
    let mut rng = Rng::derive(cfg_seed, "sampled-groups", 0);
    let specs = groups_for(0, cfg_seed, &mut rng, has_table(data, b"COLR"));
    for (i, spec) in specs.iter().enumerate() {
        let st = std::cell::RefCell::new(Stats::default());
        let r = vf_core::guard(|| {
            let mut s = st.borrow_mut();
            run_group(data, spec, None, &mut s);
        });
        let st = st.into_inner();
        stat("group_cases", 1);
        stat("library_calls", st.calls);
        stat("results_ok_or_some", st.ok);
        stat("results_err_or_none", st.err);
        if let Err(p) = &r {
            if !(p.class == PanicClass::Harness && st.budget_exceeded.is_some()) {
                judge_panic(p, &format!("skrifa {}", spec.group));
            }
        }
        if let Some(what) = &st.budget_exceeded {
            violation(&format!("colr-budget:fuzz-c02_font:{}", input_id(data)), &format!("paint callback budget exceeded: {} (group {})", what, spec.group));
        }
        if i == 0 {
            if !st.opened {
                stat("fonts_failed_to_open", 1);
                return;
            }
            stat("fonts_driven", 1);
        }
    }
}

fuzz_target!(init: vf_fuzz::init("c02_font", "C02", seeds), |data: &[u8]| {
    vf_fuzz::run_target(|| run(data));
});
