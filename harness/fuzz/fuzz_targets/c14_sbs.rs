//! C14 (sparse bit set decoding) on libFuzzer-evolved streams: the first 8 bytes give
//! `max` (<= 0x10FFFF: the unbounded decoder is known to take seconds on a few hostile
//! bytes, which libFuzzer's -timeout would report) and `bias`; the rest is decoded by
//! `IntSet::from_sparse_bit_set_bounded` and by the step-by-step transcription of the
//! specification algorithm in `vf_c14::codec::ref_decode`. Within the supported tree
//! heights validity, members and the unread remainder must agree; a panic is a failure.
#![no_main]
use libfuzzer_sys::fuzz_target;
use vf_c14::codec::{self, ref_decode, supported_height, RefOut, BF};
use vf_c14::model::Iv;
use vf_core::{hex, Rng};
use vf_fuzz::{judge_panic, stat, violation};

const MAX_CAP: u32 = 0x11_0000;

fn prefix(bias: u32, max: u32) -> Vec<u8> {
    let mut v = max.to_le_bytes().to_vec();
    v.extend_from_slice(&bias.to_le_bytes());
    v
}

fn seeds() -> Vec<(String, Vec<u8>)> {
    let mut out = vec![];
    for i in 0..96u64 {
        let mut rng = Rng::derive(1, "c14-fuzz-seed-tree", i);
        let body = codec::gen_tree_bytes(&mut rng);
        let max = if i % 3 == 0 { MAX_CAP - 1 } else { rng.below(MAX_CAP as u64) as u32 };
        let bias = if i % 4 == 0 { 0 } else { rng.below(max as u64 + 2) as u32 };
        let mut v = prefix(bias, max);
        v.extend_from_slice(&body);
        out.push((format!("tree-{}", i), v));
    }
    for i in 0..32u64 {
        let mut rng = Rng::derive(1, "c14-fuzz-seed-set", i);
        let m = codec::gen_codec_set(&mut rng);
        let clipped = Iv::from_intervals(m.0.iter().filter(|(lo, _)| *lo < MAX_CAP).map(|(lo, hi)| (*lo, (*hi).min(MAX_CAP - 1))).collect());
        let s = codec::build_set(&clipped, &mut rng);
        let mut v = prefix(0, MAX_CAP - 1);
        v.extend_from_slice(&s.to_sparse_bit_set());
        out.push((format!("set-{}", i), v));
    }
    out
}

fn run(data: &[u8]) {
    if data.len() < 8 {
        return;
    }
    let max = u32::from_le_bytes([data[0], data[1], data[2], data[3]]) % MAX_CAP;
    let braw = u32::from_le_bytes([data[4], data[5], data[6], data[7]]);
    let bias = if braw & 0x8000_0000 != 0 { braw } else { braw % (max + 2) };
    let body = &data[8..];
    let header = body.first().copied();
    let within = header.map(|h| ((h >> 2) & 31) as u32 <= supported_height(BF[(h & 3) as usize])).unwrap_or(true);
    let got = match vf_core::guard(|| codec::lib_decode_bounded(body, bias, max)) {
        Ok(g) => g,
        Err(p) => return judge_panic(&p, &format!("from_sparse_bit_set_bounded bytes={} bias={} max={}", hex(&body[..body.len().min(32)]), bias, max)),
    };
    stat("decodes", 1);
    stat(if got.is_some() { "decode_ok" } else { "decode_err" }, 1);
    if !within {
        stat("height_above_supported(not compared)", 1);
        return;
    }
    let reference = match vf_core::guard(|| ref_decode(body, bias, max)) {
        Ok(r) => r,
        Err(p) => return judge_panic(&p, "ref_decode (harness)"),
    };
    stat("compared_with_spec", 1);
    let sig = |what: &str| format!("codec:decode:{}:{}:bias{}:max{}", what, hex(&body[..body.len().min(24)]), bias, max);
    match (&got, &reference) {
        (None, RefOut::Invalid) => stat("both_invalid", 1),
        (Some((iv, len, rest)), RefOut::Ok { members, consumed, nodes }) => {
            if iv != members || *len != members.len() {
                violation(
                    &sig("members"),
                    &format!("members differ from the specification algorithm: got {:?} (len {}) spec {:?} (len {})", &iv.0[..iv.0.len().min(12)], len, &members.0[..members.0.len().min(12)], members.len()),
                );
                return;
            }
            if rest.as_slice() != &body[*consumed..] {
                violation(&sig("remainder"), &format!("unread remainder differs: got {} bytes, spec {} bytes", rest.len(), body.len() - consumed));
                return;
            }
            stat("both_ok", 1);
            if !members.is_empty() {
                stat("both_ok_nonempty", 1);
            }
            if *nodes >= 2 {
                stat("nontrivial_inputs", 1);
            }
        }
        (g, r) => violation(&sig("validity"), &format!("library_ok={} spec={}", g.is_some(), matches!(r, RefOut::Ok { .. }))),
    }
}

fuzz_target!(init: vf_fuzz::init("c14_sbs", "C14", seeds), |data: &[u8]| {
    vf_fuzz::run_target(|| run(data));
});
