//! C13 on libFuzzer-evolved COLR tables: the bytes become the COLR table of a
//! minimal sfnt (the container the C13 check builds for its own generated graphs);
//! every base glyph listed by the table (v0 records and v1 BaseGlyphList, a bounded
//! number) is painted with the C13 checker painter under rotating client policies
//! and two locations. `Ok` with unbalanced / mis-nested callbacks, a traversal over
//! the visit budget, a node beyond the depth limit, or a library panic is an oracle
//! failure.
#![no_main]
use libfuzzer_sys::fuzz_target;
use vf_c13::{generic_verdicts, listed_base_glyphs, outcome_nontrivial, paint_direct, Policy, Want};
use vf_fuzz::{input_id, judge_panic, stat, violation};

fn seeds() -> Vec<(String, Vec<u8>)> {
    let mut out = vec![];
    for (name, font) in vf_fuzz::small_fonts(64 * 1024) {
        for (tag, payload) in vf_core::gen::split_tables(&font) {
            if &tag == b"COLR" && payload.len() <= 16 * 1024 {
                out.push((format!("corpus-{}", name), payload));
            }
        }
    }
    out.extend(vf_c13::seed_colr_tables(1, 4));
    out
}

fn run(data: &[u8]) {
    let font = vf_core::gen::build_sfnt(0x0001_0000, &[(*b"COLR", data.to_vec())]);
    let ids = match vf_core::guard(|| listed_base_glyphs(&font)) {
        Ok(v) => v,
        Err(p) => return judge_panic(&p, "COLR base glyph listing"),
    };
    if ids.is_empty() {
        stat("inputs_without_base_glyph", 1);
        return;
    }
    let h = vf_core::fnv64(&data[..data.len().min(16)]);
    let policies = Policy::all(h);
    let id = input_id(data);
    let mut nontrivial = false;
    for (i, (gid, v1)) in ids.iter().enumerate() {
        let policy = policies[(i + (h >> 8) as usize) % 5];
        let coords: &[i16] = if i % 2 == 0 { &[] } else { &[0x2000, -0x4000, 0x4000] };
        let want = if *v1 { Want::Any } else { Want::V0 };
        let o = match paint_direct(&font, *gid, coords, policy, want) {
            Ok(o) => o,
            Err(p) => {
                judge_panic(&p, "ColorGlyph::paint");
                continue;
            }
        };
        if !o.present {
            stat("listed_glyph_not_paintable", 1);
            continue;
        }
        stat("paint_calls", 1);
        stat(if o.v1 { "paint_v1" } else { "paint_v0" }, 1);
        stat(if o.ok { "result_ok" } else { "result_err" }, 1);
        stat("visits_total", o.visits);
        stat("callbacks_total", o.callbacks);
        if o.ok && o.pushes > 0 {
            stat("ok_with_pushes_balanced", 1);
        }
        nontrivial |= outcome_nontrivial(&o);
        for v in generic_verdicts(&o, policy) {
            violation(
                &format!("{}:fuzz-c13_colr:{}:gid={}", v, id, gid),
                &format!("result={} visits={} max_depth={} callbacks={} open={} nest_error={:?} first_events=[{}] policy={:?} coords={:?}",
                    if o.ok { "Ok".to_string() } else { format!("Err({})", o.err) }, o.visits, o.max_depth, o.callbacks, o.open, o.nest_error, o.log, policy, coords),
            );
        }
    }
    if nontrivial {
        stat("nontrivial_inputs", 1);
    }
}

fuzz_target!(init: vf_fuzz::init("c13_colr", "C13", seeds), |data: &[u8]| {
    vf_fuzz::run_target(|| run(data));
});
