//! C01 on libFuzzer-evolved table payloads: the first 4 bytes select the table tag,
//! the external read arguments (numGlyphs, numberOfHMetrics, axis count, loca format)
//! and the mode; the rest is read directly as that table with every argument variant
//! and (cross mode) as every other table / subtable type
//! (`vf_c01::payload::walk_payload` / `scan_payload`).
#![no_main]
use libfuzzer_sys::fuzz_target;
use vf_c01::obs::WalkCfg;
use vf_c01::payload::{scan_payload, walk_payload, RealArgs};
use vf_fuzz::{violation, judge_panic, stat};

const TAGS: [&[u8; 4]; 8] = [b"hmtx", b"vmtx", b"hdmx", b"sbix", b"cmap", b"COLR", b"GSUB", b"scan"];
const ARG: [u16; 8] = [0, 1, 2, 5, 100, 300, 0x7FFF, 0xFFFF];

fn nearest(v: u16) -> u8 {
    ARG.iter().position(|a| *a >= v).unwrap_or(7) as u8
}

fn seeds() -> Vec<(String, Vec<u8>)> {
    let mut out = vec![];
    for (name, font) in vf_fuzz::small_fonts(64 * 1024) {
        let real = RealArgs::of(&font);
        for (tag, payload) in vf_core::gen::split_tables(&font) {
            if payload.is_empty() || payload.len() > 8 * 1024 {
                continue;
            }
            let ti = TAGS.iter().position(|t| **t == tag).filter(|i| *i < 4).unwrap_or(4) as u8;
            let b1 = nearest(real.num_glyphs) | (nearest(if &tag == b"vmtx" { real.n_vmetrics } else { real.n_hmetrics }) << 3);
            let b2 = (real.axis_count.min(3) as u8) | ((real.is_long as u8) << 2);
            let mut v = vec![ti, b1, b2, 0];
            v.extend_from_slice(&payload);
            out.push((format!("{}-{}", name, String::from_utf8_lossy(&tag).trim()), v));
        }
    }
    // keep the corpus small: one payload per (tag, size bucket) first, then the rest up to a cap
    out.sort_by_key(|(_, v)| v.len());
    out.truncate(700);
    out
}

fn run(data: &[u8]) {
    if data.len() < 4 {
        return;
    }
    let (sel, payload) = data.split_at(4);
    let tag = *TAGS[(sel[0] & 7) as usize];
    let cross = sel[0] & 0x40 == 0;
    let real = RealArgs {
        num_glyphs: ARG[(sel[1] & 7) as usize],
        n_hmetrics: ARG[((sel[1] >> 3) & 7) as usize],
        n_vmetrics: ARG[((sel[1] >> 3) & 7) as usize],
        axis_count: (sel[2] & 3) as u16,
        is_long: sel[2] & 4 != 0,
    };
    let cfg = WalkCfg::mutant(20_000, None);
    let r = if &tag == b"scan" { vf_core::guard(|| scan_payload(payload, 64, &real, &cfg)) } else { vf_core::guard(|| walk_payload(payload, tag, &real, cross, &cfg)) };
    let obs = match r {
        Ok(o) => o,
        Err(p) => return judge_panic(&p, "walk_payload (unguarded section)"),
    };
    stat("payload_walks", 1);
    stat("fields_visited", obs.fields);
    stat("helper_calls", obs.helper_calls);
    stat("tables_parsed_ok", obs.tables_ok as u64);
    if obs.tables_ok > 0 && obs.fields >= 16 {
        stat("nontrivial_inputs", 1);
    }
    for (what, p) in &obs.panics {
        judge_panic(p, what);
    }
    for a in &obs.work_alarms {
        violation(
            &format!("work-bound:{}:{}", a.helper, a.ceiling_expr),
            &format!("iterator yielded {} items, ceiling {}", a.yielded, a.ceiling),
        );
    }
}

fuzz_target!(init: vf_fuzz::init("c01_payload", "C01", seeds), |data: &[u8]| {
    vf_fuzz::run_target(|| run(data));
});
