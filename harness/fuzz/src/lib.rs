//! Shared plumbing of the libFuzzer targets (see ../Cargo.toml and
//! /verif/tools/stage_fuzz.sh).
//!
//! Contract with the stage wrapper:
//!
//! * a genuine oracle failure prints `VF-VIOLATION: <signature>` (and one
//!   `VF-DETAIL: ...` line) to stderr and aborts, so that libFuzzer saves the input
//!   as a `crash-*` artifact; the wrapper re-runs every artifact alone and takes the
//!   signature from that line;
//! * a panic raised by harness code prints `VF-HARNESS-PANIC: ...` and aborts: the
//!   wrapper reports it as inconclusive, never as a violation;
//! * a violation whose signature is an *open* entry of /verif/known_findings.jsonl
//!   for the property does not abort (fuzzing goes on past it); it is appended to
//!   the side log `$VF_FUZZ_SIDE_LOG` as `KNOWN\t<signature>`;
//! * panics of the strict-only classes (overflow / debug assertion) belong to C20
//!   under the Totality policy of these properties: `STRICT\t<signature>` in the
//!   side log, no abort;
//! * counters of what the oracles saw go to the side log as `STATS\t<json>` every
//!   few thousand inputs and at exit;
//! * `VF_FUZZ_GEN_SEEDS=<dir>`: write the target's seed corpus there and exit.
//!
//! vf-core's panic hook replaces the one libfuzzer-sys installs (which aborts on
//! every panic, also on those `vf_core::guard` is meant to catch).

use std::collections::{BTreeMap, HashSet};
use std::io::Write;
use std::path::PathBuf;
use std::sync::{Mutex, OnceLock};
use vf_core::{fnv64, PanicInfo};

struct State {
    target: &'static str,
    property: &'static str,
    known_open: HashSet<String>,
    side: Option<PathBuf>,
    seen: Mutex<HashSet<String>>,
    stats: Mutex<(u64, BTreeMap<&'static str, u64>)>,
}

static STATE: OnceLock<State> = OnceLock::new();

fn state() -> &'static State {
    STATE.get().expect("vf_fuzz::init not called")
}

extern "C" {
    fn atexit(cb: extern "C" fn()) -> i32;
}

extern "C" fn flush_at_exit() {
    flush_stats();
}

/// Called once from the `init:` clause of every fuzz target.
pub fn init(target: &'static str, property: &'static str, seeds: fn() -> Vec<(String, Vec<u8>)>) {
    vf_core::install_panic_hook();
    if let Ok(dir) = std::env::var("VF_FUZZ_GEN_SEEDS") {
        let dir = PathBuf::from(dir);
        let _ = std::fs::create_dir_all(&dir);
        let mut seen = HashSet::new();
        let mut n = 0usize;
        for (name, bytes) in seeds() {
            if !seen.insert(fnv64(&bytes)) {
                continue;
            }
            let clean: String = name.chars().map(|c| if c.is_ascii_alphanumeric() || c == '-' || c == '.' || c == '_' { c } else { '_' }).take(80).collect();
            let p = dir.join(format!("seed-{:04}-{}", n, clean));
            if std::fs::write(&p, &bytes).is_ok() {
                n += 1;
            }
        }
        eprintln!("vf-fuzz: {} wrote {} seed inputs to {}", target, n, dir.display());
        std::process::exit(if n > 0 { 0 } else { 2 });
    }
    let known_open = vf_core::load_known_findings_for(Some(property))
        .into_iter()
        .filter(|k| k.status == "open" && k.property == property)
        .map(|k| k.signature)
        .collect();
    let _ = STATE.set(State {
        target,
        property,
        known_open,
        side: std::env::var("VF_FUZZ_SIDE_LOG").ok().map(PathBuf::from),
        seen: Mutex::new(HashSet::new()),
        stats: Mutex::new((0, BTreeMap::new())),
    });
    // SAFETY: registering a plain callback with the C runtime.
    unsafe {
        atexit(flush_at_exit);
    }
}

fn side(line: &str) {
    if let Some(p) = &state().side {
        if let Ok(mut f) = std::fs::OpenOptions::new().create(true).append(true).open(p) {
            let mut l = line.replace('\n', " ");
            l.push('\n');
            let _ = f.write_all(l.as_bytes());
        }
    }
}

fn once(key: String) -> bool {
    match state().seen.lock() {
        Ok(mut s) => s.insert(key),
        Err(e) => e.into_inner().insert(key),
    }
}

/// Hex id of an input (fnv64 of its bytes): the input identity in signatures.
pub fn input_id(data: &[u8]) -> String {
    format!("{:016x}", fnv64(data))
}

pub fn target() -> &'static str {
    state().target
}

/// A refuting observation. Does not return unless the signature is a known open finding.
pub fn violation(signature: &str, detail: &str) {
    let st = state();
    if st.known_open.contains(signature) {
        if once(format!("K{}", signature)) {
            side(&format!("KNOWN\t{}", signature));
        }
        return;
    }
    flush_stats();
    eprintln!("VF-VIOLATION: {}", signature);
    eprintln!("VF-DETAIL: property={} target={} {}", st.property, st.target, detail);
    std::process::abort();
}

/// Judge a caught panic under the Totality policy of a strict (debug-assertions) build.
pub fn judge_panic(p: &PanicInfo, what: &str) {
    if !p.in_repo() {
        flush_stats();
        eprintln!("VF-HARNESS-PANIC: {}:{} [{}] {} (in {})", p.file, p.line, p.class.as_str(), p.msg, what);
        std::process::abort();
    }
    stat("library_panics_caught", 1);
    if cfg!(debug_assertions) && p.class.is_strict_only() {
        if once(format!("S{}", p.signature())) {
            side(&format!("STRICT\t{}\t{} (in {})", p.signature(), p.msg, what));
        }
        return;
    }
    violation(&p.signature(), &format!("panic {}:{} [{}] {} (in {})", p.file, p.line, p.class.as_str(), p.msg, what));
}

/// Run the body of a target: a panic that escapes every guarded section is judged too.
pub fn run_target(f: impl FnOnce()) {
    if let Err(p) = vf_core::guard(f) {
        judge_panic(&p, "fuzz target body (unguarded section)");
    }
    tick();
}

#[inline]
pub fn stat(key: &'static str, n: u64) {
    let mut g = match state().stats.lock() {
        Ok(g) => g,
        Err(e) => e.into_inner(),
    };
    *g.1.entry(key).or_insert(0) += n;
}

fn tick() {
    let flush = {
        let mut g = match state().stats.lock() {
            Ok(g) => g,
            Err(e) => e.into_inner(),
        };
        g.0 += 1;
        *g.1.entry("inputs_executed").or_insert(0) += 1;
        g.0 % 2048 == 0
    };
    if flush {
        flush_stats();
    }
}

pub fn flush_stats() {
    let Some(st) = STATE.get() else { return };
    let m = {
        let mut g = match st.stats.lock() {
            Ok(g) => g,
            Err(e) => e.into_inner(),
        };
        std::mem::take(&mut g.1)
    };
    if m.is_empty() {
        return;
    }
    let body: Vec<String> = m.iter().map(|(k, v)| format!("\"{}\":{}", k, v)).collect();
    side(&format!("STATS\t{{{}}}", body.join(",")));
}

/// Fonts of font-test-data (VF_REPO_DIR respected) of at most `max_len` bytes.
pub fn small_fonts(max_len: usize) -> Vec<(String, Vec<u8>)> {
    vf_core::test_data_fonts().into_iter().filter(|f| f.data.len() <= max_len).map(|f| (f.name.clone(), f.data.to_vec())).collect()
}
