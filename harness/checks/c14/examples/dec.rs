use read_fonts::collections::IntSet;
fn main() {
    let a: Vec<String> = std::env::args().collect();
    let hexs = &a[1];
    let bias: u32 = a.get(2).map(|s| s.parse().unwrap()).unwrap_or(0);
    let max: u32 = a.get(3).map(|s| s.parse().unwrap()).unwrap_or(u32::MAX);
    let data: Vec<u8> = (0..hexs.len() / 2).map(|i| u8::from_str_radix(&hexs[2 * i..2 * i + 2], 16).unwrap()).collect();
    let t = std::time::Instant::now();
    let r = vf_c14::codec::ref_decode(&data, bias, max);
    match &r {
        vf_c14::codec::RefOut::Ok { members, consumed, nodes } => println!("ref: ok len={} ranges={} consumed={} nodes={} first={:?}", members.len(), members.0.len(), consumed, nodes, &members.0[..members.0.len().min(6)]),
        _ => println!("ref: invalid"),
    }
    println!("ref time {:?}", t.elapsed());
    let t = std::time::Instant::now();
    let r = IntSet::<u32>::from_sparse_bit_set_bounded(&data, bias, max);
    println!("lib time {:?}", t.elapsed());
    match r {
        Ok((s, rest)) => println!("lib: ok len={} rest={}", s.len(), rest.len()),
        Err(_) => println!("lib: err"),
    }
}
