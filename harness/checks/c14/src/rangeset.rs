//! `RangeSet<T>`: sorted / disjoint / non-adjacent invariant, exact membership
//! and exact intersections against the interval model, for u32, u16 and Fixed.

use crate::hist::Tally;
use crate::model::Iv;
use font_types::Fixed;
use read_fonts::collections::RangeSet;
use serde_json::json;
use std::collections::HashSet;
use vf_core::{guard, Ctx, Digest, Rng};

/// Order-preserving map of the element type into u32 (the model's space);
/// adjacency in the type must equal adjacency (+1) in the mapped space.
pub trait RElem: Copy + Ord + std::fmt::Debug + Default + 'static {
    const NAME: &'static str;
    fn mk(v: u32) -> Self;
    fn key(self) -> u32;
    /// mapped values used by the generators (must all be valid for `mk`)
    fn max_key() -> u32;
}

impl RElem for u32 {
    const NAME: &'static str = "u32";
    fn mk(v: u32) -> Self {
        v
    }
    fn key(self) -> u32 {
        self
    }
    fn max_key() -> u32 {
        u32::MAX
    }
}
impl RElem for u16 {
    const NAME: &'static str = "u16";
    fn mk(v: u32) -> Self {
        v as u16
    }
    fn key(self) -> u32 {
        self as u32
    }
    fn max_key() -> u32 {
        0xFFFF
    }
}
impl RElem for Fixed {
    const NAME: &'static str = "Fixed";
    fn mk(v: u32) -> Self {
        Fixed::from_bits((v ^ 0x8000_0000) as i32)
    }
    fn key(self) -> u32 {
        (self.to_bits() as u32) ^ 0x8000_0000
    }
    fn max_key() -> u32 {
        u32::MAX
    }
}

pub struct RsRunner {
    pub tally: Tally,
    pub violations: u32,
    pub nt_seen: HashSet<u64>,
}

fn collect<T: RElem>(it: impl Iterator<Item = std::ops::RangeInclusive<T>>, cap: usize) -> Vec<(u32, u32)> {
    it.take(cap).map(|r| (r.start().key(), r.end().key())).collect()
}

/// The structural invariant, checked on the raw output (independently of the model).
fn invariant(v: &[(u32, u32)]) -> Option<&'static str> {
    for (i, (lo, hi)) in v.iter().enumerate() {
        if lo > hi {
            return Some("range with end < start");
        }
        if i > 0 {
            let prev = v[i - 1];
            if prev.0 >= *lo {
                return Some("not sorted");
            }
            if prev.1 >= *lo {
                return Some("not disjoint");
            }
            if prev.1 as u64 + 1 == *lo as u64 {
                return Some("adjacent ranges not merged");
            }
        }
    }
    None
}

impl RsRunner {
    pub fn new() -> Self {
        RsRunner { tally: Tally::default(), violations: 0, nt_seen: HashSet::new() }
    }

    /// one history: a sequence of inserts into two sets; after every insert all observers.
    pub fn history<T: RElem>(&mut self, ctx: &mut Ctx, ops: &[(bool, u32, u32)], sig: &dyn Fn() -> String)
    where
        RangeSet<T>: Default + Clone + PartialEq,
        T: ReadOrd,
    {
        let mut sets: [RangeSet<T>; 2] = [Default::default(), Default::default()];
        let mut models = [Iv::new(), Iv::new()];
        for (step, (which, lo, hi)) in ops.iter().enumerate() {
            ctx.eval();
            let w = *which as usize;
            self.tally.add("rangeset:insert", 1);
            if lo > hi {
                self.tally.add("rangeset:insert_malformed", 1);
            }
            models[w] = models[w].union(&Iv::from_range(*lo, *hi));
            let cap = models[0].0.len() + models[1].0.len() + 4;
            let res = guard(|| {
                T::insert_into(&mut sets[w], T::mk(*lo), T::mk(*hi));
                let ranges = [collect(T::iter(&sets[0]), cap), collect(T::iter(&sets[1]), cap)];
                let inter = [collect(T::intersection(&sets[0], &sets[1]), cap), collect(T::intersection(&sets[1], &sets[0]), cap)];
                let empties = [T::is_empty(&sets[0]), T::is_empty(&sets[1])];
                let eq = sets[0] == sets[1];
                // from_iter / extend / clone must give the same set
                let rebuilt = T::from_ranges(&ranges[w]);
                let same = rebuilt == sets[w] && sets[w].clone() == sets[w];
                (ranges, inter, empties, eq, same)
            });
            let fail = |s: &mut Self, ctx: &mut Ctx, what: &str, detail: serde_json::Value| {
                s.violations += 1;
                ctx.violation(
                    &format!("rangeset:{}:{}:step{}:{}", T::NAME, sig(), step, what),
                    json!({"type": T::NAME, "what": what, "ops(set,lo,hi)": ops[..=step].iter().collect::<Vec<_>>(), "detail": detail,
                           "note": "values are order-preserving u32 keys (Fixed: bits ^ 0x80000000)"}),
                    None,
                );
            };
            let (ranges, inter, empties, eq, same) = match res {
                Ok(x) => x,
                Err(p) => {
                    self.violations += 1;
                    ctx.judge_panic(&p, &format!("RangeSet<{}> insert ({})", T::NAME, sig()), json!({"ops": ops[..=step].iter().collect::<Vec<_>>()}), None);
                    return;
                }
            };
            for i in 0..2 {
                if let Some(why) = invariant(&ranges[i]) {
                    fail(self, ctx, "invariant", json!({"why": why, "ranges": ranges[i]}));
                    return;
                }
                if ranges[i] != models[i].0 {
                    fail(self, ctx, "membership", json!({"got": ranges[i], "expected": models[i].0}));
                    return;
                }
                if empties[i] != models[i].is_empty() {
                    fail(self, ctx, "is_empty", json!({"got": empties[i]}));
                    return;
                }
            }
            let exp = models[0].intersect(&models[1]);
            for i in 0..2 {
                self.tally.add("rangeset:intersection", 1);
                if let Some(why) = invariant(&inter[i]) {
                    fail(self, ctx, "intersection_invariant", json!({"why": why, "ranges": inter[i]}));
                    return;
                }
                if inter[i] != exp.0 {
                    fail(self, ctx, "intersection", json!({"got": inter[i], "expected": exp.0, "a": ranges[0], "b": ranges[1]}));
                    return;
                }
            }
            if !exp.is_empty() {
                self.tally.add("rangeset:intersection_nonempty", 1);
            }
            if eq != (models[0] == models[1]) {
                fail(self, ctx, "eq", json!({"got": eq}));
                return;
            }
            if !same {
                fail(self, ctx, "rebuild", json!({"what": "from_iter/extend/clone of the ranges gives a different set"}));
                return;
            }
            if self.nt_seen.len() < 30_000 && models[w].0.len() >= 1 {
                let mut d = Digest::new();
                d.str("rs");
                d.str(T::NAME);
                for m in &models {
                    for (a, b) in &m.0 {
                        d.u32(*a);
                        d.u32(*b);
                    }
                    d.u32(0xFFFF_FFFF);
                }
                let h = d.finish();
                if self.nt_seen.insert(h) {
                    ctx.nontrivial(h);
                }
            }
        }
    }
}

/// `RangeSet`'s methods are bounded on a trait (`OrdAdjacency`) that is not
/// nameable from outside the crate; dispatch per concrete type instead.
pub trait ReadOrd: RElem {
    fn insert_into(s: &mut RangeSet<Self>, lo: Self, hi: Self);
    fn iter(s: &RangeSet<Self>) -> Box<dyn Iterator<Item = std::ops::RangeInclusive<Self>> + '_>;
    fn intersection<'a>(a: &'a RangeSet<Self>, b: &'a RangeSet<Self>) -> Box<dyn Iterator<Item = std::ops::RangeInclusive<Self>> + 'a>;
    fn is_empty(s: &RangeSet<Self>) -> bool;
    fn from_ranges(r: &[(u32, u32)]) -> RangeSet<Self>;
}

macro_rules! read_ord {
    ($t:ty) => {
        impl ReadOrd for $t {
            fn insert_into(s: &mut RangeSet<Self>, lo: Self, hi: Self) {
                s.insert(lo..=hi)
            }
            fn iter(s: &RangeSet<Self>) -> Box<dyn Iterator<Item = std::ops::RangeInclusive<Self>> + '_> {
                Box::new(s.iter())
            }
            fn intersection<'a>(a: &'a RangeSet<Self>, b: &'a RangeSet<Self>) -> Box<dyn Iterator<Item = std::ops::RangeInclusive<Self>> + 'a> {
                Box::new(a.intersection(b))
            }
            fn is_empty(s: &RangeSet<Self>) -> bool {
                s.is_empty()
            }
            fn from_ranges(r: &[(u32, u32)]) -> RangeSet<Self> {
                // first half through FromIterator (reversed order), second half through Extend
                let half = r.len() / 2;
                let mut s: RangeSet<Self> = r[..half].iter().rev().map(|(a, b)| <$t as RElem>::mk(*a)..=<$t as RElem>::mk(*b)).collect();
                s.extend(r[half..].iter().map(|(a, b)| <$t as RElem>::mk(*a)..=<$t as RElem>::mk(*b)));
                s
            }
        }
    };
}
read_ord!(u32);
read_ord!(u16);
read_ord!(Fixed);

fn gen_key<T: RElem>(rng: &mut Rng, bases: &[u32]) -> u32 {
    let max = T::max_key();
    let v = match rng.below(10) {
        0 => rng.below(4) as u32,
        1 => max - rng.below(4) as u32,
        2 => (max / 2).wrapping_add(rng.range(-3, 3) as u32),
        3..=8 => bases[rng.usize(bases.len())].saturating_add(rng.below(40) as u32),
        _ => rng.u32(),
    };
    v.min(max)
}

pub fn random<T: ReadOrd>(rs: &mut RsRunner, ctx: &mut Ctx, histories: usize, steps: usize)
where
    RangeSet<T>: Default + Clone + PartialEq,
{
    for h in 0..histories {
        if !ctx.mine(h) || rs.violations >= 10 {
            continue;
        }
        let mut rng = Rng::derive(ctx.seed, &format!("c14-rangeset-{}", T::NAME), h as u64);
        let bases = [gen_key::<T>(&mut rng, &[0]).min(T::max_key() - 64), rng.below(30) as u32, T::max_key() - 45];
        let ops: Vec<(bool, u32, u32)> = (0..steps)
            .map(|_| {
                let lo = gen_key::<T>(&mut rng, &bases);
                let w = match rng.below(4) {
                    0 => 0,
                    1 => rng.below(3),
                    2 => rng.below(12),
                    _ => rng.below(60),
                } as u32;
                let hi = lo.saturating_add(w).min(T::max_key());
                let which = rng.chance(2, 3);
                if rng.chance(1, 20) && lo != hi {
                    (which, hi, lo)
                } else {
                    (which, lo, hi)
                }
            })
            .collect();
        let seed = ctx.seed;
        rs.history::<T>(ctx, &ops, &|| format!("rnd:seed{}:h{}", seed, h));
        rs.tally.add("rangeset:histories", 1);
    }
}

/// Every sequence of up to three inserts of sub-ranges of 0..=6 (plus one
/// malformed range) into set A, with B fixed to one of 8 pool sets.
pub fn exhaustive<T: ReadOrd>(rs: &mut RsRunner, ctx: &mut Ctx, offset: u32)
where
    RangeSet<T>: Default + Clone + PartialEq,
{
    let mut ranges: Vec<(u32, u32)> = vec![];
    for lo in 0..7u32 {
        for hi in lo..7 {
            ranges.push((offset + lo, offset + hi));
        }
    }
    ranges.push((offset + 4, offset + 2)); // malformed
    let pool: [&[(u32, u32)]; 4] = [&[], &[(0, 6)], &[(1, 1), (3, 4)], &[(0, 0), (2, 2), (5, 6)]];
    let n = ranges.len();
    let mut idx = 0usize;
    for i in 0..n {
        for j in 0..n {
            for k in 0..n {
                idx += 1;
                if !ctx.mine(idx) || rs.violations >= 10 {
                    continue;
                }
                let pl = pool[idx % pool.len()];
                let mut ops: Vec<(bool, u32, u32)> = pl.iter().map(|(a, b)| (false, offset + a, offset + b)).collect();
                for r in [ranges[i], ranges[j], ranges[k]] {
                    ops.push((true, r.0, r.1));
                }
                rs.history::<T>(ctx, &ops, &|| format!("ex:off{}:{}-{}-{}", offset, i, j, k));
            }
        }
    }
    ctx.count(&format!("rangeset:exhaustive_sequences:{}", T::NAME), (n * n * n) as u64);
}
