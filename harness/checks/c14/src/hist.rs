//! Operation histories over `IntSet<T>` compared against the models after
//! every operation with every observer.

use crate::domains::Elem;
use crate::model::{Iv, Naive};
use read_fonts::collections::IntSet;
use serde_json::{json, Value};
use std::cmp::Ordering;
use std::collections::hash_map::DefaultHasher;
use std::collections::{HashSet, VecDeque};
use std::hash::{Hash, Hasher};
use vf_core::{guard, Ctx, Digest, Rng};

#[derive(Clone, Debug, PartialEq)]
pub enum Op {
    Insert(u32),
    Remove(u32),
    InsertRange(u32, u32),
    RemoveRange(u32, u32),
    Extend(Vec<u32>),
    ExtendUnsorted(Vec<u32>),
    RemoveAll(Vec<u32>),
    Union,
    Intersect,
    Subtract,
    Invert,
    Clear,
    Swap,
    FromIter(Vec<u32>),
    FromArray([u32; 3]),
    CloneFromB,
}

impl Op {
    pub fn kind(&self) -> &'static str {
        match self {
            Op::Insert(_) => "insert",
            Op::Remove(_) => "remove",
            Op::InsertRange(..) => "insert_range",
            Op::RemoveRange(..) => "remove_range",
            Op::Extend(_) => "extend",
            Op::ExtendUnsorted(_) => "extend_unsorted",
            Op::RemoveAll(_) => "remove_all",
            Op::Union => "union",
            Op::Intersect => "intersect",
            Op::Subtract => "subtract",
            Op::Invert => "invert",
            Op::Clear => "clear",
            Op::Swap => "swap",
            Op::FromIter(_) => "from_iter",
            Op::FromArray(_) => "from_array",
            Op::CloneFromB => "clone",
        }
    }
    pub fn code(&self) -> String {
        fn l(v: &[u32]) -> String {
            v.iter().map(|x| x.to_string()).collect::<Vec<_>>().join(",")
        }
        match self {
            Op::Insert(v) => format!("i{}", v),
            Op::Remove(v) => format!("r{}", v),
            Op::InsertRange(a, b) => format!("I{}-{}", a, b),
            Op::RemoveRange(a, b) => format!("R{}-{}", a, b),
            Op::Extend(v) => format!("e[{}]", l(v)),
            Op::ExtendUnsorted(v) => format!("eu[{}]", l(v)),
            Op::RemoveAll(v) => format!("ra[{}]", l(v)),
            Op::Union => "U".into(),
            Op::Intersect => "N".into(),
            Op::Subtract => "S".into(),
            Op::Invert => "V".into(),
            Op::Clear => "C".into(),
            Op::Swap => "W".into(),
            Op::FromIter(v) => format!("fi[{}]", l(v)),
            Op::FromArray(v) => format!("fa[{}]", l(v)),
            Op::CloneFromB => "cb".into(),
        }
    }
}

pub struct Pair<T: Elem> {
    pub a: IntSet<T>,
    pub b: IntSet<T>,
    pub ma: Iv,
    pub mb: Iv,
    /// brute-force models (small domains only)
    pub na: Option<Naive>,
    pub nb: Option<Naive>,
}

impl<T: Elem> Clone for Pair<T> {
    fn clone(&self) -> Self {
        Pair {
            a: self.a.clone(),
            b: self.b.clone(),
            ma: self.ma.clone(),
            mb: self.mb.clone(),
            na: self.na.clone(),
            nb: self.nb.clone(),
        }
    }
}

pub struct Dom {
    pub u: Iv,
    /// every domain value (small domains only)
    pub all: Option<Vec<u32>>,
    pub bounds: Vec<u32>,
}

impl Dom {
    pub fn of<T: Elem>() -> Dom {
        let u = Iv::from_intervals(T::universe());
        let all = if u.len() <= 2048 { Some(u.iter().collect()) } else { None };
        Dom { u, all, bounds: T::boundary_values() }
    }
    /// Smallest domain value >= v, else the largest domain value.
    pub fn snap_up(&self, v: u32) -> u32 {
        let i = self.u.0.partition_point(|r| r.1 < v);
        match self.u.0.get(i) {
            Some(r) => r.0.max(v),
            None => self.u.last().unwrap_or(0),
        }
    }
    /// Largest domain value <= v, else the smallest domain value.
    pub fn snap_down(&self, v: u32) -> u32 {
        let i = self.u.0.partition_point(|r| r.0 <= v);
        if i == 0 {
            return self.u.first().unwrap_or(0);
        }
        let r = self.u.0[i - 1];
        r.1.min(v)
    }
}

pub fn start_pair<T: Elem>(dom: &Dom, a_inverted: bool, b_seed: &[u32]) -> Pair<T> {
    let small = dom.all.is_some();
    let seed = Iv::from_points(b_seed.iter().copied());
    if a_inverted {
        // A = everything (inverted), B = inclusive {seed}
        let b: IntSet<T> = b_seed.iter().map(|v| T::mk(*v)).collect();
        Pair {
            a: IntSet::all(),
            b,
            ma: dom.u.clone(),
            mb: seed.clone(),
            na: small.then(|| Naive::all(dom.all.as_ref().unwrap())),
            nb: small.then(|| Naive { members: seed.iter().collect() }),
        }
    } else {
        // A = empty (inclusive), B = everything but {seed} (inverted)
        let mut b: IntSet<T> = IntSet::all();
        for v in b_seed {
            b.remove(T::mk(*v));
        }
        let mb = dom.u.subtract(&seed);
        Pair {
            a: IntSet::empty(),
            b,
            ma: Iv::new(),
            nb: small.then(|| Naive { members: mb.iter().collect() }),
            mb,
            na: small.then(Naive::new),
        }
    }
}

/// Apply to the library sets. Returns the bool returned by insert/remove.
pub fn apply_lib<T: Elem>(op: &Op, a: &mut IntSet<T>, b: &mut IntSet<T>) -> Option<bool> {
    match op {
        Op::Insert(v) => return Some(a.insert(T::mk(*v))),
        Op::Remove(v) => return Some(a.remove(T::mk(*v))),
        Op::InsertRange(lo, hi) => a.insert_range(T::mk(*lo)..=T::mk(*hi)),
        Op::RemoveRange(lo, hi) => a.remove_range(T::mk(*lo)..=T::mk(*hi)),
        Op::Extend(v) => a.extend(v.iter().map(|x| T::mk(*x))),
        Op::ExtendUnsorted(v) => a.extend_unsorted(v.iter().map(|x| T::mk(*x))),
        Op::RemoveAll(v) => a.remove_all(v.iter().map(|x| T::mk(*x))),
        Op::Union => a.union(b),
        Op::Intersect => a.intersect(b),
        Op::Subtract => a.subtract(b),
        Op::Invert => a.invert(),
        Op::Clear => a.clear(),
        Op::Swap => std::mem::swap(a, b),
        Op::FromIter(v) => *a = v.iter().map(|x| T::mk(*x)).collect(),
        Op::FromArray(v) => *a = IntSet::from([T::mk(v[0]), T::mk(v[1]), T::mk(v[2])]),
        Op::CloneFromB => *a = b.clone(),
    }
    None
}

pub fn apply_model(op: &Op, dom: &Dom, ma: &mut Iv, mb: &mut Iv) -> Option<bool> {
    match op {
        Op::Insert(v) => {
            let had = ma.contains(*v);
            *ma = ma.union(&Iv::from_range(*v, *v));
            return Some(!had);
        }
        Op::Remove(v) => {
            let had = ma.contains(*v);
            *ma = ma.subtract(&Iv::from_range(*v, *v));
            return Some(had);
        }
        Op::InsertRange(lo, hi) => *ma = ma.union(&Iv::from_range(*lo, *hi).intersect(&dom.u)),
        Op::RemoveRange(lo, hi) => *ma = ma.subtract(&Iv::from_range(*lo, *hi)),
        Op::Extend(v) | Op::ExtendUnsorted(v) => *ma = ma.union(&Iv::from_points(v.iter().copied())),
        Op::RemoveAll(v) => *ma = ma.subtract(&Iv::from_points(v.iter().copied())),
        Op::Union => *ma = ma.union(mb),
        Op::Intersect => *ma = ma.intersect(mb),
        Op::Subtract => *ma = ma.subtract(mb),
        Op::Invert => *ma = dom.u.subtract(ma),
        Op::Clear => *ma = Iv::new(),
        Op::Swap => std::mem::swap(ma, mb),
        Op::FromIter(v) => *ma = Iv::from_points(v.iter().copied()),
        Op::FromArray(v) => *ma = Iv::from_points(v.iter().copied()),
        Op::CloneFromB => *ma = mb.clone(),
    }
    None
}

pub fn apply_naive(op: &Op, all: &[u32], na: &mut Naive, nb: &mut Naive) {
    match op {
        Op::Insert(v) => {
            na.members.insert(*v);
        }
        Op::Remove(v) => {
            na.members.remove(v);
        }
        Op::InsertRange(lo, hi) => na.insert_range(all, *lo, *hi),
        Op::RemoveRange(lo, hi) => na.remove_range(*lo, *hi),
        Op::Extend(v) | Op::ExtendUnsorted(v) => na.members.extend(v.iter().copied()),
        Op::RemoveAll(v) => {
            for x in v {
                na.members.remove(x);
            }
        }
        Op::Union => na.members = &na.members | &nb.members,
        Op::Intersect => na.members = &na.members & &nb.members,
        Op::Subtract => na.members = &na.members - &nb.members,
        Op::Invert => na.invert(all),
        Op::Clear => na.members.clear(),
        Op::Swap => std::mem::swap(na, nb),
        Op::FromIter(v) => na.members = v.iter().copied().collect(),
        Op::FromArray(v) => na.members = v.iter().copied().collect(),
        Op::CloneFromB => na.members = nb.members.clone(),
    }
}

#[derive(Clone, Copy)]
pub struct Limits {
    /// iterate all elements when the model has at most this many
    pub elems_full: u64,
    /// otherwise compare this many from each end / after each probe
    pub window: usize,
    pub after_window: usize,
    pub ranges_full: usize,
    /// build canonical sets of the other representation when the stored side has at most this many values
    pub rebuild_max: u64,
}

#[derive(Debug)]
pub struct Fail {
    pub observer: &'static str,
    pub detail: Value,
}

fn fail<R>(observer: &'static str, detail: Value) -> Result<R, Fail> {
    Err(Fail { observer, detail })
}

fn hash_of<T: Hash>(t: &T) -> u64 {
    let mut h = DefaultHasher::new();
    t.hash(&mut h);
    h.finish()
}

/// Local event counters (flushed into the Ctx at the end of a section).
#[derive(Default)]
pub struct Tally {
    pub m: Vec<(&'static str, u64)>,
}
impl Tally {
    #[inline]
    pub fn add(&mut self, k: &'static str, n: u64) {
        for e in self.m.iter_mut() {
            if std::ptr::eq(e.0.as_ptr(), k.as_ptr()) && e.0.len() == k.len() {
                e.1 += n;
                return;
            }
        }
        self.m.push((k, n));
    }
    pub fn flush(&mut self, ctx: &mut Ctx, prefix: &str) {
        let mut keys: Vec<_> = self.m.drain(..).collect();
        keys.sort();
        for (k, v) in keys {
            ctx.count(&format!("{}{}", prefix, k), v);
        }
    }
}

/// Every observer of one set against its model.
pub fn check_set<T: Elem>(
    s: &IntSet<T>,
    m: &Iv,
    dom: &Dom,
    probes: &[u32],
    lim: &Limits,
    salt: u64,
    t: &mut Tally,
) -> Result<(), Fail> {
    let raw = |x: T| x.raw();
    let exp_len = m.len();
    let got_len = s.len();
    t.add("obs:len", 1);
    if got_len != exp_len {
        return fail("len", json!({"got": got_len, "expected": exp_len}));
    }
    if s.is_empty() != (exp_len == 0) {
        return fail("is_empty", json!({"got": s.is_empty(), "expected_len": exp_len}));
    }
    t.add("obs:first_last", 1);
    let (f, l) = (s.first().map(raw), s.last().map(raw));
    if f != m.first() {
        return fail("first", json!({"got": f, "expected": m.first()}));
    }
    if l != m.last() {
        return fail("last", json!({"got": l, "expected": m.last()}));
    }
    for v in probes {
        t.add("obs:contains", 1);
        let g = s.contains(T::mk(*v));
        if g != m.contains(*v) {
            return fail("contains", json!({"value": v, "got": g}));
        }
    }
    let full = exp_len <= lim.elems_full;
    let kk = if full { exp_len as usize + 2 } else { lim.window };
    // forward
    t.add(if full { "obs:iter_full" } else { "obs:iter_window" }, 1);
    let got: Vec<u32> = s.iter().take(kk).map(raw).collect();
    let exp: Vec<u32> = m.iter().take(kk).collect();
    if got != exp {
        return fail("iter", json!({"got": trunc(&got), "expected": trunc(&exp)}));
    }
    // backward
    let got: Vec<u32> = s.iter().rev().take(kk).map(raw).collect();
    let exp: Vec<u32> = m.iter().rev().take(kk).collect();
    if got != exp {
        return fail("iter_rev", json!({"got": trunc(&got), "expected": trunc(&exp)}));
    }
    // both ends interleaved
    if exp_len <= 40 {
        t.add("obs:iter_both_ends", 1);
        let mut it = s.iter();
        let mut model: VecDeque<u32> = m.iter().collect();
        let mut step = 0u32;
        loop {
            let from_front = matches!(step % 3, 0);
            let (g, e) = if from_front {
                (it.next().map(raw), model.pop_front())
            } else {
                (it.next_back().map(raw), model.pop_back())
            };
            if g != e {
                return fail("iter_both_ends", json!({"step": step, "front": from_front, "got": g, "expected": e}));
            }
            if g.is_none() {
                // exhausted: the other end must be exhausted too
                let g2 = if from_front { it.next_back().map(raw) } else { it.next().map(raw) };
                if g2.is_some() {
                    return fail("iter_both_ends", json!({"step": step, "after_end": g2}));
                }
                break;
            }
            step += 1;
            if step > 100 {
                break;
            }
        }
    }
    // inclusive_iter
    t.add("obs:inclusive_iter", 1);
    match s.inclusive_iter() {
        Some(it) => {
            if s.is_inverted() {
                return fail("inclusive_iter", json!({"what": "Some on inverted set"}));
            }
            let got: Vec<u32> = it.take(kk).map(raw).collect();
            let exp: Vec<u32> = m.iter().take(kk).collect();
            if got != exp {
                return fail("inclusive_iter", json!({"got": trunc(&got), "expected": trunc(&exp)}));
            }
        }
        None => {
            if !s.is_inverted() {
                return fail("inclusive_iter", json!({"what": "None on inclusive set"}));
            }
        }
    }
    // iter_after
    let aw = if full { (exp_len as usize + 2).min(lim.after_window) } else { lim.after_window.min(lim.window) };
    for v in probes {
        t.add("obs:iter_after", 1);
        let got: Vec<u32> = s.iter_after(T::mk(*v)).take(aw).map(raw).collect();
        let exp: Vec<u32> = m.after(*v).take(aw).collect();
        if got != exp {
            return fail("iter_after", json!({"after": v, "got": trunc(&got), "expected": trunc(&exp)}));
        }
    }
    // ranges
    let exp = m.domain_ranges(&dom.u);
    let rfull = exp.len() <= lim.ranges_full;
    let rk = if rfull { exp.len() + 2 } else { lim.window };
    t.add(if rfull { "obs:iter_ranges_full" } else { "obs:iter_ranges_window" }, 1);
    let got: Vec<(u32, u32)> = s.iter_ranges().take(rk).map(|r| (r.start().raw(), r.end().raw())).collect();
    let expk: Vec<(u32, u32)> = exp.iter().take(rk).copied().collect();
    if got != expk {
        return fail("iter_ranges", json!({"got": truncp(&got), "expected": truncp(&expk)}));
    }
    // excluded ranges
    let comp = dom.u.subtract(m);
    let exp = comp.domain_ranges(&dom.u);
    let rk = if exp.len() <= lim.ranges_full { exp.len() + 2 } else { lim.window };
    t.add("obs:iter_excluded_ranges", 1);
    let got: Vec<(u32, u32)> =
        s.iter_excluded_ranges().take(rk).map(|r| (r.start().raw(), r.end().raw())).collect();
    let expk: Vec<(u32, u32)> = exp.iter().take(rk).copied().collect();
    if got != expk {
        return fail("iter_excluded_ranges", json!({"got": truncp(&got), "expected": truncp(&expk)}));
    }
    // intersects_range
    let n = probes.len();
    for i in 0..n {
        for j in [(i + (salt as usize % 3)) % n, (i * 7 + 2 + salt as usize) % n] {
            let (lo, hi) = (probes[i], probes[j]);
            t.add("obs:intersects_range", 1);
            let g = s.intersects_range(T::mk(lo)..=T::mk(hi));
            let e = m.intersects_range(lo, hi);
            if g != e {
                return fail("intersects_range", json!({"lo": lo, "hi": hi, "got": g, "expected": e}));
            }
        }
    }
    Ok(())
}

fn trunc(v: &[u32]) -> Vec<u32> {
    v.iter().take(24).copied().collect()
}
fn truncp(v: &[(u32, u32)]) -> Vec<(u32, u32)> {
    v.iter().take(16).copied().collect()
}

fn ord_str(o: Ordering) -> &'static str {
    match o {
        Ordering::Less => "Less",
        Ordering::Equal => "Equal",
        Ordering::Greater => "Greater",
    }
}

/// Eq / Ord / Hash / intersects_set between the two sets.
pub fn check_rel<T: Elem>(a: &IntSet<T>, b: &IntSet<T>, ma: &Iv, mb: &Iv, t: &mut Tally) -> Result<(), Fail> {
    let exp_eq = ma == mb;
    t.add("obs:eq", 1);
    if (a == b) != exp_eq || (b == a) != exp_eq {
        return fail("eq", json!({"a_eq_b": a == b, "b_eq_a": b == a, "expected": exp_eq}));
    }
    if exp_eq {
        t.add("obs:eq_true", 1);
        if a.is_inverted() != b.is_inverted() {
            t.add("obs:eq_true_mixed_modes", 1);
        }
    }
    t.add("obs:cmp", 1);
    let exp = ma.lex_cmp(mb);
    let (g1, g2) = (a.cmp(b), b.cmp(a));
    if g1 != exp || g2 != exp.reverse() || a.partial_cmp(b) != Some(exp) {
        return fail("cmp", json!({"a_cmp_b": ord_str(g1), "b_cmp_a": ord_str(g2), "expected": ord_str(exp)}));
    }
    t.add("obs:hash", 1);
    if exp_eq && hash_of(a) != hash_of(b) {
        return fail("hash", json!({"what": "equal sets hash differently"}));
    }
    t.add("obs:intersects_set", 1);
    let exp = !ma.intersect(mb).is_empty();
    let (g1, g2) = (a.intersects_set(b), b.intersects_set(a));
    if g1 != exp || g2 != exp {
        return fail("intersects_set", json!({"a_b": g1, "b_a": g2, "expected": exp}));
    }
    Ok(())
}

/// Build the same mathematical set afresh in both representations (where the
/// stored side is small enough) and check Eq / Ord / Hash agreement with `s`.
pub fn check_canon<T: Elem>(s: &IntSet<T>, m: &Iv, dom: &Dom, lim: &Limits, variant: u64, t: &mut Tally) -> Result<(), Fail> {
    let mut built: Vec<(&'static str, IntSet<T>)> = vec![];
    let (v0, v1) = (variant & 1 == 0, variant & 2 == 0);
    if m.len() <= lim.rebuild_max && v0 {
        let c: IntSet<T> = m.iter().map(T::mk).collect();
        built.push(("inclusive_from_iter", c));
    }
    if m.len() <= lim.rebuild_max && !v0 {
        let mut c: IntSet<T> = IntSet::empty();
        for (lo, hi) in &m.0 {
            c.insert_range(T::mk(*lo)..=T::mk(*hi));
        }
        // leave an empty page behind
        if let Some(v) = dom.bounds.iter().find(|v| !m.contains(**v)) {
            c.insert(T::mk(*v));
            c.remove(T::mk(*v));
        }
        built.push(("inclusive_ranges_with_empty_page", c));
    }
    let comp = dom.u.subtract(m);
    if comp.len() <= lim.rebuild_max && v1 {
        let mut c: IntSet<T> = IntSet::all();
        for (lo, hi) in &comp.0 {
            c.remove_range(T::mk(*lo)..=T::mk(*hi));
        }
        built.push(("inverted_remove_ranges", c));
    }
    if comp.len() <= lim.rebuild_max && !v1 {
        let mut c: IntSet<T> = IntSet::empty();
        c.extend(comp.iter().map(T::mk));
        if let Some(v) = dom.bounds.iter().find(|v| !comp.contains(**v)) {
            c.insert(T::mk(*v));
            c.remove(T::mk(*v));
        }
        c.invert();
        built.push(("inverted_by_invert_with_empty_page", c));
    }
    let hs = hash_of(s);
    for (how, c) in &built {
        t.add("obs:canon_eq_hash_ord", 1);
        if c.is_inverted() != s.is_inverted() {
            t.add("obs:canon_mixed_modes", 1);
        }
        if c.len() != m.len() {
            return fail("canon_len", json!({"how": how, "got": c.len(), "expected": m.len()}));
        }
        if !(s == c) || !(c == s) {
            return fail("canon_eq", json!({"how": how, "s_inverted": s.is_inverted(), "c_inverted": c.is_inverted()}));
        }
        if hash_of(c) != hs {
            return fail("canon_hash", json!({"how": how, "s_inverted": s.is_inverted(), "c_inverted": c.is_inverted()}));
        }
        if s.cmp(c) != Ordering::Equal || c.cmp(s) != Ordering::Equal {
            return fail("canon_cmp", json!({"how": how, "s_cmp_c": ord_str(s.cmp(c))}));
        }
    }
    Ok(())
}

/// Harness self-check: interval model vs brute-force model.
pub fn models_agree(m: &Iv, n: &Naive, dom: &Dom) -> bool {
    let all = dom.all.as_ref().unwrap();
    m.iter().eq(n.members.iter().copied()) && m.domain_ranges(&dom.u) == n.ranges(all)
}

pub fn mode_str<T: Elem>(p: &Pair<T>) -> &'static str {
    match (p.a.is_inverted(), p.b.is_inverted()) {
        (false, false) => "II",
        (false, true) => "IE",
        (true, false) => "EI",
        (true, true) => "EE",
    }
}

pub struct StepOutcome {
    pub failed: bool,
}

pub struct Runner<'c> {
    pub ctx: &'c mut Ctx,
    pub tally: Tally,
    pub violations: u32,
    pub nt_seen: HashSet<u64>,
    pub nt_cap: usize,
    pub steps: u64,
    pub sampled: u32,
}

impl<'c> Runner<'c> {
    pub fn new(ctx: &'c mut Ctx) -> Self {
        Runner { ctx, tally: Tally::default(), violations: 0, nt_seen: HashSet::new(), nt_cap: 8_000, steps: 0, sampled: 0 }
    }

    pub fn give_up(&self) -> bool {
        self.violations >= 25
    }

    /// Apply one op to the pair (library + models), then run every observer.
    /// `sig_prefix` + observer forms the violation signature.
    #[allow(clippy::too_many_arguments)]
    pub fn step<T: Elem>(
        &mut self,
        p: &mut Pair<T>,
        dom: &Dom,
        op: &Op,
        probes: &[u32],
        lim: &Limits,
        canon: bool,
        sig_prefix: &dyn Fn() -> String,
        history: &dyn Fn() -> Value,
    ) -> StepOutcome {
        self.ctx.eval();
        let modes_before = mode_str(p);
        self.tally.add(op.kind_static_count(), 1);
        match op {
            Op::Union | Op::Intersect | Op::Subtract => {
                self.tally.add(mode_combo_key(op, modes_before), 1);
            }
            _ => {}
        }
        let before = p.ma.clone();
        let exp_ret = apply_model(op, dom, &mut p.ma, &mut p.mb);
        if let (Some(all), Some(na), Some(nb)) = (dom.all.as_ref(), p.na.as_mut(), p.nb.as_mut()) {
            apply_naive(op, all, na, nb);
            if !models_agree(&p.ma, na, dom) || (matches!(op, Op::Swap | Op::CloneFromB) && !models_agree(&p.mb, nb, dom)) {
                self.ctx.inconclusive(format!("model self-check failed at {} {}", sig_prefix(), op.code()));
                return StepOutcome { failed: true };
            }
            self.tally.add("model_selfcheck_vs_btreeset", 1);
        }
        let changed = before != p.ma;
        self.steps += 1;
        let salt = self.steps;
        let mut tally = std::mem::take(&mut self.tally);
        let (a, b, ma, mb) = (&mut p.a, &mut p.b, &p.ma, &p.mb);
        let res = guard(|| -> Result<(), Fail> {
            let ret = apply_lib(op, a, b);
            if ret != exp_ret {
                return fail("return_value", json!({"got": ret, "expected": exp_ret}));
            }
            check_set(a, ma, dom, probes, lim, salt, &mut tally)?;
            if matches!(op, Op::Swap | Op::CloneFromB) {
                check_set(b, mb, dom, probes, lim, salt, &mut tally)?;
            }
            check_rel(a, b, ma, mb, &mut tally)?;
            if canon {
                check_canon(a, ma, dom, lim, salt, &mut tally)?;
            }
            Ok(())
        });
        self.tally = tally;
        let modes_after = mode_str(p);
        self.tally.add(mode_after_key(modes_after), 1);
        // non-triviality: the op changed membership, or combined two sets, or flipped mode
        let nontrivial = changed
            || matches!(op, Op::Union | Op::Intersect | Op::Subtract | Op::Invert)
            || modes_before != modes_after;
        if nontrivial && self.nt_seen.len() < self.nt_cap {
            let mut d = Digest::new();
            d.str(T::NAME);
            d.str(op.kind());
            d.str(modes_before);
            d.str(modes_after);
            for (lo, hi) in p.ma.0.iter().take(64) {
                d.u32(*lo);
                d.u32(*hi);
            }
            d.u64(p.ma.len());
            let h = d.finish();
            if self.nt_seen.insert(h) {
                self.ctx.nontrivial(h);
            }
        }
        if changed && modes_before != "II" && matches!(op, Op::Union | Op::Intersect | Op::Subtract) && self.sampled < 3 && p.ma.0.len() >= 2 && matches!(res, Ok(Ok(()))) {
            self.sampled += 1;
            self.ctx.sample_by_kind(
                &format!("intset:{}:{}:{}", T::NAME, op.kind(), modes_before),
                json!({"history": history(), "modes_before(A,B)": modes_before, "modes_after(A,B)": modes_after, "A_len": p.ma.len(),
                       "A_ranges": truncp(&p.ma.0), "agreed": "every observer"}),
            );
        }
        match res {
            Ok(Ok(())) => StepOutcome { failed: false },
            Ok(Err(f)) => {
                self.violations += 1;
                let sig = format!("{}:{}:{}:{}", sig_prefix(), op.kind(), modes_before, f.observer);
                self.ctx.violation(
                    &sig,
                    json!({"domain": T::NAME, "observer": f.observer, "op": op.code(), "modes_before(A,B)": modes_before,
                           "modes_after(A,B)": modes_after, "observation": f.detail, "history": history(),
                           "model_A_ranges": truncp(&p.ma.0), "model_A_len": p.ma.len()}),
                    None,
                );
                StepOutcome { failed: true }
            }
            Err(pi) => {
                self.violations += 1;
                self.ctx.judge_panic(
                    &pi,
                    &format!("IntSet<{}> {} ({})", T::NAME, op.kind(), sig_prefix()),
                    json!({"domain": T::NAME, "op": op.code(), "modes_before(A,B)": modes_before, "history": history()}),
                    None,
                );
                StepOutcome { failed: true }
            }
        }
    }
}

impl Op {
    fn kind_static_count(&self) -> &'static str {
        match self {
            Op::Insert(_) => "op:insert",
            Op::Remove(_) => "op:remove",
            Op::InsertRange(..) => "op:insert_range",
            Op::RemoveRange(..) => "op:remove_range",
            Op::Extend(_) => "op:extend",
            Op::ExtendUnsorted(_) => "op:extend_unsorted",
            Op::RemoveAll(_) => "op:remove_all",
            Op::Union => "op:union",
            Op::Intersect => "op:intersect",
            Op::Subtract => "op:subtract",
            Op::Invert => "op:invert",
            Op::Clear => "op:clear",
            Op::Swap => "op:swap",
            Op::FromIter(_) => "op:from_iter",
            Op::FromArray(_) => "op:from_array",
            Op::CloneFromB => "op:clone",
        }
    }
}

fn mode_combo_key(op: &Op, modes: &'static str) -> &'static str {
    match (op, modes) {
        (Op::Union, "II") => "combo:union:II",
        (Op::Union, "IE") => "combo:union:IE",
        (Op::Union, "EI") => "combo:union:EI",
        (Op::Union, _) => "combo:union:EE",
        (Op::Intersect, "II") => "combo:intersect:II",
        (Op::Intersect, "IE") => "combo:intersect:IE",
        (Op::Intersect, "EI") => "combo:intersect:EI",
        (Op::Intersect, _) => "combo:intersect:EE",
        (_, "II") => "combo:subtract:II",
        (_, "IE") => "combo:subtract:IE",
        (_, "EI") => "combo:subtract:EI",
        (_, _) => "combo:subtract:EE",
    }
}

fn mode_after_key(m: &'static str) -> &'static str {
    match m {
        "II" => "state_modes:II",
        "IE" => "state_modes:IE",
        "EI" => "state_modes:EI",
        _ => "state_modes:EE",
    }
}

// ---------------------------------------------------------------- exhaustive

/// The operation alphabet of the exhaustive enumeration over ten operand values.
pub fn alphabet(v: &[u32; 10]) -> Vec<Op> {
    let mut ops = vec![];
    for x in v {
        ops.push(Op::Insert(*x));
    }
    for x in v {
        ops.push(Op::Remove(*x));
    }
    // (index pairs) ranges crossing / touching page edges, whole domain, single, reversed (empty)
    let pairs: [(usize, usize); 11] =
        [(0, 1), (1, 2), (2, 3), (3, 4), (2, 6), (0, 9), (4, 5), (5, 6), (6, 9), (3, 3), (7, 2)];
    for (i, j) in pairs {
        ops.push(Op::InsertRange(v[i], v[j]));
    }
    for (i, j) in pairs {
        ops.push(Op::RemoveRange(v[i], v[j]));
    }
    ops.push(Op::Union);
    ops.push(Op::Intersect);
    ops.push(Op::Subtract);
    ops.push(Op::Invert);
    ops.push(Op::Clear);
    ops.push(Op::Swap);
    ops.push(Op::Extend(vec![v[6], v[2], v[8]]));
    ops.push(Op::ExtendUnsorted(vec![v[9], v[0], v[4]]));
    ops.push(Op::RemoveAll(vec![v[5], v[3], v[0]]));
    ops.push(Op::FromIter(vec![v[4], v[1], v[9]]));
    ops
}

#[allow(clippy::too_many_arguments)]
pub fn exhaustive<T: Elem>(r: &mut Runner, operands: &[u32; 10], depth: usize, label: &str) {
    let dom = Dom::of::<T>();
    let ops = alphabet(operands);
    let n = ops.len();
    let small = dom.all.is_some() && dom.u.len() <= 64;
    let lim = if small {
        Limits { elems_full: 4096, window: 64, after_window: 64, ranges_full: 4096, rebuild_max: 4096 }
    } else {
        Limits { elems_full: 24, window: 6, after_window: 3, ranges_full: 64, rebuild_max: 24 }
    };
    // probes: operands and their in-domain neighbours
    let mut probes: Vec<u32> = operands.to_vec();
    if !small {
        for v in operands {
            for w in [v.wrapping_sub(1), v.wrapping_add(1)] {
                if T::contains(w) && dom.u.contains(w) {
                    probes.push(w);
                }
            }
        }
        probes.sort_unstable();
        probes.dedup();
    }
    let mut nodes = 0u64;
    for start_inverted in [false, true] {
        let start: Pair<T> = start_pair(&dom, start_inverted, &[operands[2], operands[5]]);
        let sname = if start_inverted { "inv" } else { "inc" };
        let mut stack: Vec<(Pair<T>, Vec<usize>)> = vec![(start, vec![])];
        while let Some((st, path)) = stack.pop() {
            if r.give_up() {
                break;
            }
            for (i, op) in ops.iter().enumerate() {
                let mut npath = path.clone();
                npath.push(i);
                // ownership: node (i0) -> shard of i0; node (i0,i1,..) -> shard of i0*n+i1
                let key = if npath.len() == 1 { npath[0] } else { npath[0] * n + npath[1] };
                let mine = r.ctx.mine(key);
                let mut p = st.clone();
                if !mine {
                    if npath.len() >= 2 {
                        continue;
                    }
                    // depth-1 node of another shard: advance state silently, our depth-2 children may hang below it
                    apply_model(op, &dom, &mut p.ma, &mut p.mb);
                    if let (Some(all), Some(na), Some(nb)) = (dom.all.as_ref(), p.na.as_mut(), p.nb.as_mut()) {
                        apply_naive(op, all, na, nb);
                    }
                    let (a, b) = (&mut p.a, &mut p.b);
                    if guard(|| apply_lib(op, a, b)).is_err() {
                        continue; // reported by the owning shard
                    }
                    if depth > 1 {
                        stack.push((p, npath));
                    }
                    continue;
                }
                nodes += 1;
                let codes = |pth: &Vec<usize>| pth.iter().map(|k| ops[*k].code()).collect::<Vec<_>>().join(" ");
                let np2 = npath.clone();
                let out = r.step(
                    &mut p,
                    &dom,
                    op,
                    &probes,
                    &lim,
                    true,
                    &|| format!("ex:{}:{}:{}", label, sname, codes(&np2)),
                    &|| json!({"start": sname, "ops": codes(&np2), "B_seed": [operands[2], operands[5]]}),
                );
                if !out.failed && npath.len() < depth {
                    stack.push((p, npath));
                }
            }
        }
    }
    r.ctx.count(&format!("exhaustive_nodes:{}", label), nodes);
    let mut t = std::mem::take(&mut r.tally);
    t.flush(r.ctx, &format!("{}:", label));
}

// ---------------------------------------------------------------- random histories

pub struct Gen<'d> {
    pub dom: &'d Dom,
    pub bases: Vec<u32>,
    pub wide: bool,
}

impl<'d> Gen<'d> {
    pub fn value(&self, rng: &mut Rng) -> u32 {
        let c = rng.below(100);
        let v = if c < 45 {
            let b = *rng.pick(&self.dom.bounds);
            let off = rng.range(-3, 3);
            (b as i64 + off).clamp(0, u32::MAX as i64) as u32
        } else if c < 80 {
            let b = *rng.pick(&self.bases);
            b.saturating_add(rng.below(1100) as u32)
        } else {
            rng.u32()
        };
        if rng.bool() {
            self.dom.snap_up(v)
        } else {
            self.dom.snap_down(v)
        }
    }
    pub fn range(&self, rng: &mut Rng) -> (u32, u32) {
        let lo = self.value(rng);
        let c = rng.below(100);
        let w = if c < 40 {
            rng.below(4)
        } else if c < 75 {
            rng.below(600)
        } else if c < 96 || !self.wide {
            rng.below(1600)
        } else {
            rng.below(70_000)
        } as u32;
        let mut hi = self.dom.snap_down(lo.saturating_add(w));
        if hi < lo {
            hi = lo;
        }
        if rng.chance(4, 100) {
            (hi, lo)
        } else {
            (lo, hi)
        }
    }
    pub fn list(&self, rng: &mut Rng, sorted: bool) -> Vec<u32> {
        let n = rng.usize(13);
        let mut v: Vec<u32> = (0..n).map(|_| self.value(rng)).collect();
        if sorted {
            v.sort_unstable();
        }
        v
    }
    pub fn op(&self, rng: &mut Rng) -> Op {
        let c = rng.below(100);
        match c {
            0..=19 => Op::Insert(self.value(rng)),
            20..=33 => Op::Remove(self.value(rng)),
            34..=42 => {
                let (a, b) = self.range(rng);
                Op::InsertRange(a, b)
            }
            43..=51 => {
                let (a, b) = self.range(rng);
                Op::RemoveRange(a, b)
            }
            52..=55 => {
                let s = rng.bool();
                Op::Extend(self.list(rng, s))
            }
            56..=58 => Op::ExtendUnsorted(self.list(rng, false)),
            59..=62 => {
                let s = rng.bool();
                Op::RemoveAll(self.list(rng, s))
            }
            63..=69 => Op::Union,
            70..=75 => Op::Intersect,
            76..=81 => Op::Subtract,
            82..=85 => Op::Invert,
            86 => Op::Clear,
            87..=94 => Op::Swap,
            95..=96 => Op::FromIter(self.list(rng, false)),
            97 => Op::FromArray([self.value(rng), self.value(rng), self.value(rng)]),
            _ => Op::CloneFromB,
        }
    }
}

/// `on_checkpoint` is called with the library set A every `checkpoint_every` steps.
pub fn random_histories<T: Elem>(
    r: &mut Runner,
    histories: usize,
    steps: usize,
    on_checkpoint: &mut dyn FnMut(&mut Runner, &IntSet<T>, &Iv, &str),
) {
    let dom = Dom::of::<T>();
    let small = dom.all.is_some();
    let tiny = small && dom.u.len() <= 300;
    let lim = if tiny {
        Limits { elems_full: 4096, window: 64, after_window: 8, ranges_full: 4096, rebuild_max: 4096 }
    } else if small {
        Limits { elems_full: 96, window: 8, after_window: 4, ranges_full: 256, rebuild_max: 2048 }
    } else {
        Limits { elems_full: 96, window: 8, after_window: 4, ranges_full: 192, rebuild_max: 3000 }
    };
    let lim_full =
        Limits { elems_full: 6000, window: 16, after_window: 6, ranges_full: 100_000, rebuild_max: 70_000 };
    let wide = dom.u.len() > 70_000;
    for h in 0..histories {
        if !r.ctx.mine(h) {
            continue;
        }
        if r.give_up() {
            break;
        }
        let mut rng = Rng::derive(r.ctx.seed, &format!("c14-hist-{}", T::NAME), h as u64);
        let bases: Vec<u32> = (0..3)
            .map(|_| {
                let v = match rng.below(4) {
                    0 => rng.below(3000) as u32,
                    1 => 65536u32.wrapping_sub(rng.below(1200) as u32),
                    2 => u32::MAX - rng.below(2400) as u32,
                    _ => rng.u32(),
                };
                dom.snap_up(v)
            })
            .collect();
        let g = Gen { dom: &dom, bases, wide };
        let a_inv = rng.bool();
        let seed_vals = [g.value(&mut rng), g.value(&mut rng)];
        let mut p: Pair<T> = start_pair(&dom, a_inv, &seed_vals);
        let mut recent: VecDeque<String> = VecDeque::new();
        let canon_every = if tiny { 1 } else { 16 };
        for s in 0..steps {
            let op = g.op(&mut rng);
            let mut probes: Vec<u32> = vec![];
            for _ in 0..4 {
                probes.push(*rng.pick(&dom.bounds));
            }
            match &op {
                Op::Insert(v) | Op::Remove(v) => probes.extend_from_slice(&[*v, dom.snap_down(v.saturating_sub(1)), dom.snap_up(v.saturating_add(1))]),
                Op::InsertRange(a, b) | Op::RemoveRange(a, b) => probes.extend_from_slice(&[
                    *a,
                    *b,
                    dom.snap_down(a.saturating_sub(1)),
                    dom.snap_up(b.saturating_add(1)),
                ]),
                _ => {}
            }
            probes.push(g.value(&mut rng));
            probes.push(g.value(&mut rng));
            if let Some(f) = p.ma.first() {
                probes.push(f);
            }
            if let Some(l) = p.ma.last() {
                probes.push(l);
            }
            if recent.len() >= 24 {
                recent.pop_front();
            }
            recent.push_back(op.code());
            let deep = s % 64 == 63 || s + 1 == steps;
            let canon = deep || s % canon_every == 0 || p.ma.len() <= 16;
            let rc = recent.clone();
            let seed = r.ctx.seed;
            let out = r.step(
                &mut p,
                &dom,
                &op,
                &probes,
                if deep { &lim_full } else { &lim },
                canon,
                &|| format!("rnd:{}:seed{}:h{}:s{}", T::NAME, seed, h, s),
                &|| json!({"seed": seed, "history": h, "step": s, "A_started_inverted": a_inv, "last_ops": rc}),
            );
            if out.failed {
                break;
            }
            if deep {
                r.tally.add("deep_checks", 1);
                on_checkpoint(r, &p.a, &p.ma, &format!("rnd:{}:seed{}:h{}:s{}", T::NAME, seed, h, s));
            }
        }
        r.tally.add("histories", 1);
        r.ctx.label("domains_reached", T::NAME);
    }
    let mut t = std::mem::take(&mut r.tally);
    t.flush(r.ctx, &format!("rnd:{}:", T::NAME));
}
