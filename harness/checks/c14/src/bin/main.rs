fn main() {
    vf_core::main_with("C14", vf_c14::run, vf_c14::REPLAY);
}
