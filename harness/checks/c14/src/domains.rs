//! Element domains the histories run over: the library's own `Domain` impls
//! (u32, u16, u8, GlyphId, GlyphId16, Tag, NameId) plus three custom `Domain`
//! impls defined here (a continuous three-page domain, a 10-value page-edge
//! domain and a 53-value discontinuous domain) whose universes are small enough
//! for inverted sets to be enumerated completely.

use font_types::{GlyphId, GlyphId16, NameId, Tag};
use read_fonts::collections::int_set::{Domain, InDomain};
use std::fmt::Debug;
use std::ops::RangeInclusive;

/// What the harness needs to know about an element type.
pub trait Elem: Domain + Copy + Ord + Debug + 'static {
    const NAME: &'static str;
    /// `v` is guaranteed by the generators to be a member of the domain.
    fn mk(v: u32) -> Self;
    fn raw(self) -> u32;
    /// The domain as sorted, disjoint, non-adjacent u32 intervals.
    fn universe() -> Vec<(u32, u32)>;
    /// Values worth probing (page edges, domain edges); all in the domain.
    fn boundary_values() -> Vec<u32>;
}

fn std_bounds(max: u32) -> Vec<u32> {
    let mut v: Vec<u32> = vec![
        0, 1, 2, 63, 64, 65, 255, 256, 510, 511, 512, 513, 1023, 1024, 1025, 1535, 1536, 4095, 4096, 65534, 65535,
        65536, 65537, 0x7FFF_FFFF, 0x8000_0000, 0x8000_0001, 0xFFFF_FDFF, 0xFFFF_FE00, 0xFFFF_FE01, 0xFFFF_FFFE,
        0xFFFF_FFFF,
    ];
    v.retain(|x| *x <= max);
    if !v.contains(&max) {
        v.push(max);
    }
    if max > 0 && !v.contains(&(max - 1)) {
        v.push(max - 1);
    }
    v.sort_unstable();
    v.dedup();
    v
}

macro_rules! lib_elem {
    ($t:ty, $name:literal, $max:expr, $mk:expr, $raw:expr) => {
        impl Elem for $t {
            const NAME: &'static str = $name;
            fn mk(v: u32) -> Self {
                ($mk)(v)
            }
            fn raw(self) -> u32 {
                ($raw)(self)
            }
            fn universe() -> Vec<(u32, u32)> {
                vec![(0, $max)]
            }
            fn boundary_values() -> Vec<u32> {
                std_bounds($max)
            }
        }
    };
}

lib_elem!(u32, "u32", u32::MAX, |v: u32| v, |s: u32| s);
lib_elem!(u16, "u16", 0xFFFF, |v: u32| v as u16, |s: u16| s as u32);
lib_elem!(u8, "u8", 0xFF, |v: u32| v as u8, |s: u8| s as u32);
lib_elem!(GlyphId, "GlyphId", u32::MAX, GlyphId::new, |s: GlyphId| s.to_u32());
lib_elem!(GlyphId16, "GlyphId16", 0xFFFF, |v: u32| GlyphId16::new(v as u16), |s: GlyphId16| s.to_u32());
lib_elem!(Tag, "Tag", u32::MAX, Tag::from_u32, |s: Tag| u32::from_be_bytes(s.to_be_bytes()));
lib_elem!(NameId, "NameId", 0xFFFF, |v: u32| NameId::new(v as u16), |s: NameId| s.to_u16() as u32);

// ------------------------------------------------------------------ Cont

/// A continuous custom domain covering exactly three 512-bit pages.
#[derive(Clone, Copy, Debug, PartialEq, Eq, PartialOrd, Ord, Hash)]
pub struct Cont(pub u16);

pub const CONT_MAX: u32 = 1535;

impl Domain for Cont {
    fn to_u32(&self) -> u32 {
        self.0 as u32
    }
    fn contains(value: u32) -> bool {
        value <= CONT_MAX
    }
    fn from_u32(member: InDomain) -> Self {
        Cont(member.value() as u16)
    }
    fn is_continuous() -> bool {
        true
    }
    fn ordered_values() -> impl DoubleEndedIterator<Item = u32> {
        0..=CONT_MAX
    }
    fn ordered_values_range(range: RangeInclusive<Self>) -> impl DoubleEndedIterator<Item = u32> {
        (range.start().0 as u32)..=(range.end().0 as u32)
    }
    fn count() -> u64 {
        CONT_MAX as u64 + 1
    }
}

impl Elem for Cont {
    const NAME: &'static str = "Cont1536";
    fn mk(v: u32) -> Self {
        Cont(v as u16)
    }
    fn raw(self) -> u32 {
        self.0 as u32
    }
    fn universe() -> Vec<(u32, u32)> {
        vec![(0, CONT_MAX)]
    }
    fn boundary_values() -> Vec<u32> {
        vec![0, 1, 2, 63, 64, 510, 511, 512, 513, 1022, 1023, 1024, 1025, 1533, 1534, 1535]
    }
}

/// The ten values used as operands by the exhaustive enumeration over `Cont`.
pub const CONT_TEN: [u32; 10] = [0, 1, 511, 512, 513, 1023, 1024, 1025, 1534, 1535];

// ------------------------------------------------------------------ Disc10

/// A discontinuous ten-value domain sitting on page edges and the u32 limits.
#[derive(Clone, Copy, Debug, PartialEq, Eq, PartialOrd, Ord, Hash)]
pub struct Disc10(pub u32);

pub const DISC10: [u32; 10] = [0, 1, 511, 512, 513, 1023, 1024, 65535, 65536, u32::MAX];

impl Domain for Disc10 {
    fn to_u32(&self) -> u32 {
        self.0
    }
    fn contains(value: u32) -> bool {
        DISC10.contains(&value)
    }
    fn from_u32(member: InDomain) -> Self {
        Disc10(member.value())
    }
    fn is_continuous() -> bool {
        false
    }
    fn ordered_values() -> impl DoubleEndedIterator<Item = u32> {
        DISC10.into_iter()
    }
    fn ordered_values_range(range: RangeInclusive<Self>) -> impl DoubleEndedIterator<Item = u32> {
        let (lo, hi) = (range.start().0, range.end().0);
        DISC10.into_iter().filter(move |v| *v >= lo && *v <= hi)
    }
    fn count() -> u64 {
        10
    }
}

impl Elem for Disc10 {
    const NAME: &'static str = "Disc10";
    fn mk(v: u32) -> Self {
        Disc10(v)
    }
    fn raw(self) -> u32 {
        self.0
    }
    fn universe() -> Vec<(u32, u32)> {
        vec![(0, 1), (511, 513), (1023, 1024), (65535, 65536), (u32::MAX, u32::MAX)]
    }
    fn boundary_values() -> Vec<u32> {
        DISC10.to_vec()
    }
}

// ------------------------------------------------------------------ Disc53

/// A discontinuous domain made of five segments around page edges.
#[derive(Clone, Copy, Debug, PartialEq, Eq, PartialOrd, Ord, Hash)]
pub struct Disc53(pub u32);

pub const DISC53_SEGS: [(u32, u32); 5] =
    [(0, 5), (500, 520), (1020, 1030), (65530, 65540), (u32::MAX - 3, u32::MAX)];

impl Domain for Disc53 {
    fn to_u32(&self) -> u32 {
        self.0
    }
    fn contains(value: u32) -> bool {
        DISC53_SEGS.iter().any(|(a, b)| value >= *a && value <= *b)
    }
    fn from_u32(member: InDomain) -> Self {
        Disc53(member.value())
    }
    fn is_continuous() -> bool {
        false
    }
    fn ordered_values() -> impl DoubleEndedIterator<Item = u32> {
        DISC53_SEGS.into_iter().flat_map(|(a, b)| a..=b)
    }
    fn ordered_values_range(range: RangeInclusive<Self>) -> impl DoubleEndedIterator<Item = u32> {
        let (lo, hi) = (range.start().0, range.end().0);
        Self::ordered_values().filter(move |v| *v >= lo && *v <= hi)
    }
    fn count() -> u64 {
        DISC53_SEGS.iter().map(|(a, b)| (*b - *a) as u64 + 1).sum()
    }
}

impl Elem for Disc53 {
    const NAME: &'static str = "Disc53";
    fn mk(v: u32) -> Self {
        Disc53(v)
    }
    fn raw(self) -> u32 {
        self.0
    }
    fn universe() -> Vec<(u32, u32)> {
        DISC53_SEGS.to_vec()
    }
    fn boundary_values() -> Vec<u32> {
        let mut v = vec![];
        for (a, b) in DISC53_SEGS {
            v.extend_from_slice(&[a, a + 1, b - 1, b]);
        }
        v.extend_from_slice(&[511, 512, 513, 1023, 1024, 65535, 65536]);
        v.sort_unstable();
        v.dedup();
        v
    }
}
