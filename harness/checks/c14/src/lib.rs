//! C14 — integer sets, range sets and the sparse-bit-set codec act as
//! mathematical sets. See /verif/DESIGN.md §3.
//!
//! Oracles: a brute-force `BTreeSet` + explicit-universe model (small domains)
//! and an interval model (16/32-bit domains; validated against the brute-force
//! one in lock-step on the small domains), compared with every observer after
//! every operation; an independent transcription of the IFT specification's
//! sparse-bit-set decoding algorithm.

pub mod codec;
pub mod domains;
pub mod hist;
pub mod model;
pub mod rangeset;

use codec::Codec;
use domains::{Cont, Disc10, Disc53, Elem, CONT_TEN, DISC10};
use font_types::{Fixed, GlyphId, GlyphId16, NameId, Tag};
use hist::Runner;
use model::Iv;
use read_fonts::collections::IntSet;
use std::any::Any;
use vf_core::{Args, Ctx, PanicPolicy, Rng};

pub const REPLAY: Option<fn(&mut Ctx, &Args, &serde_json::Value, Option<&[u8]>)> = None;

fn rnd<T: Elem>(ctx: &mut Ctx, codec: &mut Codec, histories: usize, steps: usize) {
    let t0 = ctx.elapsed_s();
    let mut r = Runner::new(ctx);
    let mut cb = |r: &mut Runner, a: &IntSet<T>, m: &Iv, origin: &str| {
        // codec round trip of the sets histories actually produced (u32 only, inclusive, bounded size)
        if let Some(s) = (a as &dyn Any).downcast_ref::<IntSet<u32>>() {
            if !s.is_inverted() && m.len() <= 20_000 {
                codec.roundtrip(r.ctx, s, m, origin);
            }
        }
    };
    hist::random_histories::<T>(&mut r, histories, steps, &mut cb);
    drop(r);
    lap(ctx, &format!("rnd:{}", T::NAME), t0);
}

fn lap(ctx: &mut Ctx, what: &str, t0: f64) {
    let dt = ctx.elapsed_s() - t0;
    if std::env::var("VF_TIMING").is_ok() {
        eprintln!("c14 timing: {:<28} {:8.2}s", what, dt);
    }
    ctx.count(&format!("wall_ms:{}", what), (dt * 1000.0) as u64);
}

/// The slice run under Miri (extra stage "miri" of stages.json): a few hundred
/// IntSet / codec / RangeSet operations with the same oracles as the full
/// workload. What Miri adds: undefined behaviour, out-of-bounds or misaligned
/// accesses and provenance errors in the bit-page arithmetic of `BitSet` /
/// `BitPage`, the sparse-bit-set reader/writer and `RangeSet`.
fn miri_slice(ctx: &mut Ctx, _args: &Args) {
    ctx.level = "exploration".into();
    ctx.assumptions.push("Miri slice: single-threaded interpretation (-Zmiri-symbolic-alignment-check) of a few hundred operations per element type; the value oracles are those of the full workload".into());
    // Miri interprets this crate (unoptimised, model and library alike) ~10^4..10^5 times slower than the
    // strict build runs it: one history step with all its observers costs ~1 s.
    let steps: usize = std::env::var("VF_MIRI_STEPS").ok().and_then(|s| s.parse().ok()).unwrap_or(ctx.tier.pick(12, 100));
    {
        let ex2 = ex_bytes();
        let ok2 = matches!(codec::ref_decode(&ex2, 0, u32::MAX), codec::RefOut::Ok{ref members, consumed: 7, ..} if *members == Iv::from_points([2, 33, 323]));
        if !ok2 {
            ctx.inconclusive("reference sparse-bit-set decoder fails the specification example 2");
            return;
        }
        ctx.count("codec:reference_decoder_spec_examples_ok", 1);
    }
    let mut codec = Codec::new(1);
    // 1. random histories, one per element type (page arithmetic differs per domain width), through the
    //    same `Runner::step` (library + models + every observer) as the full workload but with small
    //    iteration windows, no periodic "deep" check and a codec round trip only of small final sets
    light::<u32>(ctx, &mut codec, steps);
    light::<u16>(ctx, &mut codec, steps * 2 / 3);
    light::<GlyphId16>(ctx, &mut codec, steps / 3);
    light::<Tag>(ctx, &mut codec, steps / 3);
    light::<GlyphId>(ctx, &mut codec, steps / 4);
    light::<NameId>(ctx, &mut codec, steps / 4);
    light::<u8>(ctx, &mut codec, steps / 4);
    light::<Disc10>(ctx, &mut codec, steps / 4);
    if ctx.tier.is_thorough() {
        light::<Cont>(ctx, &mut codec, steps / 8);
        light::<Disc53>(ctx, &mut codec, steps / 8);
    }
    // 2. codec: round trips of small subsets, generated corner-case sets, decoding of arbitrary bytes
    let t0 = ctx.elapsed_s();
    let mut rng = Rng::derive(ctx.seed, "c14-miri", 0);
    for _ in 0..ctx.tier.pick(2, 16) {
        let bits = rng.below(65536) as u32;
        let m = Iv::from_points((0..16).filter(|i| bits >> i & 1 == 1));
        let s: IntSet<u32> = m.iter().collect();
        codec.roundtrip(ctx, &s, &m, &format!("subset16:{:04x}", bits));
    }
    for i in 0..ctx.tier.pick(2, 8) {
        // sparse hand-made sets around page and word boundaries (gen_codec_set may produce sets too large for Miri)
        let base = [0u32, 500, 65_530, 1 << 24][i % 4];
        let m = Iv::from_points((0..(3 + rng.below(6))).map(|_| base + rng.below(70) as u32).collect::<Vec<_>>());
        let s = codec::build_set(&m, &mut rng);
        codec.roundtrip(ctx, &s, &m, &format!("miri-gen:seed{}:{}", ctx.seed, i));
    }
    for (bias, max) in [(0u32, u32::MAX), (5, 20), (u32::MAX - 1, u32::MAX)] {
        codec.decode_arbitrary(ctx, &[], bias, max, "len0");
        codec.decode_arbitrary(ctx, &ex_bytes(), bias, max, "spec-example-2");
    }
    for _ in 0..ctx.tier.pick(8, 120) {
        let len = rng.usize(10);
        let mut data = rng.bytes(len);
        if rng.bool() {
            data.iter_mut().for_each(|b| *b &= rng.u32() as u8);
        }
        if !data.is_empty() && rng.chance(3, 4) {
            let code = rng.below(4) as u8;
            let h = rng.below(4) as u8;
            data[0] = code | (h << 2);
        }
        let (bias, max) = codec::random_bias_max(&mut rng);
        codec.decode_arbitrary(ctx, &data, bias, max, "random-bytes");
    }
    codec.flush(ctx);
    lap(ctx, "miri:codec", t0);
    // 3. RangeSet
    let t0 = ctx.elapsed_s();
    {
        let mut rs = rangeset::RsRunner::new();
        rangeset::random::<u32>(&mut rs, ctx, 1, steps / 3);
        rangeset::random::<u16>(&mut rs, ctx, 1, steps / 4);
        rangeset::random::<Fixed>(&mut rs, ctx, 1, steps / 4);
        rs.tally.flush(ctx, "");
    }
    lap(ctx, "miri:rangeset", t0);
}

/// One random history of `steps` operations on a pair of `IntSet<T>` (Miri slice).
fn light<T: Elem>(ctx: &mut Ctx, codec: &mut Codec, steps: usize) {
    use hist::{Dom, Gen, Limits, Op};
    let t0 = ctx.elapsed_s();
    let seed = ctx.seed;
    let dom = Dom::of::<T>();
    let lim = Limits { elems_full: 24, window: 3, after_window: 2, ranges_full: 24, rebuild_max: 24 };
    let mut rng = Rng::derive(seed, &format!("c14-miri-hist-{}", T::NAME), 0);
    let bases: Vec<u32> = [rng.below(3000) as u32, 65536u32.wrapping_sub(rng.below(1200) as u32), u32::MAX - rng.below(2400) as u32].iter().map(|v| dom.snap_up(*v)).collect();
    let g = Gen { dom: &dom, bases, wide: false };
    let a_inv = rng.bool();
    let seed_vals = [g.value(&mut rng), g.value(&mut rng)];
    let mut p = hist::start_pair::<T>(&dom, a_inv, &seed_vals);
    let mut r = Runner::new(ctx);
    let mut ops: Vec<String> = vec![];
    for s in 0..steps {
        let op = g.op(&mut rng);
        let mut probes: Vec<u32> = vec![*rng.pick(&dom.bounds), g.value(&mut rng)];
        match &op {
            Op::Insert(v) | Op::Remove(v) => probes.extend_from_slice(&[*v, dom.snap_up(v.saturating_add(1))]),
            Op::InsertRange(a, b) | Op::RemoveRange(a, b) => probes.extend_from_slice(&[*a, *b, dom.snap_down(a.saturating_sub(1)), dom.snap_up(b.saturating_add(1))]),
            _ => {}
        }
        if let Some(l) = p.ma.last() {
            probes.push(l);
        }
        ops.push(op.code());
        let canon = s % 6 == 5 || s + 1 == steps;
        let oc = ops.clone();
        let out = r.step(
            &mut p,
            &dom,
            &op,
            &probes,
            &lim,
            canon,
            &|| format!("miri:{}:seed{}:s{}", T::NAME, seed, s),
            &|| serde_json::json!({"seed": seed, "step": s, "A_started_inverted": a_inv, "ops": oc}),
        );
        if out.failed {
            break;
        }
    }
    r.tally.add("histories", 1);
    r.ctx.label("domains_reached", T::NAME);
    if let Some(a) = (&p.a as &dyn Any).downcast_ref::<IntSet<u32>>() {
        if !a.is_inverted() && p.ma.len() <= 64 {
            codec.roundtrip(r.ctx, a, &p.ma, &format!("miri:{}:seed{}:final", T::NAME, seed));
        }
    }
    let mut t = std::mem::take(&mut r.tally);
    t.flush(r.ctx, &format!("rnd:{}:", T::NAME));
    drop(r);
    lap(ctx, &format!("miri:hist:{}", T::NAME), t0);
}

fn ex_bytes() -> [u8; 7] {
    [0b00001110u8, 0b00100001, 0b00010001, 0b00000001, 0b00000100, 0b00000010, 0b00001000]
}

pub fn run(ctx: &mut Ctx, args: &Args) {
    ctx.policy = PanicPolicy::Any;
    ctx.rule = "IntSet: a history step is non-trivial when the operation changed the membership of the set, combined two sets \
                (union/intersect/subtract), inverted it or changed a mode; distinct = distinct (domain, operation, modes of both \
                sets before and after, resulting set) tuples (at most 8000 recorded per shard and domain). Codec: a round trip of a non-empty \
                set, or a decode of arbitrary bytes that the specification algorithm accepts with a tree of >= 2 nodes; distinct = \
                distinct (consumed bytes, bias, max). RangeSet: distinct resulting pairs of non-empty sets."
        .into();
    ctx.level = "exploration + exhaustive sub-spaces".into();
    ctx.assumptions = vec![
        "Supported tree heights are the implementation's limits (bf2:31, bf4:16, bf8:11, bf32:7); above them only absence of panics is required".into(),
        "The specification decoder is a transcription from the IFT specification text made without network access; it is validated on the specification's examples 2-4".into(),
        "Element iteration of sets with more than 96 (periodically 6000) members is windowed (both ends and after probe values); range iteration is complete up to 192 (periodically 100000) ranges".into(),
        "Inverted IntSet<u32> values are not encoded (iteration over ~2^32 members); sets of up to 20000 members are".into(),
        "Ord on IntSet is taken to be the lexicographic order of the ascending member sequences (as BTreeSet)".into(),
    ];
    if cfg!(miri) || args.profile == "miri" {
        return miri_slice(ctx, args);
    }
    let thorough = ctx.tier.is_thorough();
    let t = ctx.tier;

    // ---- reference decoder self-validation on the specification's examples
    {
        let ex2 = [0b00001110u8, 0b00100001, 0b00010001, 0b00000001, 0b00000100, 0b00000010, 0b00001000];
        let ok2 = matches!(codec::ref_decode(&ex2, 0, u32::MAX), codec::RefOut::Ok{ref members, consumed: 7, ..} if *members == Iv::from_points([2, 33, 323]));
        let ok3 = matches!(codec::ref_decode(&[0], 0, u32::MAX), codec::RefOut::Ok{ref members, consumed: 1, ..} if members.is_empty());
        let ok4 = matches!(codec::ref_decode(&[0b00001101, 0b00000011, 0b00110001], 0, u32::MAX), codec::RefOut::Ok{ref members, consumed: 3, ..} if *members == Iv::from_range(0, 17));
        if !(ok2 && ok3 && ok4) {
            ctx.inconclusive(format!("reference sparse-bit-set decoder fails the specification examples: {} {} {}", ok2, ok3, ok4));
            return;
        }
        ctx.count("codec:reference_decoder_spec_examples_ok", 3);
    }

    let mut codec = Codec::new(t.pick(2, 12));
    let only = std::env::var("VF_C14_ONLY").unwrap_or_default();
    let skip_hist = only == "codec";

    // ---- 1. exhaustive operation sequences
    if !skip_hist {
        let t0 = ctx.elapsed_s();
        let mut r = Runner::new(ctx);
        hist::exhaustive::<Disc10>(&mut r, &DISC10, 4, "Disc10-len4");
        drop(r);
        lap(ctx, "exhaustive:Disc10", t0);
        let t0 = ctx.elapsed_s();
        let mut r = Runner::new(ctx);
        hist::exhaustive::<Cont>(&mut r, &CONT_TEN, t.pick(3, 4), if thorough { "Cont1536-len4" } else { "Cont1536-len3" });
        drop(r);
        lap(ctx, "exhaustive:Cont", t0);
    }
    ctx.exhaustive = Some(true);
    ctx.extra.insert(
        "exhaustive_part".into(),
        serde_json::json!("all operation sequences up to length 4 (Cont1536: 3 in quick) over a 48-operation alphabet on ten page-edge operands x {inclusive, inverted} start; all 2-byte (thorough: 3-byte) strings x bias/max pairs; all subsets of 0..16 x 4 branch factors; all <=3-insert RangeSet sequences over 0..=6"),
    );

    // ---- 2. random long histories
    let steps = 10_000;
    let k = if skip_hist { 0 } else { t.pick(1usize, 8) };
    rnd::<u32>(ctx, &mut codec, 48 * k, steps);
    rnd::<GlyphId>(ctx, &mut codec, 16 * k, steps);
    rnd::<Tag>(ctx, &mut codec, 16 * k, steps);
    rnd::<u16>(ctx, &mut codec, 32 * k, steps);
    rnd::<GlyphId16>(ctx, &mut codec, 16 * k, steps);
    rnd::<NameId>(ctx, &mut codec, 16 * k, steps);
    rnd::<u8>(ctx, &mut codec, 32 * k, steps);
    rnd::<Cont>(ctx, &mut codec, 32 * k, steps);
    rnd::<Disc53>(ctx, &mut codec, 32 * k, steps);
    rnd::<Disc10>(ctx, &mut codec, 16 * k, steps);

    // ---- 3. codec
    // 3a. all subsets of 0..16
    let t0 = ctx.elapsed_s();
    for bits in 0..65536u32 {
        if !ctx.mine(bits as usize) {
            continue;
        }
        let m = Iv::from_points((0..16).filter(|i| bits >> i & 1 == 1));
        let s: IntSet<u32> = m.iter().collect();
        codec.roundtrip(ctx, &s, &m, &format!("subset16:{:04x}", bits));
    }
    lap(ctx, "codec:subsets16", t0);
    let t0 = ctx.elapsed_s();
    // 3b. generated corner-case sets, and mutations of their encodings
    let n_sets = t.pick(4_000usize, 60_000);
    for i in 0..n_sets {
        if !ctx.mine(i) {
            continue;
        }
        let mut rng = Rng::derive(ctx.seed, "c14-codec-set", i as u64);
        let m = codec::gen_codec_set(&mut rng);
        let s = codec::build_set(&m, &mut rng);
        codec.roundtrip(ctx, &s, &m, &format!("gen:seed{}:{}", ctx.seed, i));
        use read_fonts::collections::int_set::sparse_bit_set::to_sparse_bit_set_with_bf as enc_bf;
        let which = rng.below(4);
        let Ok(enc) = vf_core::guard(|| match which {
            0 => enc_bf::<2>(&s),
            1 => enc_bf::<4>(&s),
            2 => enc_bf::<8>(&s),
            _ => enc_bf::<32>(&s),
        }) else {
            continue; // already reported by roundtrip
        };
        for _ in 0..6 {
            let mut e = enc.clone();
            codec::mutate(&mut rng, &mut e);
            let (bias, max) = codec::random_bias_max(&mut rng);
            codec.decode_arbitrary(ctx, &e, bias, max, "mutated-encoding");
        }
    }
    lap(ctx, "codec:gen_sets", t0);
    let t0 = ctx.elapsed_s();
    // 3c. all strings of length 0, 1, 2 (thorough: 3) x bias/max pairs
    if ctx.mine(0) {
        for (bias, max) in codec::BIAS_MAX {
            codec.decode_arbitrary(ctx, &[], bias, max, "len0");
            for b in 0..=255u8 {
                codec.decode_arbitrary(ctx, &[b], bias, max, "len1-exhaustive");
            }
        }
    }
    for v in 0..65536u32 {
        if !ctx.mine(v as usize) {
            continue;
        }
        let bytes = [(v >> 8) as u8, v as u8];
        for (bias, max) in codec::BIAS_MAX {
            codec.decode_arbitrary(ctx, &bytes, bias, max, "len2-exhaustive");
        }
    }
    ctx.count("codec:exhaustive_len2_strings", if ctx.shard.0 == 0 { 65536 } else { 0 });
    if thorough {
        for v in 0..(1u32 << 24) {
            if !ctx.mine((v >> 4) as usize) {
                continue;
            }
            let bytes = [(v >> 16) as u8, (v >> 8) as u8, v as u8];
            for (bias, max) in [(0, u32::MAX), (5, 20), (u32::MAX - 1, u32::MAX)] {
                codec.decode_arbitrary(ctx, &bytes, bias, max, "len3-exhaustive");
            }
        }
        ctx.count("codec:exhaustive_len3_strings", if ctx.shard.0 == 0 { 1 << 24 } else { 0 });
    }
    lap(ctx, "codec:exhaustive_strings", t0);
    let t0 = ctx.elapsed_s();
    // 3d. random strings and random complete trees (+ mutations)
    let n_rand = t.pick(30_000usize, 400_000);
    {
        let mut rng = Rng::derive(ctx.seed, "c14-codec-bytes", ctx.shard.0 as u64);
        for _ in 0..n_rand {
            let len = if rng.chance(1, 20) { rng.usize(300) } else { rng.usize(24) };
            let mut data = rng.bytes(len);
            // thin out the bits so that trees get deep instead of wide
            match rng.below(4) {
                0 => {}
                1 => data.iter_mut().for_each(|b| *b &= rng.u32() as u8),
                2 => data.iter_mut().for_each(|b| *b &= (rng.u32() & rng.u32()) as u8),
                _ => data.iter_mut().for_each(|b| *b = 1u8.checked_shl(rng.below(12) as u32).unwrap_or(0)),
            }
            if !data.is_empty() && rng.chance(3, 4) {
                let code = rng.below(4) as u8;
                let h = rng.below(codec::supported_height(codec::BF[code as usize]) as u64 + 2) as u8;
                data[0] = code | (h << 2);
            }
            let (bias, max) = codec::random_bias_max(&mut rng);
            codec.decode_arbitrary(ctx, &data, bias, max, "random-bytes");
        }
        for _ in 0..n_rand {
            let mut data = codec::gen_tree_bytes(&mut rng);
            let (bias, max) = codec::random_bias_max(&mut rng);
            codec.decode_arbitrary(ctx, &data, bias, max, "random-tree");
            codec::mutate(&mut rng, &mut data);
            codec.decode_arbitrary(ctx, &data, bias, max, "mutated-tree");
        }
    }
    lap(ctx, "codec:random", t0);
    let t0 = ctx.elapsed_s();
    codec.flush(ctx);

    // ---- 4. RangeSet
    {
        let mut rs = rangeset::RsRunner::new();
        rangeset::exhaustive::<u32>(&mut rs, ctx, 0);
        rangeset::exhaustive::<u32>(&mut rs, ctx, u32::MAX - 6);
        rangeset::exhaustive::<u16>(&mut rs, ctx, 0xFFFF - 6);
        rangeset::exhaustive::<Fixed>(&mut rs, ctx, u32::MAX - 6);
        rangeset::exhaustive::<Fixed>(&mut rs, ctx, 0x8000_0000 - 3);
        let h = t.pick(320usize, 4000);
        rangeset::random::<u32>(&mut rs, ctx, h, 120);
        rangeset::random::<u16>(&mut rs, ctx, h, 120);
        rangeset::random::<Fixed>(&mut rs, ctx, h, 120);
        rs.tally.flush(ctx, "");
    }
    lap(ctx, "rangeset", t0);

}
