//! Sparse bit set codec: round trips for four branch factors, and arbitrary
//! bytes against an independent transcription of the decoding algorithm of the
//! W3C IFT specification (section "Sparse Bit Set Decoding").

use crate::hist::Tally;
use crate::model::Iv;
use read_fonts::collections::int_set::sparse_bit_set::to_sparse_bit_set_with_bf;
use read_fonts::collections::IntSet;
use serde_json::json;
use std::collections::{HashSet, VecDeque};
use vf_core::{guard, hex, Ctx, Digest, Rng};

/// Branch factor encoding of the header's two low bits.
pub const BF: [u32; 4] = [2, 4, 8, 32];
/// Tree heights the implementation supports per branch factor (greater heights
/// are rejected with an error; the property only constrains heights within).
pub fn supported_height(b: u32) -> u32 {
    match b {
        2 => 31,
        4 => 16,
        8 => 11,
        _ => 7,
    }
}

#[derive(Debug, PartialEq, Eq, Clone)]
pub enum RefOut {
    /// the bit stream ended before the tree was complete (or there is no header byte)
    Invalid,
    Ok { members: Iv, consumed: usize, nodes: u32 },
}

/// Specification algorithm, transcribed step by step.
///
/// Inputs: the bytes, `bias`, `max`. The byte string is read as a string of
/// bits, least significant bit of the first byte first.
///
///  1. the first 8 bits are the header: bits 0-1 branch factor code, bits 2-6 height H;
///  2. if H = 0 the set is empty and nothing more is read;
///  3. a FIFO queue holds (start, depth) tuples, initially (0, 1);
///  4. while the queue is not empty: pop (start, depth); take the next B bits v_1..v_B
///     (fewer than B bits left: the encoding is invalid);
///     - all B bits zero: every integer in [start, start + B^(H-depth+1) - 1] is a member;
///     - otherwise for each v_i = 1: if depth = H the integer start + i - 1 is a member,
///       else push (start + (i-1) * B^(H-depth), depth + 1);
///  5. members get `bias` added and those above `max` are dropped; the bits up to the
///     next byte boundary are padding; what follows is the unread remainder.
pub fn ref_decode(data: &[u8], bias: u32, max: u32) -> RefOut {
    ref_decode_vol(data, bias, max).0
}

/// As [`ref_decode`], also returning the number of integers covered by filled
/// nodes that were read before the end (or before the stream proved invalid).
pub fn ref_decode_vol(data: &[u8], bias: u32, max: u32) -> (RefOut, u128) {
    let mut vol = 0u128;
    let r = ref_decode_inner(data, bias, max, &mut vol);
    (r, vol)
}

fn ref_decode_inner(data: &[u8], bias: u32, max: u32, vol: &mut u128) -> RefOut {
    let Some(header) = data.first() else {
        return RefOut::Invalid;
    };
    let b = BF[(header & 0b11) as usize] as u128;
    let h = ((header >> 2) & 0b11111) as u32;
    let total_bits = data.len() * 8;
    let mut pos = 8usize;
    if h == 0 {
        return RefOut::Ok { members: Iv::new(), consumed: 1, nodes: 0 };
    }
    let bit = |p: usize| -> bool { (data[p / 8] >> (p % 8)) & 1 == 1 };
    let (bias, max) = (bias as u128, max as u128);
    let mut intervals: Vec<(u32, u32)> = vec![];
    let mut queue: VecDeque<(u128, u32)> = VecDeque::new();
    queue.push_back((0, 1));
    let mut nodes = 0u32;
    while let Some((start, depth)) = queue.pop_front() {
        let bn = b as usize;
        if pos + bn > total_bits {
            return RefOut::Invalid;
        }
        nodes += 1;
        let mut any = false;
        for i in 0..bn {
            if bit(pos + i) {
                any = true;
                break;
            }
        }
        if !any {
            let size = b.checked_pow(h - depth + 1).unwrap_or(u128::MAX >> 2);
            let lo = start.saturating_add(bias);
            let hi = start.saturating_add(size - 1).saturating_add(bias).min(max);
            if lo <= max {
                intervals.push((lo as u32, hi as u32));
                *vol += hi - lo + 1;
            }
        } else {
            for i in 0..bn {
                if !bit(pos + i) {
                    continue;
                }
                if depth == h {
                    let v = start.saturating_add(i as u128).saturating_add(bias);
                    if v <= max {
                        intervals.push((v as u32, v as u32));
                    }
                } else {
                    let child = b.checked_pow(h - depth).unwrap_or(u128::MAX >> 2);
                    queue.push_back((start.saturating_add((i as u128).saturating_mul(child)), depth + 1));
                }
            }
        }
        pos += bn;
    }
    RefOut::Ok { members: Iv::from_intervals(intervals), consumed: pos.div_ceil(8), nodes }
}

fn set_to_iv(s: &IntSet<u32>) -> Iv {
    Iv(s.iter_ranges().map(|r| (*r.start(), *r.end())).collect())
}

struct SlowGuard {
    t: std::time::Instant,
    data: Vec<u8>,
    bias: u32,
    max: u32,
    origin: &'static str,
}
impl Drop for SlowGuard {
    fn drop(&mut self) {
        let dt = self.t.elapsed().as_secs_f64();
        if dt > 0.25 && std::env::var("VF_TIMING").is_ok() {
            eprintln!("c14 slow decode {:.2}s {} bias={} max={} len={} bytes={}", dt, self.origin, self.bias, self.max, self.data.len(), hex(&self.data[..self.data.len().min(40)]));
        }
    }
}

pub struct Codec {
    pub tally: Tally,
    pub violations: u32,
    pub heavy_budget: u32,
    pub nt_seen: HashSet<u64>,
    pub shapes: HashSet<(u32, u32)>,
    pub sampled: u32,
    pub sampled_rt: u32,
}

impl Codec {
    pub fn new(heavy_budget: u32) -> Self {
        Codec { tally: Tally::default(), violations: 0, heavy_budget, nt_seen: HashSet::new(), shapes: HashSet::new(), sampled: 0, sampled_rt: 0 }
    }
    pub fn give_up(&self) -> bool {
        self.violations >= 25
    }

    fn nontrivial(&mut self, ctx: &mut Ctx, tag: &str, bytes: &[u8], extra: u64) {
        if self.nt_seen.len() >= 30_000 {
            return;
        }
        let mut d = Digest::new();
        d.str(tag);
        d.bytes(bytes);
        d.u64(extra);
        let h = d.finish();
        if self.nt_seen.insert(h) {
            ctx.nontrivial(h);
        }
    }

    /// decode(encode_bf(s)) == s for the four branch factors and the automatic choice.
    pub fn roundtrip(&mut self, ctx: &mut Ctx, s: &IntSet<u32>, m: &Iv, origin: &str) {
        if self.give_up() {
            return;
        }
        let encs = guard(|| {
            vec![
                (2u32, to_sparse_bit_set_with_bf::<2>(s)),
                (4, to_sparse_bit_set_with_bf::<4>(s)),
                (8, to_sparse_bit_set_with_bf::<8>(s)),
                (32, to_sparse_bit_set_with_bf::<32>(s)),
                (0, s.to_sparse_bit_set()),
            ]
        });
        let encs = match encs {
            Ok(e) => e,
            Err(p) => {
                self.violations += 1;
                ctx.judge_panic(&p, &format!("to_sparse_bit_set ({})", origin), json!({"set_ranges": m.0.iter().take(16).collect::<Vec<_>>(), "origin": origin}), None);
                return;
            }
        };
        for (bf, enc) in encs {
            ctx.eval();
            self.tally.add(
                match bf {
                    2 => "codec:roundtrip_bf2",
                    4 => "codec:roundtrip_bf4",
                    8 => "codec:roundtrip_bf8",
                    32 => "codec:roundtrip_bf32",
                    _ => "codec:roundtrip_auto",
                },
                1,
            );
            let key = |what: &str| format!("codec:roundtrip:bf{}:{}:{}", bf, what, origin);
            let detail = |what: &str, got: serde_json::Value| {
                json!({"what": what, "bf": bf, "origin": origin, "set_len": m.len(),
                       "set_ranges": m.0.iter().take(16).collect::<Vec<_>>(), "encoding": hex(&enc[..enc.len().min(64)]), "got": got})
            };
            let mut with_tail = enc.clone();
            with_tail.extend_from_slice(&[0xA5, 0x00, 0xFF]);
            let enc2 = enc.clone();
            let wt = with_tail.clone();
            let r = guard(move || {
                let d1 = IntSet::<u32>::from_sparse_bit_set(&enc2).ok();
                let d2 = IntSet::<u32>::from_sparse_bit_set_bounded(&wt, 0, u32::MAX).ok().map(|(s, rest)| (s, rest.len()));
                (d1, d2)
            });
            let (d1, d2) = match r {
                Ok(x) => x,
                Err(p) => {
                    self.violations += 1;
                    ctx.judge_panic(&p, &key("decode"), detail("panic while decoding own encoding", json!(null)), Some(&enc));
                    continue;
                }
            };
            match &d1 {
                Some(d) if d == s && set_to_iv(d) == *m => {}
                other => {
                    self.violations += 1;
                    let got = other.as_ref().map(|d| set_to_iv(d).0.into_iter().take(16).collect::<Vec<_>>());
                    ctx.violation(&key("decode_differs"), detail("decode(encode(s)) != s", json!(got)), Some(&enc));
                    continue;
                }
            }
            match &d2 {
                Some((d, rest)) if d == s && *rest == 3 => {}
                other => {
                    self.violations += 1;
                    let got = other.as_ref().map(|(d, rest)| json!({"rest_len": rest, "len": d.len()}));
                    ctx.violation(&key("remainder"), detail("bounded decode of encoding + 3 trailing bytes: wrong set or remainder", json!(got)), Some(&enc));
                    continue;
                }
            }
            // the encoding must mean `s` under the specification's algorithm as well
            match ref_decode(&enc, 0, u32::MAX) {
                RefOut::Ok { members, consumed, .. } if members == *m && consumed == enc.len() => {}
                other => {
                    self.violations += 1;
                    let got = match other {
                        RefOut::Invalid => json!("invalid"),
                        RefOut::Ok { members, consumed, .. } => {
                            json!({"consumed": consumed, "enc_len": enc.len(), "ranges": members.0.iter().take(16).collect::<Vec<_>>()})
                        }
                    };
                    ctx.violation(&key("spec_decode_differs"), detail("specification decoding of encode(s) != s", got), Some(&enc));
                    continue;
                }
            }
            if !m.is_empty() {
                self.nontrivial(ctx, "rt", &enc, bf as u64);
            }
            if m.0.len() >= 3 && enc.len() < 40 && self.sampled_rt < 2 {
                self.sampled_rt += 1;
                ctx.sample_by_kind(
                    &format!("codec:roundtrip:bf{}", bf),
                    json!({"origin": origin, "set_ranges": m.0.iter().take(12).collect::<Vec<_>>(), "set_len": m.len(), "bf": bf, "encoding": hex(&enc), "agreed": "decode(encode(s)) == s, specification decode == s, remainder exact"}),
                );
            }
            let h = (enc[0] >> 2) & 31;
            self.shapes.insert((BF[(enc[0] & 3) as usize], h as u32));
        }
        // biased / bounded decode of the bf-8 encoding
        if let Some(last) = m.last() {
            let enc = match guard(|| to_sparse_bit_set_with_bf::<8>(s)) {
                Ok(e) => e,
                Err(_) => return,
            };
            for (bias, max) in [(1u32, u32::MAX), (1000, last / 2 + 1000), (u32::MAX - last / 2, u32::MAX), (0, last.saturating_sub(1))] {
                ctx.eval();
                self.tally.add("codec:roundtrip_biased", 1);
                let exp = Iv::from_intervals(
                    m.0.iter()
                        .filter_map(|(lo, hi)| {
                            let lo = *lo as u64 + bias as u64;
                            let hi = (*hi as u64 + bias as u64).min(max as u64);
                            (lo <= hi).then_some((lo as u32, hi as u32))
                        })
                        .collect(),
                );
                let e2 = enc.clone();
                match guard(move || IntSet::<u32>::from_sparse_bit_set_bounded(&e2, bias, max).ok().map(|(s, r)| (set_to_iv(&s), r.len()))) {
                    Ok(Some((got, 0))) if got == exp => {}
                    Ok(other) => {
                        self.violations += 1;
                        ctx.violation(
                            &format!("codec:roundtrip_biased:{}:{}:{}", bias, max, origin),
                            json!({"bias": bias, "max": max, "origin": origin, "encoding": hex(&enc[..enc.len().min(64)]),
                                   "got": other.map(|(g, r)| json!({"ranges": g.0.iter().take(16).collect::<Vec<_>>(), "rest": r})),
                                   "expected_ranges": exp.0.iter().take(16).collect::<Vec<_>>()}),
                            Some(&enc),
                        );
                    }
                    Err(p) => {
                        self.violations += 1;
                        ctx.judge_panic(&p, "from_sparse_bit_set_bounded on own encoding", json!({"bias": bias, "max": max, "origin": origin}), Some(&enc));
                    }
                }
            }
        }
    }

    /// Arbitrary bytes: never panics; within supported heights equals the specification algorithm.
    pub fn decode_arbitrary(&mut self, ctx: &mut Ctx, data: &[u8], bias: u32, max: u32, origin: &'static str) {
        if self.give_up() {
            return;
        }
        ctx.eval();
        let t_start = std::time::Instant::now();
        let _slow = SlowGuard { t: t_start, data: data.to_vec(), bias, max, origin };
        let (mut bias, mut max) = (bias, max);
        let header = data.first().copied();
        let within = header.map(|h| ((h >> 2) & 31) as u32 <= supported_height(BF[(h & 3) as usize])).unwrap_or(true);
        let (mut reference, mut vol) = if within {
            let (r, v) = ref_decode_vol(data, bias, max);
            (Some(r), v)
        } else {
            (None, 0)
        };
        // A filled node near the root means hundreds of MB of pages in the library; keep
        // a budget for those and otherwise narrow `max` (the bytes stay the same).
        if vol > (1 << 22) {
            if self.heavy_budget > 0 && vol <= (1 << 26) {
                self.heavy_budget -= 1;
                self.tally.add("codec:heavy_fill_run_unclipped", 1);
            } else {
                self.tally.add("codec:heavy_fill_max_narrowed", 1);
                if bias > u32::MAX - (1 << 20) {
                    bias = u32::MAX - (1 << 20);
                }
                max = max.min(bias + (1 << 20));
                let (r, v) = ref_decode_vol(data, bias, max);
                reference = Some(r);
                vol = v;
            }
        }
        let _ = vol;
        let d = data.to_vec();
        let plain = bias == 0 && max == u32::MAX;
        let r = guard(move || {
            let b = IntSet::<u32>::from_sparse_bit_set_bounded(&d, bias, max).ok().map(|(s, rest)| (set_to_iv(&s), s.len(), rest.to_vec()));
            let p = if plain { Some(IntSet::<u32>::from_sparse_bit_set(&d).ok().map(|s| set_to_iv(&s))) } else { None };
            (b, p)
        });
        let sig = |what: &str| format!("codec:decode:{}:{}:bias{}:max{}", what, hex(&data[..data.len().min(24)]), bias, max);
        let (got, plain_got) = match r {
            Ok(g) => g,
            Err(p) => {
                self.violations += 1;
                ctx.judge_panic(&p, &sig("panic"), json!({"bytes": hex(&data[..data.len().min(64)]), "len": data.len(), "bias": bias, "max": max, "origin": origin}), Some(data));
                return;
            }
        };
        if let Some(pg) = plain_got {
            if pg != got.as_ref().map(|g| g.0.clone()) {
                self.violations += 1;
                ctx.violation(&sig("plain_vs_bounded"), json!({"what": "from_sparse_bit_set differs from from_sparse_bit_set_bounded(.., 0, u32::MAX)", "bytes": hex(&data[..data.len().min(64)])}), Some(data));
                return;
            }
        }
        self.tally.add(if got.is_some() { "codec:decode_ok" } else { "codec:decode_err" }, 1);
        let Some(reference) = reference else {
            self.tally.add("codec:height_above_supported", 1);
            return;
        };
        self.tally.add("codec:compared_with_spec", 1);
        let h = header.map(|h| ((h >> 2) & 31) as u32).unwrap_or(0);
        let b = header.map(|h| BF[(h & 3) as usize]).unwrap_or(0);
        match (&got, &reference) {
            (None, RefOut::Invalid) => {
                self.tally.add("codec:both_invalid", 1);
            }
            (Some((iv, len, rest)), RefOut::Ok { members, consumed, nodes }) => {
                if iv != members || *len != members.len() {
                    self.violations += 1;
                    ctx.violation(
                        &sig("members"),
                        json!({"what": "members differ from the specification algorithm", "bytes": hex(&data[..data.len().min(64)]), "bf": b, "height": h,
                               "bias": bias, "max": max, "origin": origin, "got_ranges": iv.0.iter().take(16).collect::<Vec<_>>(), "got_len": len,
                               "spec_ranges": members.0.iter().take(16).collect::<Vec<_>>(), "spec_len": members.len()}),
                        Some(data),
                    );
                    return;
                }
                if rest.as_slice() != &data[*consumed..] {
                    self.violations += 1;
                    ctx.violation(
                        &sig("remainder"),
                        json!({"what": "unread remainder differs from the specification algorithm", "bytes": hex(&data[..data.len().min(64)]), "bf": b, "height": h,
                               "bias": bias, "max": max, "origin": origin, "got_rest_len": rest.len(), "spec_rest_len": data.len() - consumed}),
                        Some(data),
                    );
                    return;
                }
                self.tally.add("codec:both_ok", 1);
                if !members.is_empty() {
                    self.tally.add("codec:both_ok_nonempty", 1);
                }
                if *nodes >= 2 {
                    self.nontrivial(ctx, "dec", &data[..*consumed], ((bias as u64) << 32) | max as u64);
                }
                if *nodes >= 4 && members.0.len() >= 2 && !rest.is_empty() && self.sampled < 2 {
                    self.sampled += 1;
                    ctx.sample_by_kind(
                        &format!("codec:decode:{}", origin),
                        json!({"bytes": hex(&data[..data.len().min(48)]), "bf": b, "height": h, "bias": bias, "max": max, "tree_nodes": nodes,
                               "members_ranges": members.0.iter().take(12).collect::<Vec<_>>(), "members_len": members.len(), "unread_bytes": rest.len(),
                               "agreed": "library == specification algorithm (members and remainder)"}),
                    );
                }
                self.shapes.insert((b, h));
            }
            (g, r) => {
                self.violations += 1;
                ctx.violation(
                    &sig("validity"),
                    json!({"what": "library and specification algorithm disagree on validity", "bytes": hex(&data[..data.len().min(64)]), "bf": b, "height": h,
                           "bias": bias, "max": max, "origin": origin, "library_ok": g.is_some(), "spec": format!("{:?}", match r { RefOut::Invalid => "invalid".to_string(), RefOut::Ok{consumed, nodes, ..} => format!("ok consumed={} nodes={}", consumed, nodes)})}),
                    Some(data),
                );
            }
        }
    }

    pub fn flush(&mut self, ctx: &mut Ctx) {
        let mut t = std::mem::take(&mut self.tally);
        t.flush(ctx, "");
        for (b, h) in self.shapes.drain() {
            ctx.label("codec_bf_height_reached", &format!("bf{:02}/h{:02}", b, h));
        }
    }
}

// ---------------------------------------------------------------- generators

/// Sets aimed at the encoder's corner cases: filled aligned blocks, almost
/// filled blocks, values at powers of the branch factors and at the u32 limits.
pub fn gen_codec_set(rng: &mut Rng) -> Iv {
    let mut iv: Vec<(u32, u32)> = vec![];
    let pieces = 1 + rng.usize(5);
    for _ in 0..pieces {
        let b = *rng.pick(&[2u64, 4, 8, 32]);
        match rng.below(8) {
            0 => {
                // aligned block of size b^k
                let k = 1 + rng.below(if b == 2 { 14 } else if b == 32 { 3 } else { 5 }) as u32;
                let size = b.pow(k).min(1 << 11);
                let idx = rng.below(((1u64 << 32) / size).min(1 << 20));
                let idx = if rng.bool() { idx % 5 } else { idx };
                let lo = idx * size;
                iv.push((lo as u32, (lo + size - 1) as u32));
            }
            1 => {
                // aligned block with one hole
                let k = 1 + rng.below(4) as u32;
                let size = b.pow(k).min(1 << 12);
                let lo = rng.below(4) * size;
                let hole = lo + rng.below(size);
                if hole > lo {
                    iv.push((lo as u32, (hole - 1) as u32));
                }
                if hole + 1 < lo + size {
                    iv.push(((hole + 1) as u32, (lo + size - 1) as u32));
                }
            }
            2 => {
                // around a power of the branch factor
                let k = rng.below(32) as u32;
                let p = b.checked_pow(k).filter(|p| *p <= u32::MAX as u64).unwrap_or(1 << 31);
                let v = (p as i64 + rng.range(-2, 2)).clamp(0, u32::MAX as i64) as u32;
                iv.push((v, v));
            }
            3 => {
                let v = *rng.pick(&[0u32, 1, 0x7FFF_FFFF, 0x8000_0000, 0xFFFF_FFFE, 0xFFFF_FFFF, 0xFFFF_FFE0]);
                iv.push((v, v));
            }
            4 => {
                // top of the range
                let w = rng.below(3000) as u32;
                let hi = u32::MAX - rng.below(3) as u32;
                iv.push((hi - w, hi));
            }
            5 => {
                // sparse random
                for _ in 0..rng.usize(20) {
                    let v = rng.u32() >> rng.below(32);
                    iv.push((v, v));
                }
            }
            6 => {
                // dense random in a small window
                let base = (rng.u32() >> rng.below(32)).min(u32::MAX - 5000);
                for _ in 0..rng.usize(400) {
                    let v = base + rng.below(1200) as u32;
                    iv.push((v, v));
                }
            }
            _ => {
                let lo = rng.u32() >> rng.below(32);
                let w = rng.below(5000) as u32;
                iv.push((lo, lo.saturating_add(w)));
            }
        }
    }
    Iv::from_intervals(iv)
}

pub fn build_set(m: &Iv, rng: &mut Rng) -> IntSet<u32> {
    let mut s = IntSet::<u32>::empty();
    for (lo, hi) in &m.0 {
        if rng.bool() || hi - lo > 64 {
            s.insert_range(*lo..=*hi);
        } else {
            s.extend(*lo..=*hi);
        }
    }
    s
}

/// A syntactically complete random tree stream (possibly followed by spare bytes).
pub fn gen_tree_bytes(rng: &mut Rng) -> Vec<u8> {
    let code = rng.below(4) as u8;
    let b = BF[code as usize];
    let maxh = supported_height(b);
    let h = if rng.chance(1, 12) { rng.below(32) as u32 } else { 1 + rng.below(maxh as u64) as u32 };
    let mut bits: Vec<bool> = vec![];
    let mut queue: VecDeque<u32> = VecDeque::new();
    queue.push_back(1);
    let mut budget = 40 + rng.usize(200);
    let density = 1 + rng.below(4);
    while let Some(depth) = queue.pop_front() {
        let mut node: Vec<bool> = (0..b).map(|_| rng.below(8 * (b as u64 / 2).max(1)) < density * 4).collect();
        if budget == 0 || rng.chance(1, 14) {
            node.iter_mut().for_each(|x| *x = false); // filled node
        } else if !node.iter().any(|x| *x) {
            let i = rng.usize(b as usize);
            node[i] = true;
        }
        budget = budget.saturating_sub(1);
        if depth < h {
            for x in &node {
                if *x {
                    queue.push_back(depth + 1);
                }
            }
        }
        bits.extend(node);
    }
    let mut out = vec![code | ((h as u8 & 31) << 2) | if rng.chance(1, 10) { 0x80 } else { 0 }];
    for (i, bit) in bits.iter().enumerate() {
        if i % 8 == 0 {
            out.push(0);
        }
        if *bit {
            *out.last_mut().unwrap() |= 1 << (i % 8);
        }
    }
    for _ in 0..rng.below(4) {
        out.push(rng.u32() as u8);
    }
    out
}

pub fn mutate(rng: &mut Rng, data: &mut Vec<u8>) {
    for _ in 0..1 + rng.below(3) {
        match rng.below(6) {
            0 if !data.is_empty() => {
                let i = rng.usize(data.len());
                data[i] ^= 1 << rng.below(8);
            }
            1 if !data.is_empty() => {
                let n = rng.usize(data.len());
                data.truncate(n);
            }
            2 => data.push(rng.u32() as u8),
            3 if !data.is_empty() => {
                let i = rng.usize(data.len());
                data[i] = *rng.pick(&[0u8, 0xFF, 0x01, 0x80]);
            }
            4 if !data.is_empty() => {
                // change the height / branch factor
                data[0] = rng.u32() as u8;
            }
            5 if data.len() > 2 => {
                let i = 1 + rng.usize(data.len() - 1);
                data.remove(i);
            }
            _ => {}
        }
    }
}

pub const BIAS_MAX: [(u32, u32); 14] = [
    (0, u32::MAX),
    (0, 0),
    (0, 1),
    (1, 1),
    (0, 31),
    (5, 20),
    (0, 255),
    (1000, 1010),
    (u32::MAX, u32::MAX),
    (u32::MAX - 1, u32::MAX),
    (0x8000_0000, u32::MAX),
    (0, 65536),
    (7, 6),
    (3, u32::MAX),
];

pub fn random_bias_max(rng: &mut Rng) -> (u32, u32) {
    match rng.below(5) {
        0 => (0, u32::MAX),
        1 => *rng.pick(&BIAS_MAX),
        2 => (rng.below(100) as u32, rng.below(3000) as u32),
        3 => (rng.u32() >> rng.below(32), rng.u32() >> rng.below(16)),
        _ => (u32::MAX - (rng.u32() >> rng.below(32).max(8)), u32::MAX - rng.below(3) as u32),
    }
}

/// Library side of the decode comparison without a `Ctx` (members as intervals, length,
/// unread remainder); used by the libFuzzer target `c14_sbs` in /verif/harness/fuzz.
pub fn lib_decode_bounded(data: &[u8], bias: u32, max: u32) -> Option<(Iv, u64, Vec<u8>)> {
    IntSet::<u32>::from_sparse_bit_set_bounded(data, bias, max).ok().map(|(s, rest)| (set_to_iv(&s), s.len(), rest.to_vec()))
}
