//! Reference models of a mathematical set of u32.
//!
//! * [`Naive`]: a `BTreeSet<u32>` with an explicit universe (a sorted `Vec` of
//!   every domain value). Every observer is computed by brute force. This is
//!   the oracle on the small domains.
//! * [`Iv`]: a normalised list of inclusive u32 intervals, used on the 16/32-bit
//!   domains where the universe cannot be enumerated at every step. On the
//!   small domains both models are driven in lock-step and compared, so the
//!   interval model is itself validated against the brute-force one.

use std::cmp::Ordering;
use std::collections::BTreeSet;

#[derive(Clone, Debug, PartialEq, Eq, Default)]
pub struct Iv(pub Vec<(u32, u32)>);

fn normalise(mut v: Vec<(u32, u32)>) -> Vec<(u32, u32)> {
    v.retain(|(a, b)| a <= b);
    v.sort_unstable();
    let mut out: Vec<(u32, u32)> = Vec::with_capacity(v.len());
    for (a, b) in v {
        if let Some(last) = out.last_mut() {
            if a as u64 <= last.1 as u64 + 1 {
                if b > last.1 {
                    last.1 = b;
                }
                continue;
            }
        }
        out.push((a, b));
    }
    out
}

impl Iv {
    pub fn new() -> Self {
        Iv(vec![])
    }
    pub fn from_intervals(v: Vec<(u32, u32)>) -> Self {
        Iv(normalise(v))
    }
    pub fn from_range(lo: u32, hi: u32) -> Self {
        if lo <= hi {
            Iv(vec![(lo, hi)])
        } else {
            Iv(vec![])
        }
    }
    pub fn from_points<I: IntoIterator<Item = u32>>(it: I) -> Self {
        Iv(normalise(it.into_iter().map(|v| (v, v)).collect()))
    }
    pub fn len(&self) -> u64 {
        self.0.iter().map(|(a, b)| (*b - *a) as u64 + 1).sum()
    }
    pub fn is_empty(&self) -> bool {
        self.0.is_empty()
    }
    pub fn first(&self) -> Option<u32> {
        self.0.first().map(|r| r.0)
    }
    pub fn last(&self) -> Option<u32> {
        self.0.last().map(|r| r.1)
    }
    pub fn contains(&self, v: u32) -> bool {
        let i = self.0.partition_point(|r| r.1 < v);
        self.0.get(i).map(|r| r.0 <= v).unwrap_or(false)
    }
    pub fn intersects_range(&self, lo: u32, hi: u32) -> bool {
        if lo > hi {
            return false;
        }
        let i = self.0.partition_point(|r| r.1 < lo);
        self.0.get(i).map(|r| r.0 <= hi).unwrap_or(false)
    }
    pub fn union(&self, o: &Iv) -> Iv {
        let mut v = self.0.clone();
        v.extend_from_slice(&o.0);
        Iv(normalise(v))
    }
    pub fn intersect(&self, o: &Iv) -> Iv {
        let (a, b) = (&self.0, &o.0);
        let (mut i, mut j) = (0, 0);
        let mut out = vec![];
        while i < a.len() && j < b.len() {
            let lo = a[i].0.max(b[j].0);
            let hi = a[i].1.min(b[j].1);
            if lo <= hi {
                out.push((lo, hi));
            }
            if a[i].1 < b[j].1 {
                i += 1;
            } else {
                j += 1;
            }
        }
        Iv(out)
    }
    pub fn subtract(&self, o: &Iv) -> Iv {
        let mut out = vec![];
        let b = &o.0;
        let mut j = 0;
        for &(lo0, hi) in &self.0 {
            let mut lo = lo0 as u64;
            let hi = hi as u64;
            while j < b.len() && (b[j].1 as u64) < lo {
                j += 1;
            }
            let mut k = j;
            while lo <= hi {
                match b.get(k) {
                    Some(&(bl, bh)) if (bl as u64) <= hi => {
                        if (bl as u64) > lo {
                            out.push((lo as u32, bl - 1));
                        }
                        lo = bh as u64 + 1;
                        k += 1;
                    }
                    _ => {
                        out.push((lo as u32, hi as u32));
                        break;
                    }
                }
            }
        }
        Iv(out)
    }
    pub fn iter(&self) -> impl DoubleEndedIterator<Item = u32> + '_ {
        self.0.iter().flat_map(|(a, b)| *a..=*b)
    }
    /// Members strictly greater than `v`, ascending.
    pub fn after(&self, v: u32) -> impl Iterator<Item = u32> + '_ {
        let i = self.0.partition_point(|r| r.1 <= v);
        self.0[i..].iter().flat_map(move |(a, b)| {
            let lo = if *a > v { *a } else { v + 1 };
            lo..=*b
        })
    }
    /// Maximal runs of members that are consecutive *in the domain* `u`
    /// (two members are neighbours when no domain value lies between them).
    pub fn domain_ranges(&self, u: &Iv) -> Vec<(u32, u32)> {
        let mut out: Vec<(u32, u32)> = vec![];
        for &(a, b) in &self.0 {
            if let Some(last) = out.last_mut() {
                // gap is last.1+1 ..= a-1 (non-empty because normalised)
                if !u.intersects_range(last.1 + 1, a - 1) {
                    last.1 = b;
                    continue;
                }
            }
            out.push((a, b));
        }
        out
    }
    /// Lexicographic comparison of the ascending member sequences.
    pub fn lex_cmp(&self, o: &Iv) -> Ordering {
        let d1 = self.subtract(o).first();
        let d2 = o.subtract(self).first();
        match (d1, d2) {
            (None, None) => Ordering::Equal,
            // every member of self is in o, o has extra members: at the first
            // extra member d, self either has a larger member (self > o) or ended (self < o)
            (None, Some(d)) => {
                if self.last().map(|l| l > d).unwrap_or(false) {
                    Ordering::Greater
                } else {
                    Ordering::Less
                }
            }
            (Some(d), None) => {
                if o.last().map(|l| l > d).unwrap_or(false) {
                    Ordering::Less
                } else {
                    Ordering::Greater
                }
            }
            (Some(a), Some(b)) => {
                // the smaller first-difference decides: its owner holds the smaller
                // element at the first differing position (the other has something larger).
                a.cmp(&b)
            }
        }
    }
}

/// Brute-force model: members + explicit universe.
#[derive(Clone, Debug)]
pub struct Naive {
    pub members: BTreeSet<u32>,
}

impl Naive {
    pub fn new() -> Self {
        Naive { members: BTreeSet::new() }
    }
    pub fn all(u: &[u32]) -> Self {
        Naive { members: u.iter().copied().collect() }
    }
    pub fn insert_range(&mut self, u: &[u32], lo: u32, hi: u32) {
        for v in u {
            if *v >= lo && *v <= hi {
                self.members.insert(*v);
            }
        }
    }
    pub fn remove_range(&mut self, lo: u32, hi: u32) {
        self.members.retain(|v| !(*v >= lo && *v <= hi));
    }
    pub fn invert(&mut self, u: &[u32]) {
        self.members = u.iter().copied().filter(|v| !self.members.contains(v)).collect();
    }
    pub fn ranges(&self, u: &[u32]) -> Vec<(u32, u32)> {
        let mut out: Vec<(u32, u32)> = vec![];
        let mut open = false;
        for v in u {
            if self.members.contains(v) {
                if open {
                    out.last_mut().unwrap().1 = *v;
                } else {
                    out.push((*v, *v));
                    open = true;
                }
            } else {
                open = false;
            }
        }
        out
    }
}

#[cfg(test)]
mod tests {
    use super::*;
    #[test]
    fn iv_ops_match_btreeset() {
        let mut rng = vf_core::Rng::new(7);
        for _ in 0..20000 {
            let mk = |rng: &mut vf_core::Rng| {
                let n = rng.usize(6);
                let pts: Vec<u32> = (0..n).map(|_| rng.below(24) as u32).collect();
                pts
            };
            let (pa, pb) = (mk(&mut rng), mk(&mut rng));
            let (a, b) = (Iv::from_points(pa.clone()), Iv::from_points(pb.clone()));
            let (sa, sb): (BTreeSet<u32>, BTreeSet<u32>) = (pa.into_iter().collect(), pb.into_iter().collect());
            let c = |x: &Iv| x.iter().collect::<BTreeSet<u32>>();
            assert_eq!(c(&a.union(&b)), &sa | &sb);
            assert_eq!(c(&a.intersect(&b)), &sa & &sb);
            assert_eq!(c(&a.subtract(&b)), &sa - &sb);
            assert_eq!(a.lex_cmp(&b), sa.cmp(&sb), "{:?} {:?}", sa, sb);
            let v = rng.below(24) as u32;
            assert_eq!(a.after(v).collect::<Vec<_>>(), sa.range(v + 1..).copied().collect::<Vec<_>>());
            assert_eq!(a.contains(v), sa.contains(&v));
        }
    }
}
