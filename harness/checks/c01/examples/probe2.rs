use read_fonts::tables::aat::ExtendedStateTableU16;
use read_fonts::{FontData, FontRead};
fn main() {
    let mut t: Vec<u8> = vec![];
    for v in [4u32, 16, 16, 24] { t.extend(v.to_be_bytes()); }
    t.extend([0u8; 8]);              // state array: 4 classes x 1 state, all entry 0
    t.extend([0, 1, 0, 2, 0xAB, 0xCD]); // entry 0: new_state=1 flags=2 payload=0xABCD
    let mut backing = vec![0u8; t.len() + 9];
    for off in 0..2 {
        let start = (8 - backing.as_ptr() as usize % 8) % 8 + off;
        backing[start..start + t.len()].copy_from_slice(&t);
        let data = &backing[start..start + t.len()];
        let table = ExtendedStateTableU16::read(FontData::new(data)).unwrap();
        let r = std::panic::catch_unwind(|| table.entry(0, 0).map(|e| (e.new_state, e.flags, e.payload)));
        println!("address%2={} -> {:?}", data.as_ptr() as usize % 2, r.map_err(|_| "PANIC"));
    }
}
