use read_fonts::{FontRef, TableProvider, collections::IntSet, types::GlyphId16};
fn main() {
    let mut data = std::fs::read("/repo/font-test-data/test_data/ttf/context_closure.ttf").unwrap();
    let pos: usize = std::env::args().nth(1).unwrap().parse().unwrap();
    let val: u8 = u8::from_str_radix(&std::env::args().nth(2).unwrap(), 16).unwrap();
    println!("byte@{} {:02x} -> {:02x}", pos, data[pos], val);
    data[pos] = val;
    let font = FontRef::new(&data).unwrap();
    let gsub = font.gsub().unwrap();
    let mut s = IntSet::new();
    s.insert_range(GlyphId16::new(0)..=GlyphId16::new(12));
    let r = std::panic::catch_unwind(|| gsub.closure_glyphs(s).map(|s| s.len()));
    println!("{:?}", r.map_err(|_| "PANIC"));
}
