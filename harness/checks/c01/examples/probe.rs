use vf_core::gen::relocate;
use vf_c01::Spec;
fn main() {
    let path = std::env::args().nth(1).unwrap();
    let rec: serde_json::Value = serde_json::from_slice(&std::fs::read(&path).unwrap()).unwrap();
    let data = std::fs::read(rec["input_file"].as_str().unwrap()).unwrap();
    let spec = Spec::from_json(&rec["detail"]["case"]["spec"]);
    vf_core::install_panic_hook();
    for mis in 0..8 {
        let (own, r) = relocate(&data, mis, 0xA5);
        let d = &own[r];
        let o = spec.run(d);
        println!("mis={} key={:?} panics={:?}", mis, o.key(), o.panics.iter().map(|(w,p)| format!("{} {}:{}", w, p.file.rsplit('/').next().unwrap_or(""), p.line)).collect::<Vec<_>>());
    }
}
