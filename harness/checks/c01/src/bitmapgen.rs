//! Synthetic EBLC/CBLC tables: every index subtable format (1–5) with glyph
//! ranges / glyph arrays / offset arrays on their boundaries. No corpus font
//! has the sparse formats 4 and 5, so mutation alone never reaches their
//! lookup code (seeded miss C01-r3-1).

use vf_core::Rng;

fn p16(v: &mut Vec<u8>, x: u16) {
    v.extend_from_slice(&x.to_be_bytes());
}
fn p32(v: &mut Vec<u8>, x: u32) {
    v.extend_from_slice(&x.to_be_bytes());
}

/// Returns (description, EBLC/CBLC bytes, EBDT/CBDT bytes).
pub fn synth(rng: &mut Rng, cblc: bool) -> (String, Vec<u8>, Vec<u8>) {
    let n_sizes = 1 + rng.usize(2);
    let mut desc = String::new();
    // index subtable lists are appended after the header + size records
    let header_len = 8 + 48 * n_sizes;
    let mut lists: Vec<u8> = vec![];
    let mut size_recs: Vec<u8> = vec![];
    for _ in 0..n_sizes {
        let n_sub = 1 + rng.usize(3);
        let list_off = header_len + lists.len();
        // records (8 bytes each) then subtables
        let mut recs: Vec<u8> = vec![];
        let mut subs: Vec<u8> = vec![];
        let mut first_all = u16::MAX;
        let mut last_all = 0u16;
        let mut next_first = *rng.pick(&[0u16, 1, 5, 100, 0x7FF0, 0xFFF0]);
        for _ in 0..n_sub {
            let format = 1 + rng.usize(5) as u16;
            let span = *rng.pick(&[0u16, 1, 2, 7, 15]);
            let first = next_first;
            let last = first.saturating_add(span);
            next_first = last.saturating_add(1 + rng.usize(3) as u16);
            first_all = first_all.min(first);
            last_all = last_all.max(last);
            let sub_off = 8 * n_sub + subs.len();
            p16(&mut recs, first);
            p16(&mut recs, last);
            p32(&mut recs, sub_off as u32);
            let image_format = *rng.pick(&[1u16, 2, 5, 6, 7, 17, 18, 19]);
            p16(&mut subs, format);
            p16(&mut subs, image_format);
            p32(&mut subs, 4); // image data offset
            let n = (last - first) as usize + 1;
            desc.push_str(&format!("f{}[{}..{}]", format, first, last));
            match format {
                1 => {
                    let mut off = 0u32;
                    for _ in 0..=n {
                        p32(&mut subs, off);
                        off = off.wrapping_add(*rng.pick(&[0u32, 1, 9, 0xFFFF_FFF0]));
                    }
                }
                2 => {
                    p32(&mut subs, *rng.pick(&[0u32, 8, 0xFFFF_FFFF]));
                    subs.extend_from_slice(&[8, 8, 0, 0, 8, 0, 0, 8]);
                }
                3 => {
                    let mut off = 0u16;
                    for _ in 0..=n {
                        p16(&mut subs, off);
                        off = off.wrapping_add(*rng.pick(&[0u16, 1, 9, 0xFFF0]));
                    }
                    if (n + 1) % 2 == 1 {
                        p16(&mut subs, 0);
                    }
                }
                4 => {
                    // sparse: numGlyphs + 1 (glyph id, offset) pairs; the sentinel's glyph id
                    // is sometimes inside the strike's range, sometimes 0 / 0xFFFF / unsorted
                    let k = rng.usize(n.min(6) + 1);
                    let declared = match rng.usize(6) {
                        0 => k as u32 + 1,
                        1 => (k as u32).saturating_sub(1),
                        _ => k as u32,
                    };
                    p32(&mut subs, declared);
                    let mut g = first;
                    let mut off = 0u16;
                    for i in 0..=k {
                        let gid = if i == k {
                            *rng.pick(&[last, g, first, 0, 0xFFFF, last.saturating_add(1)])
                        } else {
                            g
                        };
                        p16(&mut subs, gid);
                        p16(&mut subs, off);
                        off = off.wrapping_add(*rng.pick(&[0u16, 10, 0xFFF0]));
                        g = g.saturating_add(1 + rng.usize(3) as u16);
                    }
                    desc.push_str(&format!("(k{},d{})", k, declared));
                }
                _ => {
                    p32(&mut subs, *rng.pick(&[0u32, 8, 0xFFFF_FFFF]));
                    subs.extend_from_slice(&[8, 8, 0, 0, 8, 0, 0, 8]);
                    let k = rng.usize(n.min(6) + 1);
                    p32(&mut subs, *rng.pick(&[k as u32, k as u32 + 1, 0]));
                    let mut g = first;
                    for _ in 0..k {
                        p16(&mut subs, g);
                        g = g.saturating_add(1 + rng.usize(3) as u16);
                    }
                    if k % 2 == 1 {
                        p16(&mut subs, 0);
                    }
                }
            }
            while subs.len() % 4 != 0 {
                subs.push(0);
            }
        }
        let list_len = recs.len() + subs.len();
        lists.extend_from_slice(&recs);
        lists.extend_from_slice(&subs);
        // BitmapSize record (48 bytes)
        p32(&mut size_recs, list_off as u32);
        p32(&mut size_recs, list_len as u32);
        p32(&mut size_recs, n_sub as u32);
        p32(&mut size_recs, 0);
        size_recs.extend_from_slice(&[0u8; 24]);
        p16(&mut size_recs, first_all);
        p16(&mut size_recs, last_all);
        size_recs.extend_from_slice(&[12, 12, *rng.pick(&[1u8, 8, 32]), 1]);
        desc.push(';');
    }
    let mut t = vec![];
    p16(&mut t, if cblc { 3 } else { 2 });
    p16(&mut t, 0);
    p32(&mut t, n_sizes as u32);
    t.extend_from_slice(&size_recs);
    t.extend_from_slice(&lists);
    let mut data = vec![];
    p16(&mut data, if cblc { 3 } else { 2 });
    p16(&mut data, 0);
    data.extend(rng.bytes(64));
    (desc, t, data)
}
