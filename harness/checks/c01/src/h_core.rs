//! Hand-written helpers: cmap, loca/glyf, metrics, name/post, misc small tables.

use crate::obs::Obs;
use crate::sets::*;
use crate::walk::walk_table;
use read_fonts::collections::IntSet;
use read_fonts::tables::cmap::{Cmap, Cmap12, Cmap12IterLimits, Cmap14, Cmap4, CmapSubtable};
use read_fonts::tables::glyf::{Glyf, Glyph, PointFlags};
use read_fonts::tables::loca::Loca;
use read_fonts::traversal::SomeTable;
use read_fonts::types::{F26Dot6, F2Dot14, Fixed, GlyphId, GlyphId16, Point, Tag};
use read_fonts::{FontRef, TableProvider};

/// Shared per-walk environment.
pub struct Env<'f, 'a> {
    pub font: &'f FontRef<'a>,
    pub full: bool,
    pub num_glyphs: u32,
    pub axis_count: u16,
    pub gids: Vec<u32>,
    pub coords: Vec<Vec<F2Dot14>>,
}

impl<'f, 'a> Env<'f, 'a> {
    pub fn new(font: &'f FontRef<'a>, full: bool) -> Self {
        let num_glyphs = font.maxp().map(|m| m.num_glyphs() as u32).unwrap_or(0);
        let axis_count = font.fvar().map(|f| f.axis_count()).unwrap_or(0);
        Env {
            font,
            full,
            num_glyphs,
            axis_count,
            gids: gid_set(num_glyphs, full),
            coords: coord_sets(axis_count, full),
        }
    }
    pub fn cap(&self, full: usize, mutant: usize) -> usize {
        if self.full {
            full
        } else {
            mutant
        }
    }
}

// ------------------------------------------------------------------ cmap

/// `Cmap4::iter` under the work monitor: format 4 maps 16-bit code points, so a
/// correct iterator (start and end of every segment clamped to the running end)
/// yields at most 65 536 pairs whatever the segments look like.
pub fn cmap4_iter(o: &mut Obs, t: &Cmap4, digest_cap: usize) {
    o.drain("Cmap4::iter", "65536", 65_536, digest_cap, t.iter(), |o, (c, g)| {
        o.d.u32(c);
        o.d.u32(g.to_u32());
    });
}

/// `Cmap12::iter_with_limits` under the work monitor. Every pair has a code
/// point <= max_char (ascending, each at most once) and every group contributes
/// at most glyph_count pairs: min(max_char + 1, num_groups x glyph_count).
pub fn cmap12_iter_with_limits(o: &mut Obs, t: &Cmap12, lim: Cmap12IterLimits, digest_cap: usize) {
    let by_char = lim.max_char as u64 + 1;
    let by_groups = (t.groups().len() as u64).saturating_mul(lim.glyph_count as u64);
    o.drain("Cmap12::iter_with_limits", "min(max_char+1,num_groups*glyph_count)", by_char.min(by_groups), digest_cap, t.iter_with_limits(lim), |o, (c, g)| {
        o.d.u32(c);
        o.d.u32(g.to_u32());
    });
}

/// Number of mappings a format 14 subtable encodes, counted record by record
/// (every selector: sum of (additionalCount + 1) over its default UVS ranges +
/// number of non-default UVS mappings); stops counting above `stop`.
fn cmap14_encoded_mappings(t: &Cmap14, stop: u64) -> u64 {
    let mut sum = 0u64;
    for vs in t.var_selector() {
        if let Some(Ok(d)) = vs.default_uvs(t.offset_data()) {
            for r in d.ranges() {
                sum += r.additional_count() as u64 + 1;
                if sum > stop {
                    return sum;
                }
            }
        }
        if let Some(Ok(nd)) = vs.non_default_uvs(t.offset_data()) {
            sum += nd.uvs_mapping().len() as u64;
        }
        if sum > stop {
            return sum;
        }
    }
    sum
}

/// `Cmap14::iter` under the work monitor: at most the number of encoded mappings.
pub fn cmap14_iter(o: &mut Obs, t: &Cmap14, digest_cap: usize) {
    let ceiling = cmap14_encoded_mappings(t, crate::obs::DRAIN_MAX_CEILING);
    o.drain("Cmap14::iter", "sum(defaultUVS.additionalCount+1)+sum(numUVSMappings)", ceiling, digest_cap, t.iter(), |o, (c, s, v)| {
        o.d.u32(c);
        o.d.u32(s);
        o.d.dbg(&v);
    });
}

pub fn cmap(o: &mut Obs, env: &Env, cmap: &Cmap) {
    let font = env.font;
    for cp in CODEPOINTS {
        o.helper("Cmap::map_codepoint");
        let r = cmap.map_codepoint(cp);
        o.opt(&r);
    }
    let iter_cap = env.cap(200_000, 3_000);
    let mut n_sub = 0;
    for rec in cmap.encoding_records() {
        n_sub += 1;
        if n_sub > env.cap(64, 8) {
            break;
        }
        let st = match rec.subtable(cmap.offset_data()) {
            Ok(s) => s,
            Err(e) => {
                o.err(&e);
                continue;
            }
        };
        o.helper("CmapSubtable::language");
        o.d.u32(st.language());
        match &st {
            CmapSubtable::Format4(t) => {
                // the subtable's own segment boundaries ±1
                let mut cps: Vec<u32> = CODEPOINTS.to_vec();
                let (sc, ec) = (t.start_code(), t.end_code());
                let nseg = sc.len().min(ec.len());
                for i in (0..nseg.min(12)).chain(nseg.saturating_sub(3)..nseg) {
                    for c in [sc[i].get() as u32, ec[i].get() as u32] {
                        cps.extend([c.wrapping_sub(1), c, c + 1]);
                    }
                }
                for cp in cps {
                    o.helper("Cmap4::map_codepoint");
                    o.opt(&t.map_codepoint(cp));
                }
                cmap4_iter(o, t, iter_cap);
            }
            CmapSubtable::Format12(t) => {
                let mut cps: Vec<u32> = CODEPOINTS.to_vec();
                let groups = t.groups();
                let ng = groups.len();
                for i in (0..ng.min(12)).chain(ng.saturating_sub(3)..ng) {
                    let g = &groups[i];
                    for c in [g.start_char_code(), g.end_char_code()] {
                        cps.extend([c.wrapping_sub(1), c, c.wrapping_add(1)]);
                    }
                }
                for cp in cps {
                    o.helper("Cmap12::map_codepoint");
                    o.opt(&t.map_codepoint(cp));
                }
                o.helper("Cmap12::iter");
                let mut n = 0u64;
                for (c, g) in t.iter().take(iter_cap) {
                    o.d.u32(c);
                    o.d.u32(g.to_u32());
                    n += 1;
                }
                o.d.u64(n);
                for lim in [
                    Cmap12IterLimits::default_for_font(font),
                    Cmap12IterLimits::default(),
                    Cmap12IterLimits { max_char: 0, glyph_count: 0 },
                    Cmap12IterLimits { max_char: u32::MAX, glyph_count: u32::MAX },
                    Cmap12IterLimits { max_char: 0xFFFF, glyph_count: env.num_glyphs.max(1) },
                ] {
                    cmap12_iter_with_limits(o, t, lim, iter_cap);
                }
            }
            CmapSubtable::Format14(t) => {
                let mut sels: Vec<u32> = SELECTORS.to_vec();
                for vs in t.var_selector().iter().take(8) {
                    let s: u32 = vs.var_selector().into();
                    sels.extend([s.wrapping_sub(1), s, s + 1]);
                }
                for s in &sels {
                    for cp in CODEPOINTS.iter().take(env.cap(24, 10)) {
                        o.helper("Cmap14::map_variant");
                        o.opt(&t.map_variant(*cp, *s));
                    }
                }
                cmap14_iter(o, t, iter_cap);
                // re-query what the iterator produced
                for (c, s, _) in t.iter().take(16) {
                    o.opt(&t.map_variant(c, s));
                }
                let mut unicodes = IntSet::<u32>::new();
                unicodes.extend(sels.iter().copied());
                unicodes.extend(CODEPOINTS.iter().copied());
                let mut glyphs = IntSet::<GlyphId>::new();
                o.helper("Cmap14::closure_glyphs");
                t.closure_glyphs(&unicodes, &mut glyphs);
                o.d.u64(glyphs.len());
                for g in glyphs.iter().take(64) {
                    o.d.u32(g.to_u32());
                }
            }
            _ => {}
        }
    }
    let mut unicodes = IntSet::<u32>::new();
    unicodes.extend(CODEPOINTS.iter().copied());
    unicodes.insert_range(0xFE00..=0xFE0F);
    let mut glyphs = IntSet::<GlyphId>::new();
    o.helper("Cmap::closure_glyphs");
    cmap.closure_glyphs(&unicodes, &mut glyphs);
    o.d.u64(glyphs.len());
}

// ------------------------------------------------------------------ loca / glyf

/// TrueType bytecode decoding (the iterator keeps yielding the same error once
/// it hits one, so it is consumed up to the first error).
pub fn bytecode(o: &mut Obs, code: &[u8]) {
    use read_fonts::tables::glyf::bytecode::{decode_all, Decoder};
    let n = code.len();
    for pc in [0usize, 1, n.wrapping_sub(1), n, n + 1, usize::MAX] {
        // (every instruction is at least one byte long: at most len - pc instructions and one error)
        let mut failed = false;
        let until_error = decode_all(code, pc).take_while(move |r| {
            let go = !failed;
            failed |= r.is_err();
            go
        });
        let k = o.drain("bytecode::decode_all", "len-pc+1", (n - pc.min(n)) as u64 + 1, 70_000, until_error, |o, ins| {
            match ins {
                Ok(ins) => {
                    o.d.str(ins.opcode.name());
                    o.d.u64(ins.pc as u64);
                    o.d.u64(ins.inline_operands.len() as u64);
                    o.d.bytes(&[ins.inline_operands.is_empty() as u8, ins.opcode.is_push() as u8]);
                    for v in ins.inline_operands.values().take(256) {
                        o.d.i64(v as i64);
                    }
                    if ins.pc < pc.saturating_add(24) {
                        o.d.str(&ins.to_string());
                    }
                }
                Err(_) => o.d.bytes(&[0xEE]),
            }
        });
        o.d.u64(k);
        if pc > n {
            let mut d = Decoder::new(code, pc);
            o.d.bytes(&[d.decode().is_none() as u8]);
        }
    }
}

pub fn glyph_helpers<'a>(o: &mut Obs, env: &Env, glyph: &Glyph<'a>, walk_generic: bool) {
    if walk_generic {
        walk_table(o, glyph as &dyn SomeTable<'a>, 2);
    }
    let pt_cap = 70_000;
    match glyph {
        Glyph::Simple(g) => {
            o.helper("SimpleGlyph::num_points");
            let n = g.num_points();
            o.d.u64(n as u64);
            o.helper("SimpleGlyph::has_overlapping_contours");
            o.d.bytes(&[g.has_overlapping_contours() as u8]);
            // (the last end point is a u16 and last + 1 must not overflow: at most 65 535 points)
            o.drain("SimpleGlyph::points", "65535", 65_535, pt_cap, g.points(), |o, p| {
                o.d.i64(((p.x as i64) << 20) ^ ((p.y as i64) << 1) ^ p.on_curve as i64);
            });
            // read_points_fast with exact and off-by-one buffer sizes
            for len in [n, n.wrapping_sub(1), n + 1, 0] {
                if len > 70_000 {
                    continue;
                }
                let mut pts = vec![Point::<i32>::default(); len];
                let mut flags = vec![PointFlags::default(); len];
                o.helper("SimpleGlyph::read_points_fast<i32>");
                let r = g.read_points_fast(&mut pts, &mut flags);
                o.res(&r);
                if r.is_ok() {
                    for (p, f) in pts.iter().zip(&flags) {
                        o.d.i64(((p.x as i64) << 32) ^ (p.y as i64 & 0xFFFF_FFFF));
                        o.d.bytes(&[f.is_on_curve() as u8, f.is_off_curve_quad() as u8, f.is_off_curve_cubic() as u8]);
                    }
                }
            }
            if env.full || n <= 64 {
                let mut flags = vec![PointFlags::default(); n];
                let mut p1 = vec![Point::<F26Dot6>::default(); n];
                o.helper("SimpleGlyph::read_points_fast<F26Dot6>");
                let r = g.read_points_fast(&mut p1, &mut flags);
                o.res(&r);
                for p in &p1 {
                    o.d.i64(p.x.to_bits() as i64 ^ ((p.y.to_bits() as i64) << 32));
                }
                let mut p2 = vec![Point::<Fixed>::default(); n];
                o.helper("SimpleGlyph::read_points_fast<Fixed>");
                let r = g.read_points_fast(&mut p2, &mut flags);
                o.res(&r);
                for p in &p2 {
                    o.d.i64(p.x.to_bits() as i64 ^ ((p.y.to_bits() as i64) << 32));
                }
                let mut p3 = vec![Point::<f32>::default(); n];
                o.helper("SimpleGlyph::read_points_fast<f32>");
                let r = g.read_points_fast(&mut p3, &mut flags);
                o.res(&r);
                for p in &p3 {
                    o.d.f32(p.x);
                    o.d.f32(p.y);
                }
            }
            o.helper("SimpleGlyph::instructions");
            o.d.u64(g.instructions().len() as u64);
            o.d.bytes(g.instructions());
            bytecode(o, g.instructions());
            o.d.u64(g.glyph_data().len() as u64);
        }
        Glyph::Composite(g) => {
            // a component record is at least flags + glyph id + two byte arguments = 6 bytes, all of which must be read
            let comp_len = g.component_data().len() as u64;
            o.drain("CompositeGlyph::components", "component_bytes/6", comp_len / 6, pt_cap, g.components(), |o, c| {
                o.d.dbg(&c);
                o.d.dbg(&c.anchor.compute_flags());
                o.d.dbg(&c.transform.compute_flags());
            });
            // (the id/flags iterator reads 4 bytes per component and skips the rest unchecked)
            o.drain("CompositeGlyph::component_glyphs_and_flags", "component_bytes/4", comp_len / 4, pt_cap, g.component_glyphs_and_flags(), |o, (gid, fl)| {
                o.d.u32(gid.to_u32());
                o.d.dbg(&fl);
            });
            o.helper("CompositeGlyph::count_and_instructions");
            let (n, ins) = g.count_and_instructions();
            o.d.u64(n as u64);
            o.d.dbg(&ins.map(|i| i.len()));
            o.helper("CompositeGlyph::instructions");
            o.d.dbg(&g.instructions().map(|i| i.len()));
            if let Some(code) = g.instructions() {
                bytecode(o, code);
            }
        }
    }
    o.d.dbg(&(glyph.number_of_contours(), glyph.x_min(), glyph.y_min(), glyph.x_max(), glyph.y_max()));
}

pub fn loca_glyf<'a>(o: &mut Obs, env: &Env, loca: &Loca<'a>, glyf: &Glyf<'a>) {
    o.helper("Loca::len");
    let n = loca.len();
    o.d.u64(n as u64);
    o.d.bytes(&[loca.is_empty() as u8]);
    o.helper("Loca::all_offsets_are_ascending");
    o.d.bytes(&[loca.all_offsets_are_ascending() as u8]);
    let mut gids = env.gids.clone();
    gids.extend([(n as u32).wrapping_sub(1), n as u32, n as u32 + 1]);
    gids.sort_unstable();
    gids.dedup();
    let mut parsed = 0usize;
    for &g in &gids {
        o.helper("Loca::get_raw");
        o.opt(&loca.get_raw(g as usize));
        o.helper("Loca::get_glyf");
        match loca.get_glyf(GlyphId::new(g), glyf) {
            Ok(Some(glyph)) => {
                parsed += 1;
                // the generic traversal of every glyph is costly: sample it
                let generic = env.full && (parsed <= 64 || parsed % 16 == 0) || !env.full && parsed <= 4;
                o.d.bytes(&[2]);
                glyph_helpers(o, env, &glyph, generic);
            }
            Ok(None) => o.d.bytes(&[1]),
            Err(e) => o.err(&e),
        }
    }
}

// ------------------------------------------------------------------ metrics & friends

pub fn metrics(o: &mut Obs, env: &Env, want: &dyn Fn(&[&[u8; 4]]) -> bool) {
    let font = env.font;
    if want(&[b"hmtx", b"hhea", b"maxp"]) {
        if let Ok(hmtx) = font.hmtx() {
            for &g in &env.gids {
                o.helper("Hmtx::advance");
                o.opt(&hmtx.advance(GlyphId::new(g)));
                o.helper("Hmtx::side_bearing");
                o.opt(&hmtx.side_bearing(GlyphId::new(g)));
            }
        }
    }
    if want(&[b"vmtx", b"vhea", b"maxp"]) {
        if let Ok(vmtx) = font.vmtx() {
            for &g in &env.gids {
                o.helper("Vmtx::advance");
                o.opt(&vmtx.advance(GlyphId::new(g)));
                o.helper("Vmtx::side_bearing");
                o.opt(&vmtx.side_bearing(GlyphId::new(g)));
            }
        }
    }
    if want(&[b"VORG"]) {
        if let Ok(vorg) = font.vorg() {
            let mut gids = env.gids.clone();
            for m in vorg.vert_origin_y_metrics().iter().take(8) {
                let g = m.glyph_index().to_u32();
                gids.extend([g.wrapping_sub(1), g, g + 1]);
            }
            for g in gids {
                o.helper("Vorg::vertical_origin_y");
                o.d.i64(vorg.vertical_origin_y(GlyphId::new(g)) as i64);
            }
        }
    }
    if want(&[b"hdmx", b"maxp"]) {
        if let Ok(hdmx) = font.hdmx() {
            let mut sizes: Vec<u8> = vec![0, 1, 8, 9, 12, 127, 128, 254, 255];
            for r in hdmx.records().iter().take(16).flatten() {
                let s = r.pixel_size();
                sizes.extend([s.wrapping_sub(1), s, s.wrapping_add(1)]);
            }
            for s in sizes {
                o.helper("Hdmx::record_for_size");
                match hdmx.record_for_size(s) {
                    Some(r) => {
                        o.d.bytes(&[r.pixel_size(), r.max_width()]);
                        o.d.u64(r.widths().len() as u64);
                        o.d.bytes(&r.widths()[..r.widths().len().min(64)]);
                    }
                    None => o.d.bytes(&[0]),
                }
            }
        }
    }
    if want(&[b"post"]) {
        if let Ok(post) = font.post() {
            o.helper("Post::num_names");
            o.d.u64(post.num_names() as u64);
            for &g in &env.gids {
                if g > 0xFFFF {
                    continue;
                }
                o.helper("Post::glyph_name");
                match post.glyph_name(GlyphId16::new(g as u16)) {
                    Some(s) => o.d.str(s),
                    None => o.d.bytes(&[0]),
                }
            }
            if let Some(Ok(sd)) = post.string_data().map(|v| v.get(usize::MAX).transpose()) {
                o.d.dbg(&sd.map(|s| s.as_str().len()));
            }
            if let Some(sd) = post.string_data() {
                // (a Pascal string is at least its length byte)
                let post_len = post.offset_data().len() as u64;
                o.drain("Post::string_data.iter", "post_bytes", post_len, env.cap(70_000, 300), sd.iter(), |o, s| match s {
                    Ok(s) => o.d.str(s.as_str()),
                    Err(e) => o.err(&e),
                });
            }
        }
    }
    if want(&[b"name"]) {
        if let Ok(name) = font.name() {
            o.helper("Name::string_data");
            let sd = name.string_data();
            o.d.u64(sd.len() as u64);
            for rec in name.name_record().iter().take(env.cap(4096, 48)) {
                o.helper("NameRecord::string");
                o.d.bytes(&[rec.is_unicode() as u8]);
                match rec.string(sd) {
                    Ok(s) => {
                        // (every char consumes at least one byte of the string data)
                        let n = o.drain("NameString::chars", "record_length", rec.length() as u64, 8192, s.chars(), |o, c| o.d.u32(c as u32));
                        if n < 256 {
                            o.d.str(&s.to_string());
                            o.d.dbg(&s);
                        }
                    }
                    Err(e) => o.err(&e),
                }
            }
            if let Some(tags) = name.lang_tag_record() {
                for rec in tags.iter().take(env.cap(4096, 32)) {
                    o.helper("LangTagRecord::lang_tag");
                    match rec.lang_tag(sd) {
                        Ok(s) => {
                            o.drain("NameString::chars(lang_tag)", "record_length", rec.length() as u64, 8192, s.chars(), |o, c| o.d.u32(c as u32));
                        }
                        Err(e) => o.err(&e),
                    }
                }
            }
        }
    }
    if want(&[b"SVG "]) {
        if let Ok(svg) = font.svg() {
            let mut gids = env.gids.clone();
            if let Ok(list) = svg.svg_document_list() {
                for r in list.document_records().iter().take(8) {
                    let (s, e) = (r.start_glyph_id().to_u32(), r.end_glyph_id().to_u32());
                    gids.extend([s.wrapping_sub(1), s, e, e + 1]);
                }
            }
            for g in gids {
                o.helper("Svg::glyph_data");
                match svg.glyph_data(GlyphId::new(g)) {
                    Ok(d) => o.d.dbg(&d.map(|d| (d.len(), vf_core::fnv64(d)))),
                    Err(e) => o.err(&e),
                }
            }
        }
    }
    if want(&[b"ankr"]) {
        if let Ok(ankr) = font.ankr() {
            for &g in &env.gids {
                o.helper("Ankr::anchor_points");
                match ankr.anchor_points(GlyphId::new(g)) {
                    Ok(p) => {
                        o.d.u64(p.len() as u64);
                        for a in p.iter().take(64) {
                            o.d.i64(((a.x() as i64) << 16) ^ a.y() as i64);
                        }
                    }
                    Err(e) => o.err(&e),
                }
            }
        }
    }
    if want(&[b"feat"]) {
        if let Ok(feat) = font.feat() {
            let mut ids: Vec<u16> = vec![0, 1, 2, 0x7FFF, 0xFFFE, 0xFFFF];
            for n in feat.names().iter().take(16) {
                ids.extend([n.feature().wrapping_sub(1), n.feature(), n.feature().wrapping_add(1)]);
            }
            for id in ids {
                o.helper("Feat::find");
                match feat.find(id) {
                    Some(n) => {
                        o.d.bytes(&[n.is_exclusive() as u8]);
                        o.d.u32(n.default_setting_index() as u32);
                        match n.setting_table(feat.offset_data()) {
                            Ok(t) => {
                                o.d.u64(t.settings().len() as u64);
                                for s in t.settings().iter().take(64) {
                                    o.d.u32(s.setting() as u32);
                                    o.d.dbg(&s.name_index());
                                }
                            }
                            Err(e) => o.err(&e),
                        }
                    }
                    None => o.d.bytes(&[0]),
                }
            }
        }
    }
    if want(&[b"ltag"]) {
        if let Ok(ltag) = font.ltag() {
            let mut first: Option<String> = None;
            o.drain("Ltag::tag_indices", "numTags", ltag.tag_ranges().len() as u64, 4096, ltag.tag_indices(), |o, (i, s)| {
                o.d.u32(i);
                o.d.str(s);
                if first.is_none() {
                    first = Some(s.to_string());
                }
            });
            for t in ["en", "", "zh-Hant", first.as_deref().unwrap_or("x")] {
                o.helper("Ltag::index_for_tag");
                o.opt(&ltag.index_for_tag(t));
            }
        }
    }
    if want(&[b"meta"]) {
        if let Ok(meta) = font.meta() {
            use read_fonts::tables::meta::Metadata;
            for rec in meta.data_maps().iter().take(64) {
                o.helper("DataMapRecord::data");
                match rec.data(meta.offset_data()) {
                    Ok(Metadata::ScriptLangTags(tags)) => {
                        // (every tag consumes at least one byte of the record's data)
                        o.drain("Metadata::ScriptLangTags.iter", "data_length", rec.data_length() as u64, 4096, tags.iter(), |o, t| match t {
                            Ok(t) => o.d.str(t.as_str()),
                            Err(e) => o.err(&e),
                        });
                    }
                    Ok(Metadata::Other(b)) => {
                        o.d.u64(b.len() as u64);
                    }
                    Err(e) => o.err(&e),
                }
            }
        }
    }
    for t in [b"fpgm", b"prep"] {
        if want(&[t]) {
            if let Some(d) = font.data_for_tag(Tag::new(t)) {
                let b = d.as_bytes();
                bytecode(o, &b[..b.len().min(if env.full { usize::MAX } else { 4096 })]);
            }
        }
    }
    if want(&[b"cvt "]) {
        o.helper("TableProvider::cvt");
        match font.cvt() {
            Ok(c) => {
                o.d.u64(c.len() as u64);
                for v in c.iter().take(256) {
                    o.d.i64(v.get() as i64);
                }
            }
            Err(e) => o.err(&e),
        }
    }
    let _ = Tag::new(b"none");
}
