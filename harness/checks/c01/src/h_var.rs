//! Hand-written helpers: variations (gvar, cvar, item variation stores,
//! delta-set index maps, HVAR/VVAR/MVAR, avar, fvar, STAT).

use crate::h_core::Env;
use crate::obs::Obs;
use crate::sets::*;
use read_fonts::tables::glyf::{Glyf, PointFlags};
use read_fonts::tables::gvar::{GlyphDelta, Gvar};
use read_fonts::tables::loca::Loca;
use read_fonts::tables::variations::{
    DeltaSetIndex, DeltaSetIndexMap, FloatItemDeltaTarget, ItemVariationStore, TupleDelta, TupleVariationData,
};
use read_fonts::types::{F2Dot14, FWord, Fixed, GlyphId, Point, Tag, UfWord};
use read_fonts::TableProvider;

pub fn ivs(o: &mut Obs, env: &Env, store: &ItemVariationStore, coords: &[Vec<F2Dot14>]) {
    let n_outer = store.item_variation_data_count();
    let mut outers: Vec<u16> = vec![0, 1, n_outer.wrapping_sub(1), n_outer, n_outer.wrapping_add(1), 0x7FFF, 0xFFFF];
    outers.sort_unstable();
    outers.dedup();
    for outer in outers {
        let item_count = match store.item_variation_data().get(outer as usize) {
            Some(Ok(d)) => {
                o.helper("ItemVariationData::get_delta_row_len");
                o.d.u64(d.get_delta_row_len() as u64);
                for inner in [0u16, 1, d.item_count().wrapping_sub(1), d.item_count(), 0xFFFF] {
                    o.drain("ItemVariationData::delta_set", "regionIndexCount", d.region_index_count() as u64, 70_000, d.delta_set(inner), |o, v| o.d.i64(v as i64));
                }
                d.item_count()
            }
            Some(Err(e)) => {
                o.err(&e);
                0
            }
            None => 0,
        };
        let mut inners: Vec<u16> = vec![0, 1, item_count.wrapping_sub(1), item_count, item_count.wrapping_add(1), 0xFFFF];
        inners.sort_unstable();
        inners.dedup();
        for inner in inners {
            for c in coords.iter().take(env.cap(16, 5)) {
                let ix = DeltaSetIndex { outer, inner };
                o.helper("ItemVariationStore::compute_delta");
                o.res(&store.compute_delta(ix, c));
                o.helper("ItemVariationStore::compute_float_delta");
                match store.compute_float_delta(ix, c) {
                    Ok(d) => {
                        o.d.f32(Fixed::ONE.apply_float_delta(d));
                        o.d.f32(FWord::new(100).apply_float_delta(d));
                        o.d.f32(UfWord::new(100).apply_float_delta(d));
                        o.d.f32(F2Dot14::ONE.apply_float_delta(d));
                    }
                    Err(e) => o.err(&e),
                }
            }
        }
    }
    if let Ok(regions) = store.variation_region_list() {
        for r in regions.variation_regions().iter().take(env.cap(256, 8)) {
            match r {
                Ok(r) => {
                    for c in coords.iter().take(env.cap(16, 5)) {
                        o.helper("VariationRegion::compute_scalar");
                        o.d.i64(r.compute_scalar(c).to_bits() as i64);
                        o.helper("VariationRegion::compute_scalar_f32");
                        o.d.f32(r.compute_scalar_f32(c));
                    }
                }
                Err(e) => o.err(&e),
            }
        }
    }
}

pub fn dsim(o: &mut Obs, map: &DeltaSetIndexMap) {
    let count = match map {
        DeltaSetIndexMap::Format0(f) => f.map_count() as u32,
        DeltaSetIndexMap::Format1(f) => f.map_count(),
    };
    let mut ix: Vec<u32> = vec![0, 1, 2, count.wrapping_sub(1), count, count.wrapping_add(1), 0xFFFF, 0x10000, u32::MAX];
    ix.sort_unstable();
    ix.dedup();
    for i in ix {
        o.helper("DeltaSetIndexMap::get");
        o.res(&map.get(i));
    }
}

fn tuple_data<'a, T: TupleDelta + std::fmt::Debug>(
    o: &mut Obs,
    env: &Env,
    data: &TupleVariationData<'a, T>,
    coords: &'a [Vec<F2Dot14>],
    what: &'static str,
    table_len: usize,
) {
    // packed deltas: a control byte encodes at most 64 values (a zero run needs no data bytes), and the
    // serialized data of one tuple is at most 65 535 bytes (variationDataSize is a u16) of the table
    let delta_ceiling = 64 * table_len.min(65_535) as u64;
    // (tupleVariationCount: low 12 bits)
    o.drain(what, "tupleVariationCount&0x0FFF", 4095, env.cap(4096, 24), data.tuples(), |o, t| {
        let peak = t.peak();
        o.d.u64(peak.len() as u64);
        for i in 0..peak.len().min(64) {
            o.d.dbg(&peak.get(i));
        }
        o.d.dbg(&peak.get(peak.len()));
        for tup in [t.intermediate_start(), t.intermediate_end()] {
            match tup {
                Some(tp) => {
                    o.d.u64(tp.len() as u64);
                    o.d.bytes(&[tp.is_empty() as u8]);
                    for i in 0..tp.len().min(64) {
                        o.d.dbg(&tp.get(i));
                    }
                }
                None => o.d.bytes(&[0]),
            }
        }
        o.helper("TupleVariation::has_deltas_for_all_points");
        o.d.bytes(&[t.has_deltas_for_all_points() as u8]);
        // (point numbers are u16 values that only grow; "all points" counts up to 65 535)
        o.drain("TupleVariation::point_numbers", "65536", 65_536, 70_000, t.point_numbers(), |o, p| o.d.u32(p as u32));
        o.drain("TupleVariation::deltas", "64*min(table_bytes,65535)", delta_ceiling, 140_000, t.deltas(), |o, d| o.d.dbg(&d));
        for c in coords.iter().take(env.cap(16, 5)) {
            o.helper("TupleVariation::compute_scalar");
            o.d.dbg(&t.compute_scalar(c).map(|f| f.to_bits()));
            o.helper("TupleVariation::compute_scalar_f32");
            o.d.dbg(&t.compute_scalar_f32(c).map(|f| f.to_bits()));
        }
    });
    for c in coords.iter().take(env.cap(16, 4)) {
        o.drain("TupleVariationData::active_tuples_at", "tupleVariationCount&0x0FFF", 4095, 4096, data.active_tuples_at(c), |o, (_t, s)| o.d.i64(s.to_bits() as i64));
    }
}

pub fn gvar<'a>(o: &mut Obs, env: &Env, gvar: &Gvar<'a>, glyf: Option<(&Glyf<'a>, &Loca<'a>)>) {
    let coords = coord_sets(gvar.axis_count(), env.full);
    let coords2 = &env.coords;
    o.helper("Gvar::shared_tuples");
    match gvar.shared_tuples() {
        Ok(st) => {
            let t = st.tuples();
            o.d.u64(t.len() as u64);
            for i in [0, 1, t.len().wrapping_sub(1), t.len(), usize::MAX] {
                match t.get(i) {
                    Ok(tp) => o.d.u64(tp.len() as u64),
                    Err(e) => o.err(&e),
                }
            }
        }
        Err(e) => o.err(&e),
    }
    let gc = gvar.glyph_count() as u32;
    let mut gids = env.gids.clone();
    gids.extend([gc.wrapping_sub(1), gc, gc + 1]);
    gids.sort_unstable();
    gids.dedup();
    for r in [0..0usize, 0..1, 0..usize::MAX, usize::MAX..0, 4..2, 0..gvar.as_bytes().len()] {
        o.helper("Gvar::glyph_variation_data_for_range");
        match gvar.glyph_variation_data_for_range(r) {
            Ok(d) => o.d.u64(d.len() as u64),
            Err(e) => o.err(&e),
        }
    }
    let mut with_data = 0;
    for &g in &gids {
        let gid = GlyphId::new(g);
        o.helper("Gvar::data_for_gid");
        match gvar.data_for_gid(gid) {
            Ok(d) => o.d.dbg(&d.map(|d| d.len())),
            Err(e) => o.err(&e),
        }
        o.helper("Gvar::glyph_variation_data");
        match gvar.glyph_variation_data(gid) {
            Ok(Some(data)) => {
                with_data += 1;
                if env.full || with_data <= 6 {
                    tuple_data::<GlyphDelta>(o, env, &data, &coords, "GlyphVariationData::tuples", gvar.as_bytes().len());
                    // dense / sparse accumulation into buffers of boundary sizes
                    let npts = glyf
                        .and_then(|(glyf, loca)| loca.get_glyf(gid, glyf).ok().flatten())
                        .map(|gl| match gl {
                            read_fonts::tables::glyf::Glyph::Simple(s) => s.num_points(),
                            read_fonts::tables::glyf::Glyph::Composite(c) => c.components().take(70_000).count(),
                        })
                        .unwrap_or(0);
                    for size in [npts + 4, npts + 3, 0usize, 1] {
                        if size > 70_010 {
                            continue;
                        }
                        for (ti, t) in data.tuples().take(env.cap(64, 6)).enumerate() {
                            for scalar in [Fixed::ONE, Fixed::from_bits(0x8000), Fixed::from_bits(i32::MIN)] {
                                if ti > 2 && scalar != Fixed::ONE {
                                    continue;
                                }
                                let mut buf = vec![Point::<Fixed>::default(); size];
                                o.helper("TupleVariation::accumulate_dense_deltas");
                                o.res(&t.accumulate_dense_deltas(&mut buf, scalar));
                                for p in buf.iter().take(256) {
                                    o.d.i64(p.x.to_bits() as i64 ^ ((p.y.to_bits() as i64) << 32));
                                }
                                let mut buf = vec![Point::<Fixed>::default(); size];
                                let mut flags = vec![PointFlags::default(); size];
                                o.helper("TupleVariation::accumulate_sparse_deltas");
                                o.res(&t.accumulate_sparse_deltas(&mut buf, &mut flags, scalar));
                                for p in buf.iter().take(256) {
                                    o.d.i64(p.x.to_bits() as i64 ^ ((p.y.to_bits() as i64) << 32));
                                }
                                let mut buf = vec![Point::<f32>::default(); size];
                                o.res(&t.accumulate_dense_deltas(&mut buf, scalar));
                                for p in buf.iter().take(64) {
                                    o.d.f32(p.x);
                                    o.d.f32(p.y);
                                }
                            }
                        }
                    }
                }
            }
            Ok(None) => o.d.bytes(&[1]),
            Err(e) => o.err(&e),
        }
        if let Some((glyf, loca)) = glyf {
            if env.full || with_data <= 12 {
                for c in coords.iter().chain(coords2.iter()).take(env.cap(8, 3)) {
                    o.helper("Gvar::phantom_point_deltas");
                    match gvar.phantom_point_deltas(glyf, loca, c, gid) {
                        Ok(Some(d)) => {
                            for p in d {
                                o.d.i64(p.x.to_bits() as i64 ^ ((p.y.to_bits() as i64) << 32));
                            }
                        }
                        Ok(None) => o.d.bytes(&[0]),
                        Err(e) => o.err(&e),
                    }
                }
            }
        }
    }
}

pub fn cvar(o: &mut Obs, env: &Env) {
    let Ok(cvar) = env.font.cvar() else { return };
    let cvt_len = env.font.cvt().map(|c| c.len()).unwrap_or(0);
    for ac in arg16(env.axis_count) {
        let coords = coord_sets(ac, false);
        o.helper("Cvar::variation_data");
        match cvar.variation_data(ac) {
            Ok(data) => tuple_data(o, env, &data, &coords, "CvtVariationData::tuples", cvar.offset_data().len()),
            Err(e) => o.err(&e),
        }
        for c in coords.iter().take(5) {
            for len in [cvt_len, 0, 1, cvt_len + 1] {
                let mut deltas = vec![0i32; len.min(70_000)];
                o.helper("Cvar::deltas");
                o.res(&cvar.deltas(ac, c, &mut deltas));
                for d in deltas.iter().take(256) {
                    o.d.i64(*d as i64);
                }
            }
        }
    }
}

pub fn metrics_var(o: &mut Obs, env: &Env, want: &dyn Fn(&[&[u8; 4]]) -> bool) {
    let font = env.font;
    let coords = &env.coords;
    let ncoord = env.cap(16, 4);
    if want(&[b"HVAR"]) {
        if let Ok(hvar) = font.hvar() {
            for &g in &env.gids {
                let gid = GlyphId::new(g);
                for c in coords.iter().take(ncoord) {
                    o.helper("Hvar::advance_width_delta");
                    o.res(&hvar.advance_width_delta(gid, c));
                    o.helper("Hvar::lsb_delta");
                    o.res(&hvar.lsb_delta(gid, c));
                    o.helper("Hvar::rsb_delta");
                    o.res(&hvar.rsb_delta(gid, c));
                }
            }
            if let Ok(s) = hvar.item_variation_store() {
                ivs(o, env, &s, coords);
            }
            for m in [hvar.advance_width_mapping(), hvar.lsb_mapping(), hvar.rsb_mapping()].into_iter().flatten().flatten() {
                dsim(o, &m);
            }
        }
    }
    if want(&[b"VVAR"]) {
        if let Ok(vvar) = font.vvar() {
            for &g in &env.gids {
                let gid = GlyphId::new(g);
                for c in coords.iter().take(ncoord) {
                    o.helper("Vvar::advance_height_delta");
                    o.res(&vvar.advance_height_delta(gid, c));
                    o.helper("Vvar::tsb_delta");
                    o.res(&vvar.tsb_delta(gid, c));
                    o.helper("Vvar::bsb_delta");
                    o.res(&vvar.bsb_delta(gid, c));
                    o.helper("Vvar::v_org_delta");
                    o.res(&vvar.v_org_delta(gid, c));
                }
            }
            if let Ok(s) = vvar.item_variation_store() {
                ivs(o, env, &s, coords);
            }
            for m in [vvar.advance_height_mapping(), vvar.tsb_mapping(), vvar.bsb_mapping(), vvar.v_org_mapping()]
                .into_iter()
                .flatten()
                .flatten()
            {
                dsim(o, &m);
            }
        }
    }
    if want(&[b"MVAR"]) {
        if let Ok(mvar) = font.mvar() {
            let mut tags: Vec<Tag> = vec![Tag::new(b"hasc"), Tag::new(b"xhgt"), Tag::new(b"\0\0\0\0"), Tag::new(&[0xff; 4])];
            for r in mvar.value_records().iter().take(env.cap(256, 8)) {
                tags.push(r.value_tag());
            }
            for t in tags {
                for c in coords.iter().take(ncoord) {
                    o.helper("Mvar::metric_delta");
                    o.res(&mvar.metric_delta(t, c));
                }
            }
            if let Some(Ok(s)) = mvar.item_variation_store() {
                ivs(o, env, &s, coords);
            }
        }
    }
    if want(&[b"avar", b"fvar"]) {
        let avar = font.avar().ok();
        if let Some(avar) = &avar {
            let vals = [i32::MIN, -0x10000, -0x8000, -1, 0, 1, 0x4000, 0x8000, 0x10000, 0x10001, i32::MAX];
            for m in avar.axis_segment_maps().iter().take(env.cap(256, 16)) {
                match m {
                    Ok(m) => {
                        let mut vs: Vec<i32> = vals.to_vec();
                        for a in m.axis_value_maps().iter().take(8) {
                            let b = a.from_coordinate().to_fixed().to_bits();
                            vs.extend([b - 1, b, b + 1]);
                        }
                        for v in vs {
                            o.helper("SegmentMaps::apply");
                            o.d.i64(m.apply(Fixed::from_bits(v)).to_bits() as i64);
                        }
                    }
                    Err(e) => o.err(&e),
                }
            }
            if let Some(Ok(s)) = avar.var_store() {
                ivs(o, env, &s, coords);
            }
            if let Some(Ok(m)) = avar.axis_index_map() {
                dsim(o, &m);
            }
        }
        if let Ok(fvar) = font.fvar() {
            o.helper("Fvar::axes");
            let axes = fvar.axes();
            let vals = [i32::MIN, i32::MIN + 1, -0x10000, -1, 0, 1, 0x10000, 400 << 16, 1000 << 16, i32::MAX];
            if let Ok(axes) = &axes {
                for a in axes.iter().take(env.cap(256, 16)) {
                    for v in vals.into_iter().chain([
                        a.min_value().to_bits(),
                        a.default_value().to_bits(),
                        a.max_value().to_bits(),
                        a.default_value().to_bits().wrapping_sub(1),
                        a.default_value().to_bits().wrapping_add(1),
                    ]) {
                        o.helper("VariationAxisRecord::normalize");
                        o.d.i64(a.normalize(Fixed::from_bits(v)).to_bits() as i64);
                    }
                }
            }
            o.helper("Fvar::instances");
            match fvar.instances() {
                Ok(inst) => {
                    let n = inst.len();
                    o.d.u64(n as u64);
                    for i in [0, 1, n.wrapping_sub(1), n, usize::MAX] {
                        match inst.get(i) {
                            Ok(r) => {
                                o.d.dbg(&r.subfamily_name_id);
                                o.d.dbg(&r.post_script_name_id);
                                o.d.u64(r.coordinates.len() as u64);
                            }
                            Err(e) => o.err(&e),
                        }
                    }
                    let mut k = 0;
                    o.drain("Fvar::instances.iter", "instanceCount", n as u64, 70_000, inst.iter(), |_, r| {
                        if let Ok(r) = r {
                            k += r.coordinates.len();
                        }
                    });
                    o.d.u64(k as u64);
                }
                Err(e) => o.err(&e),
            }
            let tags: Vec<Tag> = axes.map(|a| a.iter().take(8).map(|a| a.axis_tag()).collect()).unwrap_or_default();
            let n = fvar.axis_count() as usize;
            for len in [n, 0, n.saturating_sub(1), n + 1] {
                for v in [i32::MIN, -0x10000, 0, 0x10000, 700 << 16, i32::MAX] {
                    let mut out = vec![F2Dot14::default(); len.min(70_000)];
                    let user: Vec<(Tag, Fixed)> = tags
                        .iter()
                        .map(|t| (*t, Fixed::from_bits(v)))
                        .chain([(Tag::new(b"wght"), Fixed::from_bits(v)), (Tag::new(b"zzzz"), Fixed::ZERO)])
                        .collect();
                    o.helper("Fvar::user_to_normalized");
                    fvar.user_to_normalized(avar.as_ref(), user.iter().copied(), &mut out);
                    for c in out.iter().take(64) {
                        o.d.i64(c.to_bits() as i64);
                    }
                    o.helper("Fvar::user_to_normalized(no avar)");
                    fvar.user_to_normalized(None, user, &mut out);
                    for c in out.iter().take(64) {
                        o.d.i64(c.to_bits() as i64);
                    }
                }
            }
        }
    }
    if want(&[b"STAT"]) {
        if let Ok(stat) = font.stat() {
            if let Some(Ok(arr)) = stat.offset_to_axis_values() {
                for v in arr.axis_values().iter().take(env.cap(4096, 64)) {
                    match v {
                        Ok(v) => {
                            o.helper("AxisValue::value");
                            o.d.dbg(&v.value().map(|f| f.to_bits()));
                            o.helper("AxisValue::linked_value");
                            o.d.dbg(&v.linked_value().map(|f| f.to_bits()));
                            o.helper("AxisValue::axis_index");
                            o.d.dbg(&v.axis_index());
                            o.d.dbg(&(v.format(), v.flags().bits(), v.value_name_id()));
                        }
                        Err(e) => o.err(&e),
                    }
                }
            }
        }
    }
}
