//! Hand-written helpers: OpenType layout (GSUB/GPOS/GDEF/BASE common parts).

use crate::h_core::Env;
use crate::h_var;
use crate::obs::Obs;
use crate::walk::walk_table;
use read_fonts::collections::IntSet;
use read_fonts::tables::gpos::{PositionLookup, PositionSubtables};
use read_fonts::tables::gsub::{SubstitutionLookup, SubstitutionSubtables};
use read_fonts::tables::layout::{
    ClassDef, CoverageTable, Device, DeviceOrVariationIndex, ExtensionLookup, FeatureList, FeatureVariations, ScriptList,
    ScriptTags, Subtables,
};
use read_fonts::traversal::SomeTable;
use read_fonts::types::{GlyphId, GlyphId16, Tag};
use read_fonts::{FontRead, TableProvider};

fn gid16s(env: &Env) -> Vec<u16> {
    let mut v: Vec<u16> = env.gids.iter().filter(|g| **g <= 0xFFFF).map(|g| *g as u16).collect();
    v.extend([0, 1, 0x7FFF, 0x8000, 0xFFFE, 0xFFFF]);
    v.sort_unstable();
    v.dedup();
    v
}

/// Glyphs a start..=end glyph range encodes (none when it is backwards).
fn range_len(start: u16, end: u16) -> u64 {
    if start > end {
        0
    } else {
        (end - start) as u64 + 1
    }
}

/// Number of glyphs the coverage table encodes, counted record by record
/// (format 1: glyphCount; format 2: sum of the range lengths, overlapping
/// ranges counted as often as they are encoded).
fn coverage_encoded_glyphs(cov: &CoverageTable) -> u64 {
    match cov {
        CoverageTable::Format1(t) => t.glyph_array().len() as u64,
        CoverageTable::Format2(t) => t.range_records().iter().map(|r| range_len(r.start_glyph_id().to_u16(), r.end_glyph_id().to_u16())).sum(),
    }
}

fn class_def_encoded_glyphs(cd: &ClassDef) -> u64 {
    match cd {
        ClassDef::Format1(t) => t.class_value_array().len() as u64,
        ClassDef::Format2(t) => t.class_range_records().iter().map(|r| range_len(r.start_glyph_id().to_u16(), r.end_glyph_id().to_u16())).sum(),
    }
}

pub fn coverage(o: &mut Obs, env: &Env, cov: &CoverageTable) {
    let cap = env.cap(200_000, 2_000);
    let mut probes: Vec<u16> = vec![];
    o.drain("CoverageTable::iter", "sum(range lengths)|glyphCount", coverage_encoded_glyphs(cov), cap, cov.iter(), |o, g| {
        o.d.u32(g.to_u32());
        if probes.len() < 18 {
            probes.extend([g.to_u16().wrapping_sub(1), g.to_u16(), g.to_u16().wrapping_add(1)]);
        }
    });
    probes.extend([0, 1, 0x7FFF, 0xFFFE, 0xFFFF]);
    for g in probes {
        o.helper("CoverageTable::get");
        o.opt(&cov.get(GlyphId16::new(g)));
    }
    for g in [0x10000u32, 0xFFFFFF, u32::MAX] {
        o.opt(&cov.get(GlyphId::new(g)));
    }
    o.helper("Coverage::population");
    match cov {
        CoverageTable::Format1(t) => {
            o.d.u64(t.population() as u64);
            o.opt(&t.get(GlyphId16::new(1)));
        }
        CoverageTable::Format2(t) => {
            o.d.u64(t.population() as u64);
            o.opt(&t.get(GlyphId16::new(1)));
            for r in t.range_records().iter().take(8) {
                o.helper("RangeRecord::population");
                o.d.u64(r.population() as u64);
                o.drain("RangeRecord::iter", "range length", range_len(r.start_glyph_id().to_u16(), r.end_glyph_id().to_u16()), cap, r.iter(), |_, _| {});
            }
        }
    }
    let mut set = IntSet::<GlyphId>::new();
    set.insert(GlyphId::new(0));
    set.insert(GlyphId::new(0xFFFF));
    set.insert_range(GlyphId::new(3)..=GlyphId::new(40));
    o.helper("CoverageTable::intersects");
    o.d.bytes(&[cov.intersects(&set) as u8, cov.intersects(&IntSet::new()) as u8]);
}

pub fn class_def(o: &mut Obs, env: &Env, cd: &ClassDef) {
    let cap = env.cap(200_000, 2_000);
    let mut probes: Vec<u16> = gid16s(env);
    let fixed = probes.len();
    let encoded = class_def_encoded_glyphs(cd);
    o.drain("ClassDef::iter", "sum(range lengths)|glyphCount", encoded, cap, cd.iter(), |o, (g, c)| {
        o.d.u32(g.to_u32());
        o.d.u32(c as u32);
        if probes.len() < fixed + 18 {
            probes.extend([g.to_u16().wrapping_sub(1), g.to_u16(), g.to_u16().wrapping_add(1)]);
        }
    });
    for g in probes {
        o.helper("ClassDef::get");
        o.d.u32(cd.get(GlyphId16::new(g)) as u32);
    }
    o.helper("ClassDef::population");
    o.d.u64(cd.population() as u64);
    match cd {
        ClassDef::Format1(t) => {
            o.d.u64(t.population() as u64);
            // (the same iterator as ClassDef::iter above, which is the monitored one)
            o.d.u64(t.iter().take(cap).count() as u64);
            o.d.u32(t.get(GlyphId16::new(t.start_glyph_id().to_u16().wrapping_sub(1))) as u32);
        }
        ClassDef::Format2(t) => {
            o.d.u64(t.population() as u64);
            o.d.u64(t.iter().take(cap).count() as u64);
            for r in t.class_range_records().iter().take(8) {
                o.helper("ClassRangeRecord::population");
                o.d.u64(r.population() as u64);
            }
        }
    }
}

pub fn device(o: &mut Obs, d: &Device) {
    // (one value per ppem size from startSize to endSize, and never more than the words hold)
    let sizes = (d.end_size() as u64 + 1).saturating_sub(d.start_size() as u64);
    let held = d.delta_value().len() as u64 * 8;
    o.drain("Device::iter", "min(endSize-startSize+1,8*words)", sizes.min(held), 70_000, d.iter(), |o, v| o.d.i64(v as i64));
}

pub fn device_or_var(o: &mut Obs, d: &DeviceOrVariationIndex) {
    match d {
        DeviceOrVariationIndex::Device(d) => device(o, d),
        DeviceOrVariationIndex::VariationIndex(v) => {
            let ix: read_fonts::tables::variations::DeltaSetIndex = v.clone().into();
            o.d.dbg(&ix);
        }
    }
}

fn scripts_features(o: &mut Obs, env: &Env, sl: &ScriptList, fl: &FeatureList) {
    let mut tags: Vec<Tag> = vec![Tag::new(b"DFLT"), Tag::new(b"latn"), Tag::new(b"dflt"), Tag::new(b"zzzz"), Tag::new(&[0xff; 4])];
    for r in sl.script_records().iter().take(8) {
        tags.push(r.script_tag());
    }
    for t in &tags {
        o.helper("ScriptList::index_for_tag");
        o.opt(&sl.index_for_tag(*t));
    }
    o.helper("ScriptList::select");
    o.d.dbg(&sl.select(&tags).map(|s| (s.tag, s.index, s.is_fallback)));
    o.d.dbg(&sl.select(&[]).map(|s| (s.tag, s.index, s.is_fallback)));
    for ut in [b"Latn", b"Beng", b"Zzzz", b"Mlym"] {
        let st = ScriptTags::from_unicode(Tag::new(ut));
        o.d.dbg(&sl.select(st.as_slice()).map(|s| (s.tag, s.index, s.is_fallback)));
    }
    let n = sl.script_count();
    let ftags: Vec<Tag> = fl.feature_records().iter().take(6).map(|r| r.feature_tag()).chain([Tag::new(b"liga"), Tag::new(b"zzzz")]).collect();
    for i in (0..n.min(env.cap(4096, 6) as u16)).chain([n.wrapping_sub(1), n, n.wrapping_add(1), 0xFFFF]) {
        o.helper("ScriptList::get");
        match sl.get(i) {
            Ok(script) => {
                o.d.dbg(&script.tag);
                for t in tags.iter().chain(script.lang_sys_records().iter().take(4).map(|r| r.lang_sys_tag()).collect::<Vec<_>>().iter()) {
                    o.helper("Script::lang_sys_index_for_tag");
                    o.opt(&script.lang_sys_index_for_tag(*t));
                }
                let nl = script.lang_sys_count();
                let mut langs = vec![];
                if let Some(Ok(d)) = script.default_lang_sys() {
                    langs.push(d);
                }
                for j in (0..nl.min(env.cap(256, 4) as u16)).chain([nl.wrapping_sub(1), nl, 0xFFFF]) {
                    o.helper("Script::lang_sys");
                    match script.lang_sys(j) {
                        Ok(l) => {
                            o.d.dbg(&l.tag);
                            langs.push(l.element.clone());
                        }
                        Err(e) => o.err(&e),
                    }
                }
                for l in langs.iter().take(env.cap(64, 4)) {
                    for t in &ftags {
                        o.helper("LangSys::feature_index_for_tag");
                        o.opt(&l.feature_index_for_tag(fl, *t));
                    }
                }
            }
            Err(e) => o.err(&e),
        }
    }
    let nf = fl.feature_count();
    for i in (0..nf.min(env.cap(4096, 8) as u16)).chain([nf.wrapping_sub(1), nf, nf.wrapping_add(1), 0xFFFF]) {
        o.helper("FeatureList::get");
        match fl.get(i) {
            Ok(f) => {
                o.d.dbg(&f.tag);
                o.d.u64(f.lookup_list_indices().len() as u64);
                if let Some(p) = f.feature_params() {
                    match p {
                        Ok(p) => walk_table(o, &p as &dyn SomeTable, 4),
                        Err(e) => o.err(&e),
                    }
                }
            }
            Err(e) => o.err(&e),
        }
    }
}

fn feature_variations(o: &mut Obs, env: &Env, fv: &FeatureVariations) {
    let data = fv.offset_data();
    for rec in fv.feature_variation_records().iter().take(env.cap(4096, 16)) {
        o.helper("FeatureVariationRecord::condition_set");
        match rec.condition_set(data) {
            Some(Ok(cs)) => {
                for c in cs.conditions().iter().take(256) {
                    match c {
                        Ok(c) => walk_table(o, &c as &dyn SomeTable, 6),
                        Err(e) => o.err(&e),
                    }
                }
            }
            Some(Err(e)) => o.err(&e),
            None => o.d.bytes(&[0]),
        }
        o.helper("FeatureVariationRecord::feature_table_substitution");
        match rec.feature_table_substitution(data) {
            Some(Ok(fts)) => {
                for s in fts.substitutions().iter().take(256) {
                    o.helper("FeatureTableSubstitutionRecord::alternate_feature");
                    match s.alternate_feature(fts.offset_data()) {
                        Ok(f) => {
                            o.d.u64(f.lookup_list_indices().len() as u64);
                            for i in f.lookup_list_indices().iter().take(64) {
                                o.d.u32(i.get() as u32);
                            }
                        }
                        Err(e) => o.err(&e),
                    }
                }
            }
            Some(Err(e)) => o.err(&e),
            None => o.d.bytes(&[0]),
        }
    }
}

fn subtables<'a, T, E>(o: &mut Obs, env: &Env, name: &'static str, st: &Subtables<'a, T, E>, f: &mut dyn FnMut(&mut Obs, &T))
where
    T: FontRead<'a> + SomeTable<'a> + 'a,
    E: ExtensionLookup<'a, T> + 'a,
{
    o.helper(name);
    let n = st.len();
    o.d.u64(n as u64);
    o.d.bytes(&[st.is_empty() as u8]);
    for i in [n, n.wrapping_add(1), usize::MAX] {
        match st.get(i) {
            Ok(_) => o.d.bytes(&[1]),
            Err(e) => o.err(&e),
        }
    }
    // (the lazily resolved subtables: one per offset)
    let mut i = 0usize;
    o.drain("Subtables::iter", "subTableCount", n as u64, env.cap(4096, 8), st.iter(), |o, t| {
        match t {
            Ok(t) => {
                // typed subtable (extension resolved): generic traversal + typed helpers
                if env.full || i < 3 {
                    walk_table(o, &t as &dyn SomeTable<'a>, 6);
                }
                f(o, &t);
            }
            Err(e) => o.err(&e),
        }
        i += 1;
    });
    if n > 0 {
        match st.get(n - 1) {
            Ok(_) => o.d.bytes(&[1]),
            Err(e) => o.err(&e),
        }
    }
}

fn cov_res(o: &mut Obs, env: &Env, c: Result<CoverageTable, read_fonts::ReadError>) {
    match c {
        Ok(c) => coverage(o, env, &c),
        Err(e) => o.err(&e),
    }
}

fn cd_res(o: &mut Obs, env: &Env, c: Result<ClassDef, read_fonts::ReadError>) {
    match c {
        Ok(c) => class_def(o, env, &c),
        Err(e) => o.err(&e),
    }
}

fn seq_ctx(o: &mut Obs, env: &Env, c: &read_fonts::tables::layout::SequenceContext) {
    use read_fonts::tables::layout::SequenceContext::*;
    match c {
        Format1(t) => cov_res(o, env, t.coverage()),
        Format2(t) => {
            cov_res(o, env, t.coverage());
            cd_res(o, env, t.class_def());
        }
        Format3(t) => {
            for c in t.coverages().iter().take(16) {
                cov_res(o, env, c);
            }
        }
    }
}

fn chain_ctx(o: &mut Obs, env: &Env, c: &read_fonts::tables::layout::ChainedSequenceContext) {
    use read_fonts::tables::layout::ChainedSequenceContext::*;
    match c {
        Format1(t) => cov_res(o, env, t.coverage()),
        Format2(t) => {
            cov_res(o, env, t.coverage());
            cd_res(o, env, t.backtrack_class_def());
            cd_res(o, env, t.input_class_def());
            cd_res(o, env, t.lookahead_class_def());
        }
        Format3(t) => {
            for c in t
                .backtrack_coverages()
                .iter()
                .take(8)
                .chain(t.input_coverages().iter().take(8))
                .chain(t.lookahead_coverages().iter().take(8))
            {
                cov_res(o, env, c);
            }
        }
    }
}

pub fn gsub(o: &mut Obs, env: &Env) {
    let Ok(gsub) = env.font.gsub() else { return };
    if let (Ok(sl), Ok(fl)) = (gsub.script_list(), gsub.feature_list()) {
        scripts_features(o, env, &sl, &fl);
    }
    if let Some(Ok(fv)) = gsub.feature_variations() {
        feature_variations(o, env, &fv);
    }
    if let Ok(ll) = gsub.lookup_list() {
        for l in ll.lookups().iter().take(env.cap(4096, 12)) {
            match l {
                Ok(l) => gsub_lookup(o, env, &l),
                Err(e) => o.err(&e),
            }
        }
    }
    // closure over a few starting sets
    let sets: Vec<IntSet<GlyphId16>> = {
        let mut a = IntSet::new();
        a.insert_range(GlyphId16::new(0)..=GlyphId16::new(env.cap(400, 12) as u16));
        let mut b = IntSet::new();
        b.insert(GlyphId16::new(0xFFFF));
        b.insert(GlyphId16::new(1));
        if env.full {
            let mut c = IntSet::new();
            c.insert_range(GlyphId16::new(0)..=GlyphId16::new(0xFFFF));
            vec![a, b, c, IntSet::new()]
        } else {
            vec![a, b]
        }
    };
    for s in sets {
        o.helper("Gsub::closure_glyphs");
        match gsub.closure_glyphs(s) {
            Ok(r) => {
                o.d.u64(r.len());
                for g in r.iter().take(256) {
                    o.d.u32(g.to_u32());
                }
            }
            Err(e) => o.err(&e),
        }
    }
    collect_features(o, |s, l, f| gsub.collect_features(s, l, f), "Gsub::collect_features");
}

fn collect_features(
    o: &mut Obs,
    f: impl Fn(&IntSet<Tag>, &IntSet<Tag>, &IntSet<Tag>) -> Result<IntSet<u16>, read_fonts::ReadError>,
    name: &'static str,
) {
    let all = {
        let mut s = IntSet::<Tag>::empty();
        s.invert();
        s
    };
    let mut some = IntSet::<Tag>::empty();
    some.insert(Tag::new(b"DFLT"));
    some.insert(Tag::new(b"latn"));
    some.insert(Tag::new(b"liga"));
    some.insert(Tag::new(b"kern"));
    let none = IntSet::<Tag>::empty();
    for (s, l, ft) in [(&all, &all, &all), (&some, &all, &some), (&all, &none, &all), (&none, &none, &none)] {
        o.helper(name);
        match f(s, l, ft) {
            Ok(r) => {
                o.d.u64(r.len());
                for g in r.iter().take(256) {
                    o.d.u32(g as u32);
                }
            }
            Err(e) => o.err(&e),
        }
    }
}

fn gsub_lookup(o: &mut Obs, env: &Env, l: &SubstitutionLookup) {
    o.helper("SubstitutionLookup::flags");
    o.d.dbg(&(l.lookup_flag().to_bits(), l.lookup_flag().mark_attachment_class(), l.lookup_type(), l.mark_filtering_set()));
    o.helper("SubstitutionLookup::subtables");
    let st = match l.subtables() {
        Ok(s) => s,
        Err(e) => {
            o.err(&e);
            return;
        }
    };
    use read_fonts::tables::gsub::SingleSubst;
    match &st {
        SubstitutionSubtables::Single(s) => subtables(o, env, "Subtables<SingleSubst>", s, &mut |o, t| match t {
            SingleSubst::Format1(t) => cov_res(o, env, t.coverage()),
            SingleSubst::Format2(t) => cov_res(o, env, t.coverage()),
        }),
        SubstitutionSubtables::Multiple(s) => subtables(o, env, "Subtables<MultipleSubst>", s, &mut |o, t| cov_res(o, env, t.coverage())),
        SubstitutionSubtables::Alternate(s) => subtables(o, env, "Subtables<AlternateSubst>", s, &mut |o, t| cov_res(o, env, t.coverage())),
        SubstitutionSubtables::Ligature(s) => subtables(o, env, "Subtables<LigatureSubst>", s, &mut |o, t| cov_res(o, env, t.coverage())),
        SubstitutionSubtables::Contextual(s) => subtables(o, env, "Subtables<SequenceContext>", s, &mut |o, t| seq_ctx(o, env, t)),
        SubstitutionSubtables::ChainContextual(s) => subtables(o, env, "Subtables<ChainedSequenceContext>", s, &mut |o, t| chain_ctx(o, env, t)),
        SubstitutionSubtables::Reverse(s) => subtables(o, env, "Subtables<ReverseChainSingleSubst>", s, &mut |o, t| cov_res(o, env, t.coverage())),
    }
}

pub fn gpos(o: &mut Obs, env: &Env) {
    let Ok(gpos) = env.font.gpos() else { return };
    if let (Ok(sl), Ok(fl)) = (gpos.script_list(), gpos.feature_list()) {
        scripts_features(o, env, &sl, &fl);
    }
    if let Some(Ok(fv)) = gpos.feature_variations() {
        feature_variations(o, env, &fv);
    }
    if let Ok(ll) = gpos.lookup_list() {
        for l in ll.lookups().iter().take(env.cap(4096, 12)) {
            match l {
                Ok(l) => gpos_lookup(o, env, &l),
                Err(e) => o.err(&e),
            }
        }
    }
    collect_features(o, |s, l, f| gpos.collect_features(s, l, f), "Gpos::collect_features");
}

fn value_record(o: &mut Obs, vr: &read_fonts::tables::gpos::ValueRecord, data: read_fonts::FontData) {
    o.helper("ValueRecord::devices");
    o.d.dbg(&(vr.x_placement(), vr.y_placement(), vr.x_advance(), vr.y_advance()));
    for d in [vr.x_placement_device(data), vr.y_placement_device(data), vr.x_advance_device(data), vr.y_advance_device(data)] {
        match d {
            Some(Ok(d)) => device_or_var(o, &d),
            Some(Err(e)) => o.err(&e),
            None => o.d.bytes(&[0]),
        }
    }
}

fn anchor(o: &mut Obs, a: Option<Result<read_fonts::tables::gpos::AnchorTable, read_fonts::ReadError>>) {
    match a {
        Some(Ok(a)) => {
            o.helper("AnchorTable::devices");
            o.d.dbg(&(a.x_coordinate(), a.y_coordinate()));
            for d in [a.x_device(), a.y_device()] {
                match d {
                    Some(Ok(d)) => device_or_var(o, &d),
                    Some(Err(e)) => o.err(&e),
                    None => o.d.bytes(&[0]),
                }
            }
        }
        Some(Err(e)) => o.err(&e),
        None => o.d.bytes(&[0]),
    }
}

fn gpos_lookup(o: &mut Obs, env: &Env, l: &PositionLookup) {
    o.helper("PositionLookup::flags");
    o.d.dbg(&(l.lookup_flag().to_bits(), l.lookup_flag().mark_attachment_class(), l.lookup_type(), l.mark_filtering_set()));
    o.helper("PositionLookup::subtables");
    let st = match l.subtables() {
        Ok(s) => s,
        Err(e) => {
            o.err(&e);
            return;
        }
    };
    use read_fonts::tables::gpos::{PairPos, SinglePos};
    let k = env.cap(64, 4);
    match &st {
        PositionSubtables::Single(s) => subtables(o, env, "Subtables<SinglePos>", s, &mut |o, t| match t {
            SinglePos::Format1(t) => {
                cov_res(o, env, t.coverage());
                value_record(o, &t.value_record(), t.offset_data());
            }
            SinglePos::Format2(t) => {
                cov_res(o, env, t.coverage());
                for vr in t.value_records().iter().take(k) {
                    match vr {
                        Ok(vr) => value_record(o, &vr, t.offset_data()),
                        Err(e) => o.err(&e),
                    }
                }
            }
        }),
        PositionSubtables::Pair(s) => subtables(o, env, "Subtables<PairPos>", s, &mut |o, t| match t {
            PairPos::Format1(t) => {
                cov_res(o, env, t.coverage());
                for ps in t.pair_sets().iter().take(k) {
                    match ps {
                        Ok(ps) => {
                            for r in ps.pair_value_records().iter().take(k) {
                                match r {
                                    Ok(r) => {
                                        value_record(o, r.value_record1(), ps.offset_data());
                                        value_record(o, r.value_record2(), ps.offset_data());
                                    }
                                    Err(e) => o.err(&e),
                                }
                            }
                        }
                        Err(e) => o.err(&e),
                    }
                }
            }
            PairPos::Format2(t) => {
                cov_res(o, env, t.coverage());
                cd_res(o, env, t.class_def1());
                cd_res(o, env, t.class_def2());
                for c1 in t.class1_records().iter().take(k) {
                    match c1 {
                        Ok(c1) => {
                            for c2 in c1.class2_records().iter().take(k) {
                                match c2 {
                                    Ok(c2) => {
                                        value_record(o, c2.value_record1(), t.offset_data());
                                        value_record(o, c2.value_record2(), t.offset_data());
                                    }
                                    Err(e) => o.err(&e),
                                }
                            }
                        }
                        Err(e) => o.err(&e),
                    }
                }
            }
        }),
        PositionSubtables::Cursive(s) => subtables(o, env, "Subtables<CursivePos>", s, &mut |o, t| {
            cov_res(o, env, t.coverage());
            for r in t.entry_exit_record().iter().take(k) {
                anchor(o, r.entry_anchor(t.offset_data()));
                anchor(o, r.exit_anchor(t.offset_data()));
            }
        }),
        PositionSubtables::MarkToBase(s) => subtables(o, env, "Subtables<MarkBasePos>", s, &mut |o, t| {
            cov_res(o, env, t.mark_coverage());
            cov_res(o, env, t.base_coverage());
            if let Ok(ma) = t.mark_array() {
                for r in ma.mark_records().iter().take(k) {
                    anchor(o, Some(r.mark_anchor(ma.offset_data())));
                }
            }
            if let Ok(ba) = t.base_array() {
                for r in ba.base_records().iter().take(k) {
                    match r {
                        Ok(r) => {
                            for a in r.base_anchors(ba.offset_data()).iter().take(k) {
                                anchor(o, a);
                            }
                        }
                        Err(e) => o.err(&e),
                    }
                }
            }
        }),
        PositionSubtables::MarkToLig(s) => subtables(o, env, "Subtables<MarkLigPos>", s, &mut |o, t| {
            cov_res(o, env, t.mark_coverage());
            cov_res(o, env, t.ligature_coverage());
            if let Ok(la) = t.ligature_array() {
                for att in la.ligature_attaches().iter().take(k) {
                    match att {
                        Ok(att) => {
                            for c in att.component_records().iter().take(k) {
                                match c {
                                    Ok(c) => {
                                        for a in c.ligature_anchors(att.offset_data()).iter().take(k) {
                                            anchor(o, a);
                                        }
                                    }
                                    Err(e) => o.err(&e),
                                }
                            }
                        }
                        Err(e) => o.err(&e),
                    }
                }
            }
        }),
        PositionSubtables::MarkToMark(s) => subtables(o, env, "Subtables<MarkMarkPos>", s, &mut |o, t| {
            cov_res(o, env, t.mark1_coverage());
            cov_res(o, env, t.mark2_coverage());
            if let Ok(ma) = t.mark2_array() {
                for r in ma.mark2_records().iter().take(k) {
                    match r {
                        Ok(r) => {
                            for a in r.mark2_anchors(ma.offset_data()).iter().take(k) {
                                anchor(o, a);
                            }
                        }
                        Err(e) => o.err(&e),
                    }
                }
            }
        }),
        PositionSubtables::Contextual(s) => subtables(o, env, "Subtables<SequenceContext>", s, &mut |o, t| seq_ctx(o, env, t)),
        PositionSubtables::ChainContextual(s) => subtables(o, env, "Subtables<ChainedSequenceContext>", s, &mut |o, t| chain_ctx(o, env, t)),
    }
}

pub fn gdef(o: &mut Obs, env: &Env) {
    let Ok(gdef) = env.font.gdef() else { return };
    for cd in [gdef.glyph_class_def(), gdef.mark_attach_class_def()].into_iter().flatten() {
        cd_res(o, env, cd);
    }
    if let Some(Ok(al)) = gdef.attach_list() {
        cov_res(o, env, al.coverage());
        for p in al.attach_points().iter().take(env.cap(4096, 8)) {
            match p {
                Ok(p) => o.d.u64(p.point_indices().len() as u64),
                Err(e) => o.err(&e),
            }
        }
    }
    if let Some(Ok(lc)) = gdef.lig_caret_list() {
        cov_res(o, env, lc.coverage());
        for lg in lc.lig_glyphs().iter().take(env.cap(4096, 8)) {
            match lg {
                Ok(lg) => {
                    for cv in lg.caret_values().iter().take(64) {
                        use read_fonts::tables::gdef::CaretValue;
                        match cv {
                            Ok(CaretValue::Format3(c)) => {
                                o.helper("CaretValueFormat3::device");
                                match c.device() {
                                    Ok(d) => device_or_var(o, &d),
                                    Err(e) => o.err(&e),
                                }
                            }
                            Ok(c) => o.d.u32(c.caret_value_format() as u32),
                            Err(e) => o.err(&e),
                        }
                    }
                }
                Err(e) => o.err(&e),
            }
        }
    }
    if let Some(Ok(ms)) = gdef.mark_glyph_sets_def() {
        for c in ms.coverages().iter().take(env.cap(4096, 8)) {
            cov_res(o, env, c);
        }
    }
    if let Some(Ok(s)) = gdef.item_var_store() {
        h_var::ivs(o, env, &s, &env.coords);
    }
}

pub fn base(o: &mut Obs, env: &Env) {
    let Ok(base) = env.font.base() else { return };
    if let Some(Ok(s)) = base.item_var_store() {
        h_var::ivs(o, env, &s, &env.coords);
    }
}
