//! C01 — parsing and traversing untrusted font bytes never panics or hangs;
//! observations are a pure function of the bytes. See /verif/DESIGN.md §3.
pub mod font;
pub mod h_core;
pub mod h_layout;
pub mod h_misc;
pub mod h_ps;
pub mod h_var;
pub mod obs;
pub mod sets;
pub mod walk;

use vf_core::{Args, Ctx};

pub const REPLAY: Option<fn(&mut Ctx, &Args, &serde_json::Value, Option<&[u8]>)> = None;

pub fn run(ctx: &mut Ctx, _args: &Args) {
    ctx.rule = "stub".into();
}
