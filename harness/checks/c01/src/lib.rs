//! C01 — parsing and traversing untrusted font bytes never panics or hangs;
//! observations are a pure function of the bytes. See /verif/DESIGN.md §3.
//!
//! Oracle: "returns, and returns the same thing". Every input is walked under
//! the panic + cpu-time progress monitors (`ctx.run_case`), every caught panic
//! is judged through `ctx.judge_panic` (so `ctx.policy` decides), and for a
//! sample of inputs the observation digest is recomputed (a) a second time,
//! (b) on another thread, (c) on a relocated, differently aligned copy.
pub mod cmapgen;
mod bitmapgen;
mod aatgen;
pub mod font;
pub mod h_core;
pub mod h_layout;
pub mod h_misc;
pub mod h_ps;
pub mod h_var;
pub mod obs;
pub mod payload;
pub mod sets;
pub mod walk;

use obs::{Obs, WalkCfg, ERR_KINDS};
use payload::RealArgs;
use serde_json::{json, Value};
use vf_core::gen::{self, Patcher, TableRec};
use vf_core::{fnv64, Args, CorpusFont, Ctx, PanicPolicy, Rng};

pub const REPLAY: Option<fn(&mut Ctx, &Args, &Value, Option<&[u8]>)> = Some(replay);

/// Minimum number of generic fields for an input to count as non-trivial.
const NONTRIVIAL_FIELDS: u64 = 16;

pub fn run(ctx: &mut Ctx, args: &Args) {
    ctx.policy = PanicPolicy::Totality;
    workload(ctx, args)
}

// ---------------------------------------------------------------- case spec

/// What to do with the input bytes.
#[derive(Clone, Debug)]
pub enum Spec {
    /// whole file: FileRef/CollectionRef/FontRef + all tables + helpers
    File(WalkCfg),
    /// bytes are one table payload read directly
    Payload { tag: [u8; 4], real: RealArgs, cross: bool, cfg: WalkCfg },
    /// typed scan of small subtable types at every offset
    Scan { max_offsets: usize, real: RealArgs, cfg: WalkCfg },
}

impl Spec {
    pub fn run(&self, bytes: &[u8]) -> Obs {
        match self {
            Spec::File(cfg) => font::walk_file(bytes, cfg),
            Spec::Payload { tag, real, cross, cfg } => payload::walk_payload(bytes, *tag, real, *cross, cfg),
            Spec::Scan { max_offsets, real, cfg } => payload::scan_payload(bytes, *max_offsets, real, cfg),
        }
    }
    pub fn to_json(&self) -> Value {
        match self {
            Spec::File(cfg) => json!({"mode": "file", "cfg": cfg.to_json()}),
            Spec::Payload { tag, real, cross, cfg } => {
                json!({"mode": "payload", "tag": String::from_utf8_lossy(tag), "real": real.to_json(), "cross": cross, "cfg": cfg.to_json()})
            }
            Spec::Scan { max_offsets, real, cfg } => json!({"mode": "scan", "max_offsets": max_offsets, "real": real.to_json(), "cfg": cfg.to_json()}),
        }
    }
    pub fn from_json(v: &Value) -> Spec {
        let cfg = WalkCfg::from_json(&v["cfg"]);
        match v["mode"].as_str() {
            Some("payload") => {
                let t = v["tag"].as_str().unwrap_or("    ").as_bytes().to_vec();
                let mut tag = [b' '; 4];
                for (i, b) in t.iter().take(4).enumerate() {
                    tag[i] = *b;
                }
                Spec::Payload { tag, real: RealArgs::from_json(&v["real"]), cross: v["cross"].as_bool().unwrap_or(false), cfg }
            }
            Some("scan") => Spec::Scan { max_offsets: v["max_offsets"].as_u64().unwrap_or(256) as usize, real: RealArgs::from_json(&v["real"]), cfg },
            _ => Spec::File(cfg),
        }
    }
}

// ---------------------------------------------------------------- executing one case

struct Runner {
    /// global work-item counter (sharding key)
    item: usize,
    /// determinism check on 1 in `det_every` executed cases
    det_every: u64,
    executed: u64,
}

/// Run one input under all monitors and record evidence.
#[allow(clippy::too_many_arguments)]
fn exec(ctx: &mut Ctx, r: &mut Runner, kind: &'static str, font: &str, mutation: &str, bytes: &[u8], spec: &Spec, nt_digest: u64) {
    r.executed += 1;
    let det = r.executed % r.det_every == 0;
    exec_inner(ctx, kind, font, mutation, bytes, spec, nt_digest, det);
}

#[allow(clippy::too_many_arguments)]
fn exec_inner(ctx: &mut Ctx, kind: &'static str, font: &str, mutation: &str, bytes: &[u8], spec: &Spec, nt_digest: u64, det: bool) {
    ctx.eval();
    ctx.count(kind, 1);
    let label = || format!("{}:{}:{}", kind, font, mutation);
    let case = json!({"kind": kind, "font": font, "mutation": mutation, "spec": spec.to_json()});
    let t0 = vf_core::thread_cpu_ns();
    let res = ctx.run_case(&label, Some(bytes), &|| spec.run(bytes));
    ctx.count(&format!("cpu_us:{}", &kind[7..]), vf_core::thread_cpu_ns().saturating_sub(t0) / 1000);
    let obs = match res {
        Ok(o) => o,
        Err(p) => {
            // a panic outside every guarded section (should not happen; judged all the same)
            ctx.judge_panic(&p, "walk (unguarded section)", case, Some(bytes));
            return;
        }
    };
    for (what, p) in &obs.panics {
        ctx.judge_panic(p, what, case.clone(), Some(bytes));
        if p.class.is_strict_only() && p.in_repo() {
            note_strict_site(ctx, p, what, font, mutation);
        }
    }
    report_work_alarms(ctx, &obs, &case, bytes);
    record(ctx, &obs, kind, nt_digest);
    if obs.fields >= NONTRIVIAL_FIELDS && obs.tables_ok > 0 {
        ctx.sample_by_kind(kind, json!({"font": font, "mutation": mutation, "fields": obs.fields, "tables_ok": obs.tables_ok, "helper_calls": obs.helper_calls, "digest": format!("{:016x}", obs.d.finish())}));
    }
    if det {
        determinism(ctx, &obs, font, mutation, bytes, spec, &case);
    }
}

/// The work monitor's refuting observations: a drained iterator yielded more
/// items than the ceiling its format allows (work not proportional to the
/// input). One finding per (helper, ceiling), the input as replay.
fn report_work_alarms(ctx: &mut Ctx, obs: &Obs, case: &Value, bytes: &[u8]) {
    for a in &obs.work_alarms {
        ctx.count("work_bound_alarms", 1);
        let sig = format!("work-bound:{}:{}", a.helper, a.ceiling_expr);
        ctx.violation(
            &sig,
            json!({"what": "iterator yielded more items than the ceiling its format allows", "helper": a.helper, "ceiling_expr": a.ceiling_expr,
                   "ceiling": a.ceiling, "yielded_at_least": a.yielded, "still_yielding_when_stopped": a.stopped_by_cap, "input_len": bytes.len(), "case": case}),
            Some(bytes),
        );
    }
}

/// One example (message, section, input) per strict-only panic site, for C20.
fn note_strict_site(ctx: &mut Ctx, p: &vf_core::PanicInfo, what: &str, font: &str, mutation: &str) {
    use std::sync::Mutex;
    static SEEN: Mutex<Vec<String>> = Mutex::new(Vec::new());
    let sig = p.signature();
    let mut seen = match SEEN.lock() {
        Ok(s) => s,
        Err(e) => e.into_inner(),
    };
    if seen.contains(&sig) {
        return;
    }
    seen.push(sig.clone());
    let m: String = mutation.chars().take(120).collect();
    ctx.label("strict_only_panic_examples", &format!("{} | {} | in {} | {} | {}", sig, p.msg, what, font, m));
}

fn record(ctx: &mut Ctx, obs: &Obs, _kind: &str, nt_digest: u64) {
    ctx.count("fields_visited", obs.fields);
    ctx.count("nodes_visited", obs.nodes);
    ctx.count("helper_calls", obs.helper_calls);
    ctx.count("tables_parsed_ok", obs.tables_ok as u64);
    if obs.budget_hit {
        ctx.count("field_budget_hit", 1);
    }
    ctx.count("work_iterators_drained_within_ceiling", obs.work_checked);
    ctx.count("work_iterators_take_only", obs.work_unchecked);
    ctx.count("work_items_yielded", obs.work_items);
    for (h, (iters, items)) in &obs.work_by_helper {
        ctx.count(&format!("work_iterators:{}", h), *iters);
        ctx.count(&format!("work_items:{}", h), *items);
    }
    if obs.work_checked > 0 {
        let bucket = match obs.work_max_permille {
            0..=100 => "<=10%",
            101..=500 => "<=50%",
            501..=999 => "<100%",
            _ => "=100%",
        };
        ctx.count(&format!("work_peak_yield_vs_ceiling:{}", bucket), 1);
    }
    for (i, n) in obs.errs.iter().enumerate() {
        if *n > 0 {
            ctx.count(ERR_NAMES[i], *n as u64);
        }
    }
    for t in &obs.new_types {
        ctx.label("types_reached", t);
    }
    for h in &obs.new_helpers {
        ctx.label("helpers_reached", h);
    }
    if obs.tables_ok > 0 && obs.fields >= NONTRIVIAL_FIELDS {
        ctx.nontrivial(nt_digest);
        ctx.count("nontrivial_inputs", 1);
    } else if obs.tables_ok == 0 {
        ctx.count("inputs_nothing_parsed", 1);
    }
    ctx.distinct("observation_digests", obs.d.finish());
}

const ERR_NAMES: [&str; 12] = [
    "read_error:OutOfBounds",
    "read_error:InvalidFormat",
    "read_error:InvalidSfnt",
    "read_error:InvalidTtc",
    "read_error:InvalidCollectionIndex",
    "read_error:InvalidArrayLen",
    "read_error:ValidationError",
    "read_error:NullOffset",
    "read_error:TableIsMissing",
    "read_error:MetricIsMissing",
    "read_error:MalformedData",
    "read_error:postscript::Error",
];
const _: () = assert!(ERR_NAMES.len() == ERR_KINDS.len());

/// Compare the observation of another run (second call / other thread / other
/// placement) of the same bytes with the first one; a difference refutes purity.
#[allow(clippy::too_many_arguments)]
fn compare_obs(ctx: &mut Ctx, first: &Obs, which: &str, other: Result<Obs, vf_core::PanicInfo>, font: &str, mutation: &str, bytes: &[u8], case: &Value) {
    let k0 = first.key();
    let sigs0 = first.panic_counts.clone();
    let sites0 = first.panic_sites.clone();
    let o = match other {
        Ok(o) => o,
        Err(p) => {
            ctx.judge_panic(&p, which, case.clone(), Some(bytes));
            return;
        }
    };
    if o.key() == k0 {
        return;
    }
    let sigs = o.panic_counts.clone();
    if sigs != sigs0 || o.panic_sites != sites0 {
        // the difference is a panic that depends on the call / thread /
        // placement: the panic itself is the refuting event (one finding
        // per panic site instead of one per input)
        ctx.count("placement_or_call_dependent_panics", 1);
        for (what, p) in &o.panics {
            let sg = p.signature();
            let moved = o.panic_sites.iter().filter(|(_, s)| *s == sg).ne(sites0.iter().filter(|(_, s)| *s == sg));
            if sigs0.get(&sg) != sigs.get(&sg) || moved {
                ctx.judge_panic(p, &format!("{} [only on {}]", what, which), case.clone(), Some(bytes));
            }
        }
        return;
    }
    let sig = format!("nondeterministic:{}:{}:{}", which, font, mutation);
    ctx.violation(
        &sig,
        json!({"what": "observation digest differs for identical bytes", "which": which,
               "first": format!("{:?}", k0), "other": format!("{:?}", o.key()), "case": case}),
        Some(bytes),
    );
}

/// The purity clause: same bytes => same observations on a second call, on
/// another thread, and at another address / alignment with other neighbours.
fn determinism(ctx: &mut Ctx, first: &Obs, font: &str, mutation: &str, bytes: &[u8], spec: &Spec, case: &Value) {
    ctx.count("determinism_checks", 1);
    let mut compare = |ctx: &mut Ctx, which: &str, other: Result<Obs, vf_core::PanicInfo>| compare_obs(ctx, first, which, other, font, mutation, bytes, case);
    // (a) second call
    compare(ctx, "second-call", vf_core::guard(|| spec.run(bytes)));
    // (b) another thread
    let other = std::thread::scope(|s| {
        std::thread::Builder::new()
            .stack_size(8 << 20)
            .spawn_scoped(s, || vf_core::guard(|| spec.run(bytes)))
            .ok()
            .and_then(|h| h.join().ok())
    });
    match other {
        Some(r) => compare(ctx, "other-thread", r),
        None => ctx.inconclusive("could not run the other-thread determinism check"),
    }
    // (c) relocated copies at two different alignments
    let base = (fnv64(mutation.as_bytes()) % 8) as usize;
    for (mis, pad, which) in [(base, 0xA5u8, "relocated-a"), ((base + 3) % 8, 0x00, "relocated-b")] {
        let (owner, range) = gen::relocate(bytes, mis, pad);
        let moved = &owner[range];
        compare(ctx, which, vf_core::guard(|| spec.run(moved)));
    }
}

/// Public entry for other checks (C20): walk ONE font byte string with the
/// generic walker and all helpers under `ctx.run_case`; panics are judged by
/// `ctx.judge_panic`, so `ctx.policy` decides.
pub fn walk_font(ctx: &mut Ctx, label: &str, bytes: &[u8]) {
    let spec = Spec::File(WalkCfg::mutant(200_000, None));
    let nt = fnv64(bytes);
    exec_inner(ctx, "inputs:external", label, "as-given", bytes, &spec, nt, false);
}

// ---------------------------------------------------------------- replay

fn replay(ctx: &mut Ctx, _args: &Args, rec: &Value, input: Option<&[u8]>) {
    if ctx.policy == PanicPolicy::Any {
        ctx.policy = PanicPolicy::Totality;
    }
    let Some(bytes) = input else {
        ctx.inconclusive("replay record has no input file");
        return;
    };
    // judge_panic wraps the case as detail.case; determinism reports put it at detail.case too
    let case = &rec["detail"]["case"];
    let spec = Spec::from_json(&case["spec"]);
    let font = case["font"].as_str().unwrap_or("?").to_string();
    let mutation = case["mutation"].as_str().unwrap_or("?").to_string();
    ctx.rule = rule_text();
    exec_inner(ctx, "inputs:replay", &font, &mutation, bytes, &spec, fnv64(bytes), true);
}

fn rule_text() -> String {
    format!(
        "an input (whole file, table payload or typed scan) on which at least one table/subtable read succeeded and the generic walker visited >= {} fields; digest = fnv(font id, generator kind, mutation description)",
        NONTRIVIAL_FIELDS
    )
}

// ---------------------------------------------------------------- workload

fn nt(font: &str, kind: &str, mutation: &str) -> u64 {
    let mut d = vf_core::Digest::new();
    d.str(font);
    d.str(kind);
    d.str(mutation);
    d.finish()
}

/// cfg for a mutant of a font of `len` bytes whose edit is confined to `tag`.
fn mutant_cfg(len: usize, tag: Option<[u8; 4]>) -> WalkCfg {
    if len <= 16 * 1024 {
        WalkCfg::mutant(60_000, None)
    } else {
        WalkCfg::mutant(40_000, tag)
    }
}

/// The slice run under Miri (extra stage "miri" of stages.json). read-fonts itself
/// forbids `unsafe`; what it relies on are the `bytemuck` casts behind
/// `FontData::read_ref_at` / `read_array` / `cast_slice` and font-types' marker impls
/// (`unsafe impl AnyBitPattern for BigEndian<T>`). Every input (a few tiny corpus fonts,
/// pristine + truncations + directory / boundary / random edits) is walked by the generic
/// walker and all helpers from four buffers whose start sits at misalignment 0..3 with
/// different neighbouring bytes; the four observation digests must agree. What Miri adds
/// (with -Zmiri-symbolic-alignment-check): a cast that assumes more alignment than a byte
/// buffer promises, an out-of-bounds or uninitialised read, is reported even when the
/// values happen to come out right on this machine.
fn miri_slice(ctx: &mut Ctx, _args: &Args) {
    ctx.assumptions.push("Miri slice: single-threaded interpretation; the second-call / other-thread comparisons are left to the native profiles, the relocated-copy comparison is made at start misalignments 0..3".into());
    let dir = format!("{}/font-test-data/test_data/ttf", vf_core::repo_dir());
    let thorough = ctx.tier.is_thorough();
    // One walk (generic walker + all helpers) of a 150..450-byte font costs 2..5 s of Miri time.
    let names: &[&str] = if thorough { &["cmap4_symbol_pua.ttf", "simple_glyf.ttf", "cmap12_font1.ttf"] } else { &["cmap4_symbol_pua.ttf", "simple_glyf.ttf"] };
    let n_random = if thorough { 3 } else { 1 };
    let seed = ctx.seed;
    let mut fonts_read = 0;
    // debugging knobs: VF_MIRI_ONLY=<font name substring>, VF_MIRI_MAX_INPUTS=<n per font>
    let only = std::env::var("VF_MIRI_ONLY").unwrap_or_default();
    let max_inputs: usize = std::env::var("VF_MIRI_MAX_INPUTS").ok().and_then(|s| s.parse().ok()).unwrap_or(usize::MAX);
    for (fi, name) in names.iter().enumerate() {
        if !name.contains(only.as_str()) {
            continue;
        }
        let data = match std::fs::read(format!("{}/{}", dir, name)) {
            Ok(d) => d,
            Err(e) => {
                ctx.inconclusive(format!("cannot read {}: {}", name, e));
                continue;
            }
        };
        fonts_read += 1;
        let id = format!("{}#{:016x}", name, fnv64(&data));
        let dir_recs = dir_of(&data);
        let len = data.len();
        // (kind, mutation description, bytes)
        let mut inputs: Vec<(&'static str, String, Vec<u8>)> = vec![("inputs:miri-pristine", "pristine".into(), data.clone())];
        // truncations: one byte short, inside the last table, inside the directory, a bare header
        let mut cuts = vec![];
        if let Some(last) = dir_recs.iter().max_by_key(|r| r.offset) {
            cuts.push(((last.offset as usize).min(len) + len) / 2);
        }
        if thorough {
            cuts.extend_from_slice(&[len - 1, 12 + 16 * dir_recs.len() - 3, 12, len / 2]);
        }
        cuts.sort_unstable();
        cuts.dedup();
        for c in cuts {
            inputs.push(("inputs:miri-truncate-file", format!("truncate-file@{}", c), data[..c.min(len)].to_vec()));
        }
        // directory edits: table lengths and offsets at boundary values
        for (ti, rec) in dir_recs.iter().enumerate() {
            if ti >= if thorough { 2 } else { 1 } {
                break;
            }
            let fl = len as u32;
            let edits: Vec<(String, usize, u32)> = vec![
                (format!("dir-length:{}={:#x}", rec.tag_str(), rec.len.wrapping_sub(1)), rec.rec_pos + 12, rec.len.wrapping_sub(1)),
                (format!("dir-length:{}={:#x}", rec.tag_str(), fl.wrapping_sub(rec.offset).wrapping_add(1)), rec.rec_pos + 12, fl.wrapping_sub(rec.offset).wrapping_add(1)),
                (format!("dir-offset:{}={:#x}", rec.tag_str(), rec.offset.wrapping_add(1)), rec.rec_pos + 8, rec.offset.wrapping_add(1)),
                (format!("dir-offset:{}={:#x}", rec.tag_str(), 0xFFFF_FFFFu32), rec.rec_pos + 8, 0xFFFF_FFFF),
            ];
            for (k, (desc, pos, v)) in edits.into_iter().enumerate() {
                if !thorough && k != fi % 4 {
                    continue;
                }
                let mut buf = data.clone();
                let mut patch = Patcher::new();
                patch.set32(&mut buf, pos, v);
                inputs.push(("inputs:miri-directory-edit", desc, buf));
            }
        }
        // boundary values inside the tables + random structure-aware mutants
        for it in 0..n_random {
            let mut rng = Rng::derive(seed, "c01-miri-mutant", (fi as u64) << 32 | it as u64);
            let mut buf = data.clone();
            let mut patch = Patcher::new();
            let focus = (!dir_recs.is_empty()).then(|| dir_recs[rng.usize(dir_recs.len())].tag);
            let kinds = gen::mutate_random(&mut buf, &dir_recs, &mut rng, &mut patch, focus.as_ref());
            for k in &kinds {
                ctx.count(&format!("mutation_kind:{}", k), 1);
            }
            inputs.push(("inputs:miri-random-mutant", format!("random#{}:{}", it, patch.describe()), buf));
        }
        // quick tier: the second font (its walks cost ~7 s each) only pristine + one truncation
        let max_inputs = if !thorough && fi > 0 { max_inputs.min(2) } else { max_inputs };
        for (case_no, (kind, mutation, bytes)) in inputs.into_iter().take(max_inputs).enumerate() {
            let t0 = ctx.elapsed_s();
            // the boundary-sample effort for every input: the full effort (every glyph / code point) is the native profiles' job
            let spec = Spec::File(WalkCfg::mutant(20_000, None));
            let case = json!({"kind": kind, "font": id, "mutation": mutation, "spec": spec.to_json()});
            ctx.eval();
            ctx.count(kind, 1);
            // no `run_case`: its cpu-time bound is calibrated for native execution
            let (owner, range) = gen::relocate(&bytes, 0, 0xA5);
            let placed = &owner[range];
            let first = match vf_core::guard(|| spec.run(placed)) {
                Ok(o) => o,
                Err(p) => {
                    ctx.judge_panic(&p, "walk (unguarded section)", case, Some(&bytes));
                    continue;
                }
            };
            for (what, p) in &first.panics {
                ctx.judge_panic(p, what, case.clone(), Some(&bytes));
            }
            report_work_alarms(ctx, &first, &case, &bytes);
            record(ctx, &first, kind, nt(&id, "miri", &mutation));
            if first.fields >= NONTRIVIAL_FIELDS && first.tables_ok > 0 {
                ctx.sample_by_kind(kind, json!({"font": id, "mutation": mutation, "fields": first.fields, "tables_ok": first.tables_ok, "helper_calls": first.helper_calls, "digest": format!("{:016x}", first.d.finish()), "placements": "misalignments 0..3 (quick tier: 0..3 for the first pristine font, else 0 and one of 1..3)"}));
            }
            ctx.count("determinism_checks", 1);
            for (mis, pad) in [(1usize, 0x00u8), (2, 0xFF), (3, 0x5A)] {
                // thorough: every input at misalignments 0..3. quick: the first font pristine at 0..3, everything else at 0 and one of 1..3
                if !thorough && (mutation != "pristine" || fi > 0) && mis != 1 + (case_no + 2) % 3 {
                    continue;
                }
                let (owner, range) = gen::relocate(&bytes, mis, pad);
                let moved = &owner[range];
                compare_obs(ctx, &first, &format!("relocated-misaligned-{}", mis), vf_core::guard(|| spec.run(moved)), &id, &mutation, &bytes, &case);
                ctx.count("placement_comparisons", 1);
            }
            let dt = ctx.elapsed_s() - t0;
            if std::env::var("VF_TIMING").is_ok() {
                eprintln!("c01 miri timing: {:<22} {:<40} {:7.2}s fields={} helpers={}", name, mutation.chars().take(40).collect::<String>(), dt, first.fields, first.helper_calls);
            }
            ctx.count(&format!("wall_ms:miri:{}", name), (dt * 1000.0) as u64);
        }
    }
    ctx.extra.insert("miri_fonts".into(), json!(names));
    if fonts_read == 0 {
        ctx.inconclusive("no font of the Miri slice could be read");
    }
}

pub fn workload(ctx: &mut Ctx, args: &Args) {
    ctx.rule = rule_text();
    ctx.assumptions = vec![
        "64-bit target (usize arithmetic on u32 font values cannot overflow); 32-bit behaviour is not observed".into(),
        "COLR PaintId values embed the address of the data by design (cycle detection); they are observed relative to each other, not absolutely".into(),
        "lazily unbounded iterators (Cmap12::iter without limits: up to 2^32 pairs by design; Cmap12::iter_with_limits with max_char = u32::MAX; CollectionRef::iter / FileRef::fonts with numFonts = 2^32-1; Charset::iter with num_glyphs = 2^32-1) are consumed through take(N)".into(),
        "work monitor: an iterator whose item count has a format-defined ceiling is drained to its end (first N items digested, the rest counted; hard cap 4 x ceiling + 1024) and must not yield more than the ceiling; ceilings above 2^21 items, and iterators reached after a walk has drained 6M (mutant) / 64M (pristine) items, are consumed through take(N) only (counter work_iterators_take_only). Only yielded items are counted: internal steps that yield nothing (e.g. Cmap4 codes without a glyph) are seen by the cpu-time bound only".into(),
        "stack overflow / abort are attributed by the driver through trace mode, not by this crate".into(),
    ];
    if cfg!(miri) || args.profile == "miri" {
        return miri_slice(ctx, args);
    }
    let fonts = vf_core::corpus_fonts();
    if fonts.is_empty() {
        ctx.inconclusive("no corpus fonts found");
        return;
    }
    let mut r = Runner { item: 0, det_every: 10, executed: 0 };
    let seed = ctx.seed;

    corpus_pass(ctx, &mut r, &fonts);
    file_truncations(ctx, &mut r, &fonts);
    table_truncations(ctx, &mut r, &fonts);
    boundary_sweeps(ctx, &mut r, &fonts);
    directory_edits(ctx, &mut r, &fonts);
    random_mutants(ctx, &mut r, &fonts, seed);
    splices(ctx, &mut r, &fonts, seed);
    payload_mutants(ctx, &mut r, &fonts, seed);
    cmap_directed(ctx, &mut r, &fonts, seed);

    ctx.extra.insert("fonts_in_corpus".into(), json!(fonts.len()));
    ctx.extra.insert("work_items_enumerated".into(), json!(r.item));
}

fn dir_of(bytes: &[u8]) -> Vec<TableRec> {
    gen::parse_dir(bytes, 0)
}

/// G1: pristine corpus: full walk, every table payload read directly (own type
/// with external argument variants + every other type), typed scan.
fn corpus_pass(ctx: &mut Ctx, r: &mut Runner, fonts: &[CorpusFont]) {
    for f in fonts {
        let id = f.id();
        let bytes: &[u8] = &f.data;
        r.item += 1;
        if ctx.mine(r.item) {
            exec_inner(ctx, "inputs:corpus-file", &id, "pristine", bytes, &Spec::File(WalkCfg::full()), nt(&id, "corpus", ""), true);
        }
        let real = RealArgs::of(bytes);
        for rec in dir_of(bytes) {
            let payload = &bytes[rec.range(bytes.len())];
            let tag = rec.tag_str();
            r.item += 1;
            if ctx.mine(r.item) {
                let spec = Spec::Payload { tag: rec.tag, real, cross: true, cfg: WalkCfg { field_budget: 400_000, ..WalkCfg::full() } };
                exec(ctx, r, "inputs:corpus-payload", &id, &format!("payload:{}", tag), payload, &spec, nt(&id, "payload", &tag));
            }
            r.item += 1;
            if ctx.mine(r.item) {
                let max = ctx.budget(384, 4096);
                let spec = Spec::Scan { max_offsets: max, real, cfg: WalkCfg::mutant(300_000, None) };
                exec(ctx, r, "inputs:corpus-scan", &id, &format!("scan:{}", tag), payload, &spec, nt(&id, "scan", &tag));
            }
        }
    }
}

/// G2: every prefix of the whole file (dense at the start, geometric after).
fn file_truncations(ctx: &mut Ctx, r: &mut Runner, fonts: &[CorpusFont]) {
    let dense = ctx.budget(700, 6000);
    for f in fonts {
        let id = f.id();
        let bytes: &[u8] = &f.data;
        for p in gen::truncation_points(bytes.len(), dense) {
            r.item += 1;
            if !ctx.mine(r.item) {
                continue;
            }
            let m = format!("truncate-file@{}", p);
            exec(ctx, r, "inputs:truncate-file", &id, &m, &bytes[..p], &Spec::File(mutant_cfg(p, None)), nt(&id, "tf", &m));
        }
    }
}

/// G3: truncation of each table: (a) in the container, by editing the
/// directory length in place; (b) the truncated payload read directly.
fn table_truncations(ctx: &mut Ctx, r: &mut Runner, fonts: &[CorpusFont]) {
    let dense = ctx.budget(160, 4096);
    for f in fonts {
        let id = f.id();
        let mut buf = f.data.to_vec();
        let dir = dir_of(&buf);
        let real = RealArgs::of(&buf);
        let big = buf.len() > 64 * 1024;
        for rec in &dir {
            let range = rec.range(buf.len());
            let tag = rec.tag_str();
            let dense_here = if big { dense / 2 } else { dense };
            for p in gen::truncation_points(range.len(), dense_here) {
                r.item += 1;
                if !ctx.mine(r.item) {
                    continue;
                }
                let m = format!("truncate-table:{}@{}", tag, p);
                let mut patch = Patcher::new();
                patch.set32(&mut buf, rec.rec_pos + 12, p as u32);
                let cfg = mutant_cfg(buf.len(), Some(rec.tag));
                exec(ctx, r, "inputs:truncate-table", &id, &m, &buf, &Spec::File(cfg), nt(&id, "tt", &m));
                patch.undo(&mut buf);
                let payload = &buf[range.start..range.start + p];
                let spec = Spec::Payload { tag: rec.tag, real, cross: false, cfg: WalkCfg::mutant(40_000, None) };
                exec(ctx, r, "inputs:truncate-payload", &id, &m, payload, &spec, nt(&id, "tp", &m));
            }
        }
    }
}

/// G4: boundary values at every 2/4-byte position of the first 256 bytes of
/// every table and of the file header / directory (sampled to fit the budget).
fn boundary_sweeps(ctx: &mut Ctx, r: &mut Runner, fonts: &[CorpusFont]) {
    // keep 1 in N enumerated edits: N shrinks as the budget scale grows
    let keep_small = ((ctx.tier.pick(30.0, 4.0) / ctx.scale.max(0.01)).ceil() as usize).max(1);
    let keep_big = ((ctx.tier.pick(160.0, 16.0) / ctx.scale.max(0.01)).ceil() as usize).max(1);
    for f in fonts {
        let id = f.id();
        let mut buf = f.data.to_vec();
        let len = buf.len();
        let dir = dir_of(&buf);
        let keep = if len > 64 * 1024 { keep_big } else { keep_small };
        let mut regions: Vec<(String, usize, usize, Option<[u8; 4]>)> = vec![("header".into(), 0, (12 + 16 * dir.len()).min(len).max(12.min(len)), None)];
        if buf.get(0..4) == Some(b"ttcf") {
            regions[0].2 = len.min(256);
        }
        for rec in &dir {
            let x = rec.range(len);
            regions.push((rec.tag_str(), x.start, x.end, Some(rec.tag)));
            // deeper windows (subtables live there): 64 bytes at 1/4, 1/2, 3/4 and the tail
            if x.len() > 512 {
                for (k, at) in [x.len() / 4, x.len() / 2, 3 * x.len() / 4, x.len() - 64].into_iter().enumerate() {
                    let s = x.start + (at & !1);
                    regions.push((format!("{}+w{}", rec.tag_str(), k), s, (s + 64).min(x.end), Some(rec.tag)));
                }
            }
        }
        for (name, start, end, tag) in regions {
            let salt = fnv64(name.as_bytes()) as usize;
            let base_item = r.item;
            let mut jobs: Vec<(String, Vec<u8>)> = vec![];
            // two phases: enumerate selected edits (sweep_region restores the
            // buffer after each callback), executing inside the callback.
            let shard = ctx.shard;
            let mut select = |i: usize| -> bool { (i.wrapping_mul(2654435761).wrapping_add(salt)) % keep == 0 && ((base_item + i) % shard.1 == shard.0) };
            let mut on = |b: &[u8], desc: &str| {
                jobs.push((desc.to_string(), b[start..end.min(start + 260)].to_vec()));
            };
            let n = gen::sweep_region(&mut buf, start, end, 256, &mut select, &mut on);
            r.item += n;
            for (desc, patch_bytes) in jobs {
                // re-apply the edit (the region prefix) in place, run, restore
                let mut patch = Patcher::new();
                patch.set(&mut buf, start, &patch_bytes);
                let m = format!("sweep:{}:{}", name, desc);
                let cfg = mutant_cfg(len, tag);
                exec(ctx, r, "inputs:boundary-sweep", &id, &m, &buf, &Spec::File(cfg), nt(&id, "sw", &m));
                patch.undo(&mut buf);
            }
        }
    }
}

/// G6: table-directory edits: offsets / lengths at boundary values, table
/// count, duplicated / unsorted / renamed tags.
fn directory_edits(ctx: &mut Ctx, r: &mut Runner, fonts: &[CorpusFont]) {
    let all_tags: [&[u8; 4]; 12] = [b"glyf", b"loca", b"GPOS", b"GSUB", b"cmap", b"hmtx", b"CFF ", b"gvar", b"COLR", b"name", b"post", b"HVAR"];
    for f in fonts {
        let id = f.id();
        let mut buf = f.data.to_vec();
        let fl = buf.len() as u32;
        let dir = dir_of(&buf);
        let big = buf.len() > 64 * 1024;
        let mut edits: Vec<(String, usize, Vec<u8>, Option<[u8; 4]>)> = vec![];
        let n = dir.len() as u16;
        for v in [0u16, 1, n.wrapping_sub(1), n.wrapping_add(1), 0x7FFF, 0xFFFF] {
            edits.push((format!("numTables={}", v), 4, v.to_be_bytes().to_vec(), None));
        }
        for v in [0u32, 0x4F54544F, 0x74727565, 0x74746366, 0x00020000, 0xFFFFFFFF] {
            edits.push((format!("sfntVersion={:#x}", v), 0, v.to_be_bytes().to_vec(), None));
        }
        for (i, rec) in dir.iter().enumerate() {
            let other = dir[(i + 1) % dir.len()].offset;
            let offs = [0u32, 1, rec.offset.wrapping_add(1), rec.offset.wrapping_sub(1), rec.offset.wrapping_add(2), fl.wrapping_sub(1), fl, fl.wrapping_sub(rec.len), fl.wrapping_sub(rec.len).wrapping_add(1), 0xFFFFFFFF, 0x80000000, 0u32.wrapping_sub(rec.len), other];
            for v in offs {
                edits.push((format!("dir-offset:{}={:#x}", rec.tag_str(), v), rec.rec_pos + 8, v.to_be_bytes().to_vec(), Some(rec.tag)));
            }
            let lens = [0u32, 1, 2, rec.len.wrapping_add(1), rec.len.wrapping_sub(1), fl.wrapping_sub(rec.offset), fl.wrapping_sub(rec.offset).wrapping_add(1), fl, 0xFFFFFFFF, 0x80000000, 0u32.wrapping_sub(rec.offset)];
            for v in lens {
                edits.push((format!("dir-length:{}={:#x}", rec.tag_str(), v), rec.rec_pos + 12, v.to_be_bytes().to_vec(), Some(rec.tag)));
            }
            // rename this record to another table type (payload read as a different table through the provider)
            for t in all_tags.iter().filter(|t| ***t != rec.tag).take(if big { 2 } else { 12 }) {
                edits.push((format!("retag:{}->{}", rec.tag_str(), String::from_utf8_lossy(*t)), rec.rec_pos, t.to_vec(), None));
            }
        }
        for (desc, pos, new, tag) in edits {
            r.item += 1;
            if !ctx.mine(r.item) {
                continue;
            }
            let mut patch = Patcher::new();
            patch.set(&mut buf, pos, &new);
            let cfg = if desc.starts_with("retag") { mutant_cfg(buf.len().min(1024), None) } else { mutant_cfg(buf.len(), tag) };
            exec(ctx, r, "inputs:directory-edit", &id, &desc, &buf, &Spec::File(cfg), nt(&id, "de", &desc));
            patch.undo(&mut buf);
        }
    }
}

/// G5: random structure-aware mutants (1..4 edits each), in place.
fn random_mutants(ctx: &mut Ctx, r: &mut Runner, fonts: &[CorpusFont], seed: u64) {
    let per_small = ctx.budget(1200, 12_000);
    let per_big = ctx.budget(500, 5_000);
    for (fi, f) in fonts.iter().enumerate() {
        let id = f.id();
        let mut buf = f.data.to_vec();
        let dir = dir_of(&buf);
        let big = buf.len() > 64 * 1024;
        let n = if big { per_big } else { per_small };
        for it in 0..n {
            r.item += 1;
            if !ctx.mine(r.item) {
                continue;
            }
            let mut rng = Rng::derive(seed, "c01-mutant", (fi as u64) << 32 | it as u64);
            let focus = if !dir.is_empty() && (big || rng.chance(1, 2)) { Some(dir[rng.usize(dir.len())].tag) } else { None };
            let mut patch = Patcher::new();
            let kinds = gen::mutate_random(&mut buf, &dir, &mut rng, &mut patch, focus.as_ref());
            let m = format!("random#{}:{}", it, patch.describe());
            for k in &kinds {
                ctx.count(&format!("mutation_kind:{}", k), 1);
            }
            // edits may touch the directory or other tables: walk everything on
            // small fonts, the focus table (3 of 4 edits go there) on big ones
            let cfg = if big { WalkCfg::mutant(40_000, focus) } else { WalkCfg::mutant(60_000, None) };
            exec(ctx, r, "inputs:random-mutant", &id, &m, &buf, &Spec::File(cfg), nt(&id, "rm", &m));
            patch.undo(&mut buf);
        }
    }
}

/// G7: splices: a table of font A replaced by a table of font B (same tag or
/// a compatible one), container re-assembled.
fn splices(ctx: &mut Ctx, r: &mut Runner, fonts: &[CorpusFont], seed: u64) {
    let n = ctx.budget(1500, 15_000);
    let small: Vec<&CorpusFont> = fonts.iter().filter(|f| f.data.len() <= 64 * 1024 && f.data.get(0..4) != Some(b"ttcf")).collect();
    if small.len() < 2 {
        return;
    }
    for it in 0..n {
        r.item += 1;
        if !ctx.mine(r.item) {
            continue;
        }
        let mut rng = Rng::derive(seed, "c01-splice", it as u64);
        let a = small[rng.usize(small.len())];
        let b = small[rng.usize(small.len())];
        let ta = gen::split_tables(&a.data);
        let tb = gen::split_tables(&b.data);
        if ta.is_empty() || tb.is_empty() {
            continue;
        }
        let (tag_b, data_b) = &tb[rng.usize(tb.len())];
        // same tag if A has it (2/3), else under the tag of a random A table
        let tag = if rng.chance(2, 3) { *tag_b } else { ta[rng.usize(ta.len())].0 };
        let spliced = gen::with_table(&a.data, &tag, data_b);
        let m = format!("splice#{}:{}<-{}:{}", it, String::from_utf8_lossy(&tag), b.name, String::from_utf8_lossy(tag_b));
        exec(ctx, r, "inputs:splice", &a.id(), &m, &spliced, &Spec::File(WalkCfg::mutant(60_000, None)), fnv64(&spliced));
    }
}

/// G9: mutated single-table payloads read directly with external arguments.
fn payload_mutants(ctx: &mut Ctx, r: &mut Runner, fonts: &[CorpusFont], seed: u64) {
    let per_table = ctx.budget(40, 400);
    for (fi, f) in fonts.iter().enumerate() {
        if f.data.len() > 64 * 1024 {
            continue;
        }
        let id = f.id();
        let bytes: &[u8] = &f.data;
        let real = RealArgs::of(bytes);
        for (ti, rec) in dir_of(bytes).iter().enumerate() {
            let mut payload = bytes[rec.range(bytes.len())].to_vec();
            if payload.is_empty() {
                continue;
            }
            let tag = rec.tag_str();
            let fake_dir = vec![TableRec { tag: rec.tag, checksum: 0, offset: 0, len: payload.len() as u32, rec_pos: usize::MAX / 2 }];
            for it in 0..per_table {
                r.item += 1;
                if !ctx.mine(r.item) {
                    continue;
                }
                let mut rng = Rng::derive(seed, "c01-payload", ((fi as u64) << 40) | ((ti as u64) << 24) | it as u64);
                let mut patch = Patcher::new();
                gen::mutate_random(&mut payload, &fake_dir, &mut rng, &mut patch, Some(&rec.tag));
                let m = format!("payload-mutant:{}#{}:{}", tag, it, patch.describe());
                let cross = it % 8 == 0;
                let spec = Spec::Payload { tag: rec.tag, real, cross, cfg: WalkCfg::mutant(40_000, None) };
                exec(ctx, r, "inputs:payload-mutant", &id, &m, &payload, &spec, nt(&id, "pm", &m));
                patch.undo(&mut payload);
            }
        }
    }
}

/// G10: directed cmap format 4 / 12 / 13 segment / group edits of the corpus
/// cmap tables (swap, backwards, duplicate, overlap, end = max, wide / low
/// alternation) and synthetic subtables built from a vocabulary of boundary
/// ranges; every mutant is read as a table payload and inside a font.
fn cmap_directed(ctx: &mut Ctx, r: &mut Runner, fonts: &[CorpusFont], seed: u64) {
    let per_font = ctx.budget(24, 240);
    let mut base: Option<&CorpusFont> = None;
    for (fi, f) in fonts.iter().enumerate() {
        if f.data.len() > 64 * 1024 {
            continue;
        }
        let mut buf = f.data.to_vec();
        let Some(rec) = dir_of(&buf).into_iter().find(|r| &r.tag == b"cmap") else { continue };
        let range = rec.range(buf.len());
        if cmapgen::subtables(&buf[range.clone()]).is_empty() {
            continue;
        }
        // the smallest font with a cmap (and a maxp for the glyph count) carries the synthetic subtables
        if dir_of(&buf).iter().any(|r| &r.tag == b"maxp") && base.map(|b| b.data.len() > f.data.len()).unwrap_or(true) {
            base = Some(f);
        }
        let id = f.id();
        let real = RealArgs::of(&buf);
        for it in 0..per_font {
            r.item += 1;
            if !ctx.mine(r.item) {
                continue;
            }
            let mut rng = Rng::derive(seed, "c01-cmap-edit", ((fi as u64) << 32) | it as u64);
            let mut patch = Patcher::new();
            let mut kinds = vec![];
            let (head, tail) = buf.split_at_mut(range.start);
            let _ = head;
            let payload = &mut tail[..range.len()];
            let Some(desc) = cmapgen::edit(payload, &mut patch, &mut rng, &mut kinds) else { continue };
            for k in &kinds {
                ctx.count(&format!("cmap_edit_kind:{}", k), 1);
            }
            let m = format!("cmap-edit#{}:{}", it, desc);
            let edited = payload.to_vec();
            patch.undo(payload);
            // in the font (limits from the font's maxp) and as a payload
            let mut patch = Patcher::new();
            patch.set(&mut buf, range.start, &edited);
            exec(ctx, r, "inputs:cmap-directed-file", &id, &m, &buf, &Spec::File(WalkCfg::mutant(40_000, Some(*b"cmap"))), nt(&id, "cdf", &m));
            patch.undo(&mut buf);
            let spec = Spec::Payload { tag: *b"cmap", real, cross: false, cfg: WalkCfg::mutant(40_000, None) };
            exec(ctx, r, "inputs:cmap-directed-payload", &id, &m, &edited, &spec, nt(&id, "cdp", &m));
        }
    }
    // synthetic EBLC/CBLC index subtables of every format (sparse formats 4/5 are in no corpus font)
    if let Some(b) = base {
        let n_bitmap = ctx.budget(400, 4000);
        for it in 0..n_bitmap {
            r.item += 1;
            if !ctx.mine(r.item) {
                continue;
            }
            let mut rng = Rng::derive(seed, "c01-bitmap-synth", it as u64);
            let cblc = it % 2 == 1;
            let (desc, loc, dat) = bitmapgen::synth(&mut rng, cblc);
            let (lt, dt) = if cblc { (b"CBLC", b"CBDT") } else { (b"EBLC", b"EBDT") };
            let font = gen::with_table(&gen::with_table(&b.data, lt, &loc), dt, &dat);
            let m = format!("bitmap-synth#{}:{}", it, desc);
            ctx.count("bitmap_synth_fonts", 1);
            exec(ctx, r, "inputs:bitmap-synth-file", &b.id(), &m, &font, &Spec::File(WalkCfg::mutant(40_000, Some(*lt))), nt(&b.id(), "bsf", &m));
        }
    }
    let n_synth = ctx.budget(600, 6000);
    let real = base.map(|b| RealArgs::of(&b.data)).unwrap_or_default();
    let base_id = base.map(|b| b.id()).unwrap_or_else(|| "synthetic".into());
    // synthetic AAT lookup tables (all six formats; huge segments, boundary value offsets)
    for it in 0..ctx.budget(300, 3000) {
        r.item += 1;
        if !ctx.mine(r.item) {
            continue;
        }
        let mut rng = Rng::derive(seed, "c01-aat-synth", it as u64);
        let (desc, table, _queries) = aatgen::synth(&mut rng);
        ctx.count(&format!("aat_synth:{}", desc.split(':').take(2).collect::<Vec<_>>().join(":")), 1);
        let m = format!("aat-synth#{}:{}", it, desc);
        let spec = Spec::Payload { tag: *b"aat_", real, cross: false, cfg: WalkCfg::mutant(40_000, None) };
        exec(ctx, r, "inputs:aat-synth-payload", &base_id, &m, &table, &spec, nt(&base_id, "asp", &m));
    }
    for it in 0..n_synth {
        r.item += 1;
        if !ctx.mine(r.item) {
            continue;
        }
        let mut rng = Rng::derive(seed, "c01-cmap-synth", it as u64);
        let format = *rng.pick(&[4u16, 4, 12, 12, 13]);
        let (desc, cmap) = cmapgen::synth(&mut rng, format);
        ctx.count(&format!("cmap_synth_format:{}", format), 1);
        let m = format!("cmap-synth#{}:{}", it, desc);
        let spec = Spec::Payload { tag: *b"cmap", real, cross: false, cfg: WalkCfg::mutant(40_000, None) };
        exec(ctx, r, "inputs:cmap-synth-payload", &base_id, &m, &cmap, &spec, nt(&base_id, "csp", &m));
        if let Some(b) = base {
            let font = gen::with_table(&b.data, b"cmap", &cmap);
            exec(ctx, r, "inputs:cmap-synth-file", &base_id, &m, &font, &Spec::File(WalkCfg::mutant(40_000, Some(*b"cmap"))), nt(&base_id, "csf", &m));
        }
    }
}
