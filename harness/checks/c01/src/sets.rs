//! Boundary sets for external arguments (glyph ids, code points, coordinates).

use read_fonts::types::F2Dot14;

/// Glyph ids to probe for a font with `n` glyphs.
pub fn gid_set(n: u32, full: bool) -> Vec<u32> {
    let mut v: Vec<u32> = vec![];
    if full {
        v.extend(0..n.min(70_000));
    } else {
        v.extend(0..n.min(6));
        if n > 6 {
            let stride = (n / 10).max(1);
            let mut g = 6;
            while g < n && v.len() < 18 {
                v.push(g);
                g += stride;
            }
        }
    }
    for d in [n.wrapping_sub(2), n.wrapping_sub(1), n, n.wrapping_add(1)] {
        v.push(d);
    }
    v.extend([0xFFFE, 0xFFFF, 0x10000, 0xFF_FFFF, 0x7FFF_FFFF, u32::MAX - 1, u32::MAX]);
    v.sort_unstable();
    v.dedup();
    v
}

pub const CODEPOINTS: [u32; 24] = [
    0, 0x20, 0x41, 0x7F, 0x80, 0xFF, 0x100, 0x7FFF, 0x8000, 0xD7FF, 0xD800, 0xDFFF, 0xE000, 0xFFFD, 0xFFFE, 0xFFFF,
    0x10000, 0x10FFFF, 0x110000, 0xFFFFFF, 0x1000000, 0x7FFFFFFF, 0x80000000, 0xFFFFFFFF,
];

pub const SELECTORS: [u32; 8] = [0, 0xFE00, 0xFE0F, 0xE0100, 0xE01EF, 0xFFFFFF, 0x1000000, 0xFFFFFFFF];

fn f(bits: i16) -> F2Dot14 {
    F2Dot14::from_bits(bits)
}

/// Coordinate vectors for `axes` axes: different lengths and extreme values.
pub fn coord_sets(axes: u16, full: bool) -> Vec<Vec<F2Dot14>> {
    let n = (axes as usize).min(64);
    let mut v = vec![
        vec![],
        vec![f(0); n],
        vec![f(0x4000); n],
        vec![f(-0x4000); n],
        (0..n).map(|i| if i % 2 == 0 { f(0x2000) } else { f(-0x2000) }).collect(),
        vec![f(i16::MIN); n],
        vec![f(i16::MAX); n + 1],
    ];
    if full {
        v.push(vec![f(1); n]);
        v.push(vec![f(-1); n.saturating_sub(1)]);
        v.push((0..n + 2).map(|i| f((i as i16).wrapping_mul(0x1357))).collect());
        v.push(vec![f(0x3FFF); n]);
        v.push(vec![f(0x4001); n]);
    }
    v
}

/// External-argument values for a 16-bit count: {0, 1, real, real±1, 0xFFFF}.
pub fn arg16(real: u16) -> Vec<u16> {
    let mut v = vec![0, 1, real, real.wrapping_sub(1), real.wrapping_add(1), 0xFFFF];
    v.sort_unstable();
    v.dedup();
    v
}
