fn main() {
    vf_core::main_with("C01", vf_c01::run, vf_c01::REPLAY);
}
