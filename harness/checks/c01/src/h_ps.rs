//! Hand-written helpers: PostScript (CFF / CFF2) index, dict, charset,
//! FDSelect and charstring evaluation with a digesting sink.

use crate::h_core::Env;
use crate::h_var;
use crate::obs::Obs;
use crate::walk::walk_table;
use read_fonts::tables::postscript::{
    charstring::{self, CommandSink},
    dict, BlendState, Charset, FdSelect, Index, Index1, Index2, StringId,
};
use read_fonts::tables::variations::ItemVariationStore;
use read_fonts::traversal::SomeTable;
use read_fonts::types::{F2Dot14, Fixed, GlyphId};
use read_fonts::{FontData, FontRead, TableProvider};

struct Sink<'o> {
    o: &'o mut Obs,
    n: u64,
}

impl CommandSink for Sink<'_> {
    fn move_to(&mut self, x: Fixed, y: Fixed) {
        self.n += 1;
        self.o.d.bytes(&[1]);
        self.o.d.i64(x.to_bits() as i64 ^ ((y.to_bits() as i64) << 32));
    }
    fn line_to(&mut self, x: Fixed, y: Fixed) {
        self.n += 1;
        self.o.d.bytes(&[2]);
        self.o.d.i64(x.to_bits() as i64 ^ ((y.to_bits() as i64) << 32));
    }
    fn curve_to(&mut self, cx0: Fixed, cy0: Fixed, cx1: Fixed, cy1: Fixed, x: Fixed, y: Fixed) {
        self.n += 1;
        self.o.d.bytes(&[3]);
        for v in [cx0, cy0, cx1, cy1, x, y] {
            self.o.d.u32(v.to_bits() as u32);
        }
    }
    fn close(&mut self) {
        self.n += 1;
        self.o.d.bytes(&[4]);
    }
    fn hstem(&mut self, y: Fixed, dy: Fixed) {
        self.o.d.bytes(&[5]);
        self.o.d.i64(y.to_bits() as i64 ^ ((dy.to_bits() as i64) << 32));
    }
    fn vstem(&mut self, x: Fixed, dx: Fixed) {
        self.o.d.bytes(&[6]);
        self.o.d.i64(x.to_bits() as i64 ^ ((dx.to_bits() as i64) << 32));
    }
    fn hint_mask(&mut self, mask: &[u8]) {
        self.o.d.bytes(&[7]);
        self.o.d.bytes(mask);
    }
    fn counter_mask(&mut self, mask: &[u8]) {
        self.o.d.bytes(&[8]);
        self.o.d.bytes(mask);
    }
}

pub fn index(o: &mut Obs, env: &Env, ix: &Index, what: &'static str) {
    o.helper(what);
    let n = ix.count() as usize;
    o.d.u64(n as u64);
    o.d.i64(ix.subr_bias() as i64);
    o.d.bytes(&[ix.off_size()]);
    o.helper("Index::size_in_bytes");
    o.res(&ix.size_in_bytes());
    let dense = n.min(env.cap(70_000, 12));
    for i in (0..dense).chain([n.wrapping_sub(1), n, n.wrapping_add(1), 0xFFFF, 0x10000, usize::MAX - 1, usize::MAX]) {
        o.helper("Index::get_offset");
        match ix.get_offset(i) {
            Ok(v) => o.d.u64(v as u64),
            Err(e) => o.ps_err(&e),
        }
        o.helper("Index::get");
        match ix.get(i) {
            Ok(b) => {
                o.d.u64(b.len() as u64);
                o.d.bytes(&b[..b.len().min(16)]);
            }
            Err(e) => o.ps_err(&e),
        }
    }
}

fn dict_helpers<'a>(o: &mut Obs, data: &'a [u8], blend: Option<BlendState<'a>>) {
    // (every token, and so every entry, consumes at least one byte of the dict)
    let len = data.len() as u64;
    let mut failed = false;
    let until_error = dict::tokens(data).take_while(move |r| {
        let go = !failed;
        failed |= r.is_err();
        go
    });
    o.drain("dict::tokens", "dict_bytes", len, 70_000, until_error, |o, t| match t {
        Ok(t) => o.d.dbg(&t),
        Err(e) => o.ps_err(&e),
    });
    let mut errs = 0;
    let until_errors = dict::entries(data, blend).take_while(move |r| {
        let go = errs <= 8;
        errs += r.is_err() as u32;
        go
    });
    o.drain("dict::entries", "dict_bytes", len, 70_000, until_errors, |o, e| match e {
        Ok(e) => o.d.dbg(&e),
        Err(e) => o.ps_err(&e),
    });
}

#[derive(Default)]
struct TopDict<'a> {
    charstrings: Option<Index<'a>>,
    font_dicts: Option<Index<'a>>,
    fd_select: Option<FdSelect<'a>>,
    private_range: Option<std::ops::Range<usize>>,
    var_store: Option<ItemVariationStore<'a>>,
}

fn top_dict<'a>(o: &mut Obs, table: &'a [u8], dict_data: &'a [u8], is_cff2: bool) -> TopDict<'a> {
    let mut td = TopDict::default();
    for e in dict::entries(dict_data, None).take(4096) {
        let Ok(e) = e else { continue };
        match e {
            dict::Entry::CharstringsOffset(off) => match Index::new(table.get(off..).unwrap_or_default(), is_cff2) {
                Ok(i) => td.charstrings = Some(i),
                Err(e) => o.ps_err(&e),
            },
            dict::Entry::FdArrayOffset(off) => match Index::new(table.get(off..).unwrap_or_default(), is_cff2) {
                Ok(i) => td.font_dicts = Some(i),
                Err(e) => o.ps_err(&e),
            },
            dict::Entry::FdSelectOffset(off) => match FdSelect::read(FontData::new(table.get(off..).unwrap_or_default())) {
                Ok(f) => td.fd_select = Some(f),
                Err(e) => o.err(&e),
            },
            dict::Entry::PrivateDictRange(r) => td.private_range = Some(r),
            dict::Entry::VariationStoreOffset(off) if is_cff2 => {
                if let Some(off) = off.checked_add(2) {
                    match ItemVariationStore::read(FontData::new(table.get(off..).unwrap_or_default())) {
                        Ok(s) => td.var_store = Some(s),
                        Err(e) => o.err(&e),
                    }
                }
            }
            _ => {}
        }
    }
    td
}

struct Private<'a> {
    subrs: Option<Index<'a>>,
    vsindex: u16,
}

fn private_dict<'a>(
    o: &mut Obs,
    table: &'a [u8],
    range: &std::ops::Range<usize>,
    is_cff2: bool,
    store: &Option<ItemVariationStore<'a>>,
    coords: &'a [F2Dot14],
) -> Private<'a> {
    let data = table.get(range.clone()).unwrap_or_default();
    let blend = store.clone().and_then(|s| BlendState::new(s, coords, 0).ok());
    dict_helpers(o, data, blend);
    let mut p = Private { subrs: None, vsindex: 0 };
    let blend = store.clone().and_then(|s| BlendState::new(s, coords, 0).ok());
    for e in dict::entries(data, blend).take(4096) {
        match e {
            Ok(dict::Entry::SubrsOffset(off)) => {
                if let Some(abs) = range.start.checked_add(off) {
                    match Index::new(table.get(abs..).unwrap_or_default(), is_cff2) {
                        Ok(i) => p.subrs = Some(i),
                        Err(e) => o.ps_err(&e),
                    }
                }
            }
            Ok(dict::Entry::VariationStoreIndex(i)) => p.vsindex = i,
            _ => {}
        }
    }
    p
}

fn charstrings<'a>(
    o: &mut Obs,
    env: &Env,
    table: &'a [u8],
    td: &TopDict<'a>,
    global: Index<'a>,
    is_cff2: bool,
    coord_sets: &'a [Vec<F2Dot14>],
) {
    let Some(cs) = &td.charstrings else { return };
    index(o, env, cs, "Index(charstrings)");
    if let Some(fd) = &td.font_dicts {
        index(o, env, fd, "Index(fdarray)");
    }
    if let Some(fds) = &td.fd_select {
        walk_table(o, fds as &dyn SomeTable, 3);
        for &g in &env.gids {
            o.helper("FdSelect::font_index");
            o.opt(&fds.font_index(GlyphId::new(g)));
        }
    }
    if let Some(s) = &td.var_store {
        h_var::ivs(o, env, s, coord_sets);
        for c in coord_sets.iter().take(env.cap(8, 3)) {
            for vs in [0u16, 1, s.item_variation_data_count(), 0xFFFF] {
                o.helper("BlendState::new");
                match BlendState::new(s.clone(), c, vs) {
                    Ok(mut b) => {
                        o.d.dbg(&b.region_count().ok());
                        let regions = b.region_count().unwrap_or(0) as u64;
                        if let Ok(it) = b.scalars() {
                            o.drain("BlendState::scalars", "region_count", regions, 4096, it, |o, v| match v {
                                Ok(v) => o.d.i64(v.to_bits() as i64),
                                Err(e) => o.ps_err(&e),
                            });
                        }
                        o.helper("BlendState::set_store_index");
                        if let Err(e) = b.set_store_index(1) {
                            o.ps_err(&e);
                        }
                    }
                    Err(e) => o.ps_err(&e),
                }
            }
        }
    }
    // private dicts: from the top dict or from each font dict
    let coords0: &'a [F2Dot14] = coord_sets.get(2).map(|v| v.as_slice()).unwrap_or(&[]);
    let mut privates: Vec<Private<'a>> = vec![];
    match &td.font_dicts {
        Some(fd) if fd.count() != 0 => {
            for i in 0..(fd.count() as usize).min(env.cap(256, 4)) {
                let Ok(fdd) = fd.get(i) else { continue };
                dict_helpers(o, fdd, None);
                let mut range = None;
                for e in dict::entries(fdd, None).take(4096).flatten() {
                    if let dict::Entry::PrivateDictRange(r) = e {
                        range = Some(r);
                    }
                }
                if let Some(r) = range {
                    privates.push(private_dict(o, table, &r, is_cff2, &td.var_store, coords0));
                }
            }
        }
        _ => {
            if let Some(r) = &td.private_range {
                privates.push(private_dict(o, table, r, is_cff2, &td.var_store, coords0));
            }
        }
    }
    for p in &privates {
        if let Some(s) = &p.subrs {
            index(o, env, s, "Index(subrs)");
        }
    }
    // evaluate charstrings
    let n = cs.count();
    let gids: Vec<u32> = env.gids.iter().copied().filter(|g| *g <= n.saturating_add(1) || *g >= 0xFFFF).collect();
    let mut evaluated = 0;
    for g in gids {
        let Ok(data) = cs.get(g as usize) else { continue };
        evaluated += 1;
        if evaluated > env.cap(70_000, 16) {
            break;
        }
        let fd_ix = td.fd_select.as_ref().and_then(|f| f.font_index(GlyphId::new(g))).unwrap_or(0) as usize;
        let private = privates.get(fd_ix).or(privates.first());
        let ncoord = if td.var_store.is_some() { env.cap(6, 2) } else { 1 };
        for c in coord_sets.iter().skip(1).take(ncoord) {
            let blend = match (&td.var_store, private) {
                (Some(s), p) => BlendState::new(s.clone(), c, p.map(|p| p.vsindex).unwrap_or(0)).ok(),
                _ => None,
            };
            let subrs = private.and_then(|p| p.subrs.clone());
            o.helper("charstring::evaluate");
            let mut sink = Sink { o: &mut *o, n: 0 };
            let r = charstring::evaluate(data, global.clone(), subrs, blend, &mut sink);
            let cmds = sink.n;
            o.d.u64(cmds);
            if let Err(e) = r {
                o.ps_err(&e);
            }
        }
        // without subrs / blend state: error paths
        if evaluated <= 4 {
            let mut sink = Sink { o: &mut *o, n: 0 };
            let r = charstring::evaluate(data, Index::default(), None, None, &mut sink);
            if let Err(e) = r {
                o.ps_err(&e);
            }
        }
    }
}

pub fn cff(o: &mut Obs, env: &Env) {
    let Ok(cff) = env.font.cff() else { return };
    let table = cff.offset_data().as_bytes();
    walk_table(o, &cff.header() as &dyn SomeTable, 2);
    for (ix, what) in [
        (cff.names(), "Index(names)"),
        (cff.top_dicts(), "Index(top_dicts)"),
        (cff.strings(), "Index(strings)"),
        (cff.global_subrs(), "Index(global_subrs)"),
    ] {
        walk_table(o, &ix as &dyn SomeTable, 2);
        index(o, env, &Index::from(ix), what);
    }
    for i in [0usize, 1, cff.names().count() as usize, usize::MAX] {
        o.helper("Cff::name");
        match cff.name(i) {
            Some(s) => {
                o.d.str(&s.to_string());
                o.d.u64(s.chars().count() as u64);
                o.d.u64(s.bytes().len() as u64);
            }
            None => o.d.bytes(&[0]),
        }
    }
    for sid in [0u16, 1, 389, 390, 391, 392, 0x7FFF, 0xFFFF] {
        o.helper("Cff::string");
        match cff.string(StringId::new(sid)) {
            Some(s) => o.d.str(&s.to_string()),
            None => o.d.bytes(&[0]),
        }
        o.d.dbg(&StringId::new(sid).standard_string().map(|s| s.to_string()));
    }
    let ntop = cff.top_dicts().count() as usize;
    for i in (0..ntop.min(env.cap(16, 2))).chain([ntop, usize::MAX]) {
        o.helper("Cff::charset");
        match cff.charset(i) {
            Ok(Some(cs)) => charset(o, env, &cs),
            Ok(None) => o.d.bytes(&[0]),
            Err(e) => o.ps_err(&e),
        }
        let Ok(td_data) = cff.top_dicts().get(i) else { continue };
        dict_helpers(o, td_data, None);
        let td = top_dict(o, table, td_data, false);
        let empty: Vec<Vec<F2Dot14>> = vec![vec![], vec![]];
        charstrings(o, env, table, &td, cff.global_subrs().into(), false, &empty);
    }
}

fn charset(o: &mut Obs, env: &Env, cs: &Charset) {
    o.helper("Charset::num_glyphs");
    o.d.u32(cs.num_glyphs());
    let n = cs.num_glyphs();
    let mut gids = env.gids.clone();
    gids.extend([n.wrapping_sub(1), n, n.wrapping_add(1), 228, 229]);
    for g in gids {
        o.helper("Charset::string_id");
        match cs.string_id(GlyphId::new(g)) {
            Ok(s) => o.d.u32(s.to_u16() as u32),
            Err(e) => o.err(&e),
        }
    }
    o.drain("Charset::iter", "num_glyphs", n as u64, env.cap(70_000, 2_000), cs.iter(), |o, (g, s)| {
        o.d.u32(g.to_u32());
        o.d.u32(s.to_u16() as u32);
    });
}

pub fn cff2(o: &mut Obs, env: &Env) {
    let Ok(cff2) = env.font.cff2() else { return };
    let table = cff2.offset_data().as_bytes();
    walk_table(o, cff2.header() as &dyn SomeTable, 2);
    walk_table(o, &cff2.global_subrs() as &dyn SomeTable, 2);
    index(o, env, &Index::from(cff2.global_subrs()), "Index2(global_subrs)");
    let td_data = cff2.top_dict_data();
    dict_helpers(o, td_data, None);
    let td = top_dict(o, table, td_data, true);
    charstrings(o, env, table, &td, cff2.global_subrs().into(), true, &env.coords);
}

/// Direct reads of postscript structures on arbitrary bytes.
pub fn raw_postscript(o: &mut Obs, env: &Env, data: &[u8]) {
    for cff2 in [false, true] {
        o.helper("Index::new");
        match Index::new(data, cff2) {
            Ok(ix) => {
                o.tables_ok += 1;
                index(o, env, &ix, "Index(raw)");
            }
            Err(e) => o.ps_err(&e),
        }
    }
    if let Ok(i) = Index1::read(FontData::new(data)) {
        walk_table(o, &i as &dyn SomeTable, 2);
    }
    if let Ok(i) = Index2::read(FontData::new(data)) {
        walk_table(o, &i as &dyn SomeTable, 2);
    }
    dict_helpers(o, &data[..data.len().min(4096)], None);
    let mut sink = Sink { o: &mut *o, n: 0 };
    let r = charstring::evaluate(&data[..data.len().min(65_535)], Index::default(), None, None, &mut sink);
    if let Err(e) = r {
        o.ps_err(&e);
    }
    for off in [0usize, 1, 2, 3, data.len().saturating_sub(1), data.len(), usize::MAX] {
        for n in [0u32, 1, 300, 0xFFFF, u32::MAX] {
            o.helper("Charset::new");
            match Charset::new(FontData::new(data), off, n) {
                Ok(cs) => {
                    if n <= 0xFFFF {
                        charset(o, env, &cs)
                    } else {
                        // (num_glyphs = 2^32-1: not drainable, consumed through take)
                        o.drain("Charset::iter", "num_glyphs", n as u64, 2000, cs.iter(), |_, _| {});
                        o.d.dbg(&cs.string_id(GlyphId::new(n - 1)).map(|s| s.to_u16()));
                    }
                }
                Err(e) => o.err(&e),
            }
        }
    }
    if let Ok(f) = FdSelect::read(FontData::new(data)) {
        for &g in &env.gids {
            o.opt(&f.font_index(GlyphId::new(g)));
        }
    }
}
