//! Synthetic AAT lookup tables (formats 0, 2, 4, 6, 8, 10) with boundary
//! parameters. No corpus font carries the segment-array format 4, and random
//! payloads almost never start with a valid lookup header, so the hand-written
//! `Lookup::value` helpers would otherwise only see formats the corpus has.
//! Families: many small segments; one segment over tens of thousands of glyphs
//! whose value array runs past byte 65 535 of the table (16-bit value offsets
//! plus an index that no longer fits 16 bits once scaled); value offsets at
//! and beyond the end; descending / overlapping segments.

use vf_core::Rng;

fn be16(v: &mut Vec<u8>, x: u16) {
    v.extend_from_slice(&x.to_be_bytes());
}

fn bin_header(v: &mut Vec<u8>, unit: u16, n: u16) {
    be16(v, unit);
    be16(v, n);
    let p = if n == 0 { 0 } else { 15 - n.leading_zeros() as u16 };
    let sr = unit.wrapping_mul(1u16.checked_shl(p as u32).unwrap_or(0));
    be16(v, sr);
    be16(v, p);
    be16(v, unit.wrapping_mul(n).wrapping_sub(sr));
}

fn value(v: &mut Vec<u8>, size: usize, x: u32) {
    if size == 2 {
        be16(v, x as u16)
    } else {
        v.extend_from_slice(&x.to_be_bytes())
    }
}

/// Returns (description, table bytes, glyph ids worth querying).
pub fn synth(rng: &mut Rng) -> (String, Vec<u8>, Vec<u16>) {
    let size = if rng.bool() { 2usize } else { 4 };
    let format = *rng.pick(&[0u16, 2, 4, 4, 4, 6, 8, 10]);
    let mut v = vec![];
    let mut q: Vec<u16> = vec![];
    be16(&mut v, format);
    let shape;
    match format {
        0 => {
            let n = *rng.pick(&[0usize, 1, 7, 256, 40000]);
            shape = format!("n{}", n);
            for i in 0..n {
                value(&mut v, size, i as u32 * 3 + 1);
            }
            q.extend([0, n.saturating_sub(1) as u16, n as u16]);
        }
        2 | 4 => {
            // segments (last, first): small ones, or one/two huge ones
            let huge = rng.chance(1, 2);
            let mut segs: Vec<(u16, u16)> = vec![];
            if huge {
                let first = *rng.pick(&[0u16, 1, 100, 20000]);
                let last = first.saturating_add(*rng.pick(&[32766u16, 32767, 32768, 40000, 45000, 65535]));
                segs.push((last.min(0xFFFE), first));
                if rng.bool() && last < 0xFF00 {
                    segs.push((0xFFFE, last + 1));
                }
            } else {
                let n = rng.range(0, 12) as usize;
                let mut g = rng.range(0, 50) as u16;
                for _ in 0..n {
                    let len = rng.range(0, 40) as u16;
                    segs.push((g + len, g));
                    g = g + len + rng.range(1, 30) as u16;
                }
                if rng.chance(1, 6) && segs.len() >= 2 {
                    segs.swap(0, 1); // not ascending
                }
            }
            let with_term = rng.bool();
            let n_units = segs.len() + with_term as usize;
            let unit = if format == 2 { 4 + size } else { 6 } as u16;
            bin_header(&mut v, unit, n_units as u16);
            let data_start = 12 + unit as usize * n_units;
            shape = format!("{}segs:{}{}", segs.len(), if huge { "huge" } else { "small" }, if with_term { "+term" } else { "" });
            let mut tail: Vec<u8> = vec![];
            for (k, (last, first)) in segs.iter().enumerate() {
                be16(&mut v, *last);
                be16(&mut v, *first);
                if format == 2 {
                    value(&mut v, size, 0x1000 + k as u32);
                } else {
                    // value offset: where this segment's array starts, or a boundary value
                    let off = match rng.below(8) {
                        0 => 0xFFFF,
                        1 => 0xFFFE,
                        2 => 0,
                        3 => (data_start + tail.len()).saturating_sub(1),
                        _ => data_start + tail.len(),
                    };
                    be16(&mut v, off.min(0xFFFF) as u16);
                    let n = (*last as usize).saturating_sub(*first as usize) + 1;
                    let n = if rng.chance(1, 5) { n / 2 } else { n };
                    for i in 0..n {
                        value(&mut tail, size, (i as u32).wrapping_mul(7).wrapping_add(k as u32));
                    }
                }
                let mid = *first as u32 + (*last as u32 - (*first).min(*last) as u32) / 2;
                q.extend([*first, *last, mid as u16, first.wrapping_sub(1), last.wrapping_add(1)]);
                // indices whose scaled offset crosses 32 Ki / 64 Ki
                for d in [16383u32, 16384, 32758, 32759, 32767, 32768, 32769] {
                    let g = *first as u32 + d;
                    if g <= *last as u32 {
                        q.push(g as u16);
                    }
                }
            }
            if with_term {
                be16(&mut v, 0xFFFF);
                be16(&mut v, 0xFFFF);
                if format == 2 {
                    value(&mut v, size, 0);
                } else {
                    be16(&mut v, 0);
                }
            }
            v.extend_from_slice(&tail);
        }
        6 => {
            let n = rng.range(0, 20) as usize;
            bin_header(&mut v, (2 + size) as u16, n as u16);
            shape = format!("{}singles", n);
            let mut g = rng.range(0, 10) as u16;
            for k in 0..n {
                be16(&mut v, g);
                value(&mut v, size, k as u32 + 9);
                q.extend([g, g.wrapping_add(1)]);
                g = g.wrapping_add(rng.range(1, 5000) as u16);
            }
        }
        8 | 10 => {
            let first = *rng.pick(&[0u16, 1, 300, 0x7FFF, 0xFFF0]);
            let n = *rng.pick(&[0usize, 1, 20, 33000, 65535]);
            let written = if rng.chance(1, 4) { n / 2 } else { n };
            shape = format!("first{}:n{}:written{}", first, n, written);
            if format == 10 {
                be16(&mut v, *rng.pick(&[1u16, 2, 4, 8, 3, 0]));
            }
            be16(&mut v, first);
            be16(&mut v, n as u16);
            for i in 0..written {
                value(&mut v, size, i as u32 + 5);
            }
            q.extend([first, first.wrapping_add(n as u16).wrapping_sub(1), first.wrapping_add(n as u16), first.wrapping_sub(1), first.wrapping_add(32768)]);
        }
        _ => unreachable!(),
    }
    q.sort_unstable();
    q.dedup();
    (format!("aat-lookup:f{}:v{}:{}", format, size, shape), v, q)
}

