//! Walk of one input used as a whole file: open as file / collection / font,
//! then every `TableProvider` accessor (generic walker) and every helper.

use crate::h_core::{self, Env};
use crate::obs::{Obs, WalkCfg};
use crate::walk::walk_table;
use crate::{h_layout, h_misc, h_ps, h_var};
use read_fonts::traversal::SomeTable;
use read_fonts::types::Tag;
use read_fonts::{CollectionRef, FileRef, FontRef, ReadError, TableProvider};

fn root<'a, T: SomeTable<'a> + 'a>(o: &mut Obs, what: &str, r: Result<T, ReadError>) {
    o.d.str(what);
    match r {
        Ok(t) => {
            o.tables_ok += 1;
            o.guarded(what, |o| walk_table(o, &t as &dyn SomeTable<'a>, 0));
        }
        Err(e) => o.err(&e),
    }
}

/// The complete observation of `bytes` used as a font file.
pub fn walk_file(bytes: &[u8], cfg: &WalkCfg) -> Obs {
    let mut o = Obs::for_cfg(cfg);
    // FileRef / CollectionRef
    o.guarded("FileRef", |o| match FileRef::new(bytes) {
        Ok(f) => {
            o.helper("FileRef::fonts");
            let mut n = 0u32;
            for font in f.fonts().take(64) {
                match font {
                    Ok(font) => {
                        o.d.u64(font.table_directory.num_tables() as u64);
                    }
                    Err(e) => o.err(&e),
                }
                n += 1;
            }
            o.d.u32(n);
        }
        Err(e) => o.err(&e),
    });
    let mut ttc_fonts = 0u32;
    o.guarded("CollectionRef", |o| match CollectionRef::new(bytes) {
        Ok(c) => {
            o.helper("CollectionRef::len");
            let n = c.len();
            o.d.u32(n);
            o.d.bytes(&[c.is_empty() as u8]);
            ttc_fonts = n.min(8);
            for i in [0u32, 1, n.wrapping_sub(1), n, n.wrapping_add(1), 0xFFFF, u32::MAX] {
                o.helper("CollectionRef::get");
                match c.get(i) {
                    Ok(f) => o.d.u64(f.table_directory.num_tables() as u64),
                    Err(e) => o.err(&e),
                }
            }
            o.helper("CollectionRef::iter");
            o.d.u64(c.iter().take(64).filter(|f| f.is_ok()).count() as u64);
        }
        Err(e) => o.err(&e),
    });
    for i in [1u32, u32::MAX] {
        o.guarded("FontRef::from_index", |o| {
            o.helper("FontRef::from_index");
            match FontRef::from_index(bytes, i) {
                Ok(f) => o.d.u64(f.table_directory.num_tables() as u64),
                Err(e) => o.err(&e),
            }
        });
    }
    if ttc_fonts > 0 {
        for i in 0..ttc_fonts {
            let mut font = None;
            o.guarded("FontRef::from_index", |o| match FontRef::from_index(bytes, i) {
                Ok(f) => font = Some(f),
                Err(e) => o.err(&e),
            });
            if let Some(f) = font {
                walk_font(&mut o, &f, cfg);
            }
        }
    } else {
        let mut font = None;
        o.guarded("FontRef::new", |o| match FontRef::new(bytes) {
            Ok(f) => font = Some(f),
            Err(e) => o.err(&e),
        });
        if let Some(f) = font {
            walk_font(&mut o, &f, cfg);
        }
    }
    o
}

pub fn walk_font<'a>(o: &mut Obs, font: &FontRef<'a>, cfg: &WalkCfg) {
    let focus = cfg.focus;
    let want = move |tags: &[&[u8; 4]]| -> bool {
        match focus {
            None => true,
            Some(f) => tags.iter().any(|t| **t == f),
        }
    };
    // directory
    if focus.is_none() {
        o.guarded("TableDirectory", |o| {
            walk_table(o, &font.table_directory as &dyn SomeTable, 0);
            for r in font.table_directory.table_records().iter().take(64) {
                o.helper("FontRef::table_data");
                o.d.dbg(&font.table_data(r.tag()).map(|d| d.len()));
            }
            for t in [Tag::new(b"\0\0\0\0"), Tag::new(&[0xff; 4]), Tag::new(b"zzzz")] {
                o.d.dbg(&font.table_data(t).map(|d| d.len()));
                o.d.dbg(&font.data_for_tag(t).map(|d| d.len()));
                o.d.dbg(&font.expect_data_for_tag(t).map(|d| d.len()));
            }
        });
    }
    macro_rules! roots {
        ($( $name:literal [$($dep:literal),*] => $e:expr ;)*) => {
            $( if want(&[$($dep),*]) { root(o, $name, $e); } )*
        };
    }
    roots! {
        "head" [b"head"] => font.head();
        "name" [b"name"] => font.name();
        "hhea" [b"hhea"] => font.hhea();
        "vhea" [b"vhea"] => font.vhea();
        "hmtx" [b"hmtx", b"hhea", b"maxp"] => font.hmtx();
        "hdmx" [b"hdmx", b"maxp"] => font.hdmx();
        "vmtx" [b"vmtx", b"vhea", b"maxp"] => font.vmtx();
        "VORG" [b"VORG"] => font.vorg();
        "fvar" [b"fvar"] => font.fvar();
        "avar" [b"avar"] => font.avar();
        "HVAR" [b"HVAR"] => font.hvar();
        "VVAR" [b"VVAR"] => font.vvar();
        "MVAR" [b"MVAR"] => font.mvar();
        "maxp" [b"maxp"] => font.maxp();
        "OS/2" [b"OS/2"] => font.os2();
        "post" [b"post"] => font.post();
        "gasp" [b"gasp"] => font.gasp();
        "loca" [b"loca", b"head"] => font.loca(None);
        "loca(short)" [b"loca"] => font.loca(false);
        "loca(long)" [b"loca"] => font.loca(true);
        "glyf" [b"glyf"] => font.glyf();
        "gvar" [b"gvar"] => font.gvar();
        "cvar" [b"cvar"] => font.cvar();
        "cmap" [b"cmap"] => font.cmap();
        "GDEF" [b"GDEF"] => font.gdef();
        "GPOS" [b"GPOS"] => font.gpos();
        "GSUB" [b"GSUB"] => font.gsub();
        "feat" [b"feat"] => font.feat();
        "ltag" [b"ltag"] => font.ltag();
        "ankr" [b"ankr"] => font.ankr();
        "COLR" [b"COLR"] => font.colr();
        "CPAL" [b"CPAL"] => font.cpal();
        "CBLC" [b"CBLC"] => font.cblc();
        "CBDT" [b"CBDT"] => font.cbdt();
        "EBLC" [b"EBLC"] => font.eblc();
        "EBDT" [b"EBDT"] => font.ebdt();
        "sbix" [b"sbix", b"maxp"] => font.sbix();
        "STAT" [b"STAT"] => font.stat();
        "SVG " [b"SVG "] => font.svg();
        "VARC" [b"VARC"] => font.varc();
        "IFT " [b"IFT "] => font.ift();
        "IFTX" [b"IFTX"] => font.iftx();
        "meta" [b"meta"] => font.meta();
        "BASE" [b"BASE"] => font.base();
    }
    // Cff / Cff2 are not traversal tables themselves; their parts are walked by the helpers.
    for (name, ok) in [("CFF ", want(&[b"CFF "]) && font.cff().is_ok()), ("CFF2", want(&[b"CFF2"]) && font.cff2().is_ok())] {
        if ok {
            o.d.str(name);
            o.tables_ok += 1;
        }
    }

    // ---- hand-written helpers
    let mut env_slot = None;
    o.guarded("Env", |_| env_slot = Some(Env::new(font, cfg.is_full())));
    let Some(env) = env_slot else { return };
    let env = &env;
    if want(&[b"cmap"]) {
        if let Ok(t) = font.cmap() {
            o.guarded("helpers:cmap", |o| h_core::cmap(o, env, &t));
        }
    }
    if want(&[b"loca", b"glyf", b"head", b"maxp"]) {
        if let Ok(glyf) = font.glyf() {
            for (what, loca) in [("helpers:loca+glyf", font.loca(None)), ("helpers:loca(!fmt)+glyf", font.head().and_then(|h| font.loca(h.index_to_loc_format() != 1)))] {
                if let Ok(loca) = loca {
                    o.guarded(what, |o| h_core::loca_glyf(o, env, &loca, &glyf));
                }
                if !env.full {
                    break;
                }
            }
        }
    }
    o.guarded("helpers:metrics", |o| h_core::metrics(o, env, &want));
    if want(&[b"gvar", b"glyf", b"loca", b"fvar"]) {
        if let Ok(gvar) = font.gvar() {
            let glyf = font.glyf().ok();
            let loca = font.loca(None).ok();
            let pair = glyf.as_ref().zip(loca.as_ref());
            o.guarded("helpers:gvar", |o| h_var::gvar(o, env, &gvar, pair));
        }
    }
    if want(&[b"cvar", b"fvar", b"cvt "]) {
        o.guarded("helpers:cvar", |o| h_var::cvar(o, env));
    }
    o.guarded("helpers:metrics_var", |o| h_var::metrics_var(o, env, &want));
    if want(&[b"GSUB"]) {
        o.guarded("helpers:gsub", |o| h_layout::gsub(o, env));
    }
    if want(&[b"GPOS"]) {
        o.guarded("helpers:gpos", |o| h_layout::gpos(o, env));
    }
    if want(&[b"GDEF"]) {
        o.guarded("helpers:gdef", |o| h_layout::gdef(o, env));
    }
    if want(&[b"BASE"]) {
        o.guarded("helpers:base", |o| h_layout::base(o, env));
    }
    if want(&[b"CFF "]) {
        o.guarded("helpers:cff", |o| h_ps::cff(o, env));
    }
    if want(&[b"CFF2", b"fvar"]) {
        o.guarded("helpers:cff2", |o| h_ps::cff2(o, env));
    }
    o.guarded("helpers:bitmaps", |o| h_misc::bitmaps(o, env, &want));
    if want(&[b"COLR"]) {
        if let Ok(t) = font.colr() {
            o.guarded("helpers:colr", |o| h_misc::colr(o, env, &t));
        }
    }
    if want(&[b"VARC"]) {
        o.guarded("helpers:varc", |o| h_misc::varc(o, env));
    }
    for (tag, t) in [(b"IFT ", font.ift()), (b"IFTX", font.iftx())] {
        if want(&[tag]) {
            if let Ok(t) = t {
                o.guarded("helpers:ift", |o| h_misc::ift(o, env, &t));
            }
        }
    }
}
