//! Directed generators for cmap format 4 / 12 / 13 subtables: segment / group
//! edits of real tables (swap two, make one backwards, duplicate, overlap,
//! endCode 0xFFFF placements, wide/low alternation) and synthetic subtables
//! assembled from a vocabulary of boundary ranges. They aim at the iterators'
//! clamping logic (work proportional to the input on overlapping / unordered
//! segments). Independent of read-fonts: works on raw bytes.

use vf_core::gen::{be16, be32, Patcher};
use vf_core::Rng;

/// One format 4 / 12 / 13 subtable found in a cmap payload.
#[derive(Clone, Copy, Debug)]
pub struct Sub {
    /// offset of the subtable in the cmap payload
    pub off: usize,
    pub format: u16,
    /// number of segments (format 4) / groups (format 12, 13) that fit in the payload
    pub n: usize,
}

/// Locate the format 4 / 12 / 13 subtables of a cmap table.
pub fn subtables(cmap: &[u8]) -> Vec<Sub> {
    let mut out: Vec<Sub> = vec![];
    let n = be16(cmap, 2).unwrap_or(0) as usize;
    for i in 0..n.min(64) {
        let Some(off) = be32(cmap, 4 + 8 * i + 4) else { break };
        let off = off as usize;
        if out.iter().any(|s| s.off == off) {
            continue;
        }
        let Some(format) = be16(cmap, off) else { continue };
        match format {
            4 => {
                let segs = be16(cmap, off + 6).unwrap_or(0) as usize / 2;
                // four parallel arrays + reservedPad
                let fit = cmap.len().saturating_sub(off + 16) / 8;
                let segs = segs.min(fit);
                if segs > 0 {
                    out.push(Sub { off, format, n: segs });
                }
            }
            12 | 13 => {
                let groups = be32(cmap, off + 12).unwrap_or(0) as usize;
                let fit = cmap.len().saturating_sub(off + 16) / 12;
                let groups = groups.min(fit);
                if groups > 0 {
                    out.push(Sub { off, format, n: groups });
                }
            }
            _ => {}
        }
    }
    out
}

/// A segment / group as (start, end, delta-or-glyph, idRangeOffset).
type Seg = (u32, u32, u32, u32);

fn get(cmap: &[u8], s: &Sub, i: usize) -> Seg {
    if s.format == 4 {
        let b = s.off + 14;
        let n = s.n_declared(cmap);
        (
            be16(cmap, b + 2 + 2 * n + 2 * i).unwrap_or(0) as u32,
            be16(cmap, b + 2 * i).unwrap_or(0) as u32,
            be16(cmap, b + 2 + 4 * n + 2 * i).unwrap_or(0) as u32,
            be16(cmap, b + 2 + 6 * n + 2 * i).unwrap_or(0) as u32,
        )
    } else {
        let b = s.off + 16 + 12 * i;
        (be32(cmap, b).unwrap_or(0), be32(cmap, b + 4).unwrap_or(0), be32(cmap, b + 8).unwrap_or(0), 0)
    }
}

fn set(cmap: &mut [u8], p: &mut Patcher, s: &Sub, i: usize, v: Seg) {
    if s.format == 4 {
        let b = s.off + 14;
        let n = s.n_declared(cmap);
        p.set16(cmap, b + 2 * i, v.1 as u16);
        p.set16(cmap, b + 2 + 2 * n + 2 * i, v.0 as u16);
        p.set16(cmap, b + 2 + 4 * n + 2 * i, v.2 as u16);
        p.set16(cmap, b + 2 + 6 * n + 2 * i, v.3 as u16);
    } else {
        let b = s.off + 16 + 12 * i;
        p.set32(cmap, b, v.0);
        p.set32(cmap, b + 4, v.1);
        p.set32(cmap, b + 8, v.2);
    }
}

impl Sub {
    /// declared segment count (positions of the parallel arrays depend on it)
    fn n_declared(&self, cmap: &[u8]) -> usize {
        be16(cmap, self.off + 6).unwrap_or(0) as usize / 2
    }
    fn max_code(&self) -> u32 {
        if self.format == 4 {
            0xFFFF
        } else {
            0x10FFFF
        }
    }
}

pub const EDIT_KINDS: [&str; 9] = ["swap", "backwards", "duplicate", "overlap", "end-max", "low", "wide", "alternate-wide-low", "alternate-wide-backwards"];

/// Apply 1..=3 directed segment / group edits to one subtable of `cmap`
/// (in place, recorded in `p`). Returns a description, or None when the table
/// has no format 4 / 12 / 13 subtable.
pub fn edit(cmap: &mut [u8], p: &mut Patcher, rng: &mut Rng, kinds: &mut Vec<&'static str>) -> Option<String> {
    let subs = subtables(cmap);
    if subs.is_empty() {
        return None;
    }
    let s = subs[rng.usize(subs.len())];
    let mut desc = format!("cmap{}@{}[{}]:", s.format, s.off, s.n);
    let max = s.max_code();
    let wide_end = if s.format == 4 { 0xFFFE } else { *rng.pick(&[0xFFFEu32, 0xFFFF, 0x10FFFF, 0xFFFF_FFFE]) };
    for _ in 0..1 + rng.usize(3) {
        let i = rng.usize(s.n);
        let j = rng.usize(s.n);
        let kind = *rng.pick(&EDIT_KINDS);
        kinds.push(kind);
        let (a, b) = (get(cmap, &s, i), get(cmap, &s, j));
        match kind {
            "swap" => {
                set(cmap, p, &s, i, b);
                set(cmap, p, &s, j, a);
                desc.push_str(&format!("swap({},{});", i, j));
            }
            "backwards" => {
                let (lo, hi) = (a.0.min(a.1), a.0.max(a.1));
                let start = if hi == lo { hi.wrapping_add(1 + rng.usize(8) as u32) & max } else { hi };
                set(cmap, p, &s, i, (start, lo, a.2, a.3));
                desc.push_str(&format!("backwards({});", i));
            }
            "duplicate" => {
                set(cmap, p, &s, j, a);
                desc.push_str(&format!("dup({}->{});", i, j));
            }
            "overlap" => {
                let start = a.0.saturating_sub(rng.usize(4) as u32);
                let end = a.1.saturating_add(rng.usize(4) as u32).min(max);
                set(cmap, p, &s, j, (start, end, b.2, if rng.bool() { 0 } else { b.3 }));
                desc.push_str(&format!("overlap({} over {});", j, i));
            }
            "end-max" => {
                let end = *rng.pick(&[max, max - 1, 0xFFFF, 0xFFFF_FFFF]) & if s.format == 4 { 0xFFFF } else { u32::MAX };
                set(cmap, p, &s, i, (a.0, end, a.2, a.3));
                desc.push_str(&format!("end({})={:#x};", i, end));
            }
            "low" => {
                let v = *rng.pick(&[(0u32, 0u32), (2, 3), (1, 1), (0, 0x20)]);
                set(cmap, p, &s, i, (v.0, v.1, a.2, 0));
                desc.push_str(&format!("low({});", i));
            }
            "wide" => {
                set(cmap, p, &s, i, (0, wide_end, if s.format == 4 { 1 } else { 0 }, 0));
                desc.push_str(&format!("wide({});", i));
            }
            _ => {
                // all segments from `i` on: wide, low (or backwards), wide, low, ...
                let backwards = kind == "alternate-wide-backwards";
                let from = if rng.chance(2, 3) { 0 } else { i };
                for k in from..s.n {
                    let v = if (k - from) % 2 == 0 {
                        (0, wide_end, if s.format == 4 { 1 } else { 0 }, 0)
                    } else if backwards {
                        (100, 5, 0, 0)
                    } else {
                        (0, 0, 0, 0)
                    };
                    set(cmap, p, &s, k, v);
                }
                desc.push_str(&format!("{}(from {});", kind, from));
            }
        }
    }
    Some(desc)
}

// ---------------------------------------------------------------- synthetic subtables

/// Boundary ranges (start, end) for a code space ending at `max`.
fn vocab(rng: &mut Rng, max: u32) -> (u32, u32) {
    let r = (rng.u32() as u64 % (max as u64 + 1)) as u32;
    let w = rng.u32() % 40;
    *rng.pick(&[
        (0, max - 1),
        (0, max),
        (0, 0xFFFE.min(max)),
        (0, 0),
        (2, 3),
        (10, 20),
        (100, 5),
        (max, max),
        (max - 1, max),
        (max, 0),
        (0x20, 0x7E),
        (r, r.saturating_add(w).min(max)),
        (r, r),
        (r, r.saturating_sub(w)),
        (0x8000.min(max), max),
        (1, 0x7FFF.min(max)),
    ])
}

pub const SYNTH_SHAPES: [&str; 5] = ["random", "alternate", "ascending-one-disturbed", "all-same", "sandwich"];

/// Ranges of a synthetic subtable.
fn synth_ranges(rng: &mut Rng, max: u32, shape: &str, k: usize) -> Vec<(u32, u32)> {
    match shape {
        "alternate" => {
            let (a, b) = (vocab(rng, max), vocab(rng, max));
            (0..k).map(|i| if i % 2 == 0 { a } else { b }).collect()
        }
        "ascending-one-disturbed" => {
            let step = ((max as u64 + 1) / k.max(1) as u64).clamp(2, u32::MAX as u64) as u32;
            let mut v: Vec<(u32, u32)> = (0..k as u32).map(|i| (i.saturating_mul(step).min(max), (i.saturating_mul(step).saturating_add(step - 2)).min(max))).collect();
            let i = rng.usize(k.max(1)).min(v.len().saturating_sub(1));
            if let Some(e) = v.get_mut(i) {
                *e = vocab(rng, max);
            }
            v
        }
        "all-same" => {
            let a = vocab(rng, max);
            vec![a; k]
        }
        "sandwich" => {
            // a wide range, a run of low / backwards ones, the wide range again
            let a = *rng.pick(&[(0, max - 1), (0, 0xFFFE.min(max)), (10, 20)]);
            let b = vocab(rng, max);
            let mut v = vec![a];
            v.extend(std::iter::repeat(b).take(k.saturating_sub(2)));
            v.push(a);
            v
        }
        _ => (0..k).map(|_| vocab(rng, max)).collect(),
    }
}

/// A cmap table with one synthetic subtable of `format` (4, 12 or 13).
/// Returns (description, cmap table bytes).
pub fn synth(rng: &mut Rng, format: u16) -> (String, Vec<u8>) {
    let shape = *rng.pick(&SYNTH_SHAPES);
    let k = *rng.pick(&[1usize, 2, 3, 3, 4, 5, 8, 16, 40, 64, 120, 300]);
    let max = if format == 4 {
        0xFFFF
    } else {
        *rng.pick(&[0xFFFFu32, 0x10FFFF, 0x10FFFF, 0xFFFF_FFFF])
    };
    let mut ranges = synth_ranges(rng, max, shape, k);
    let terminated = format == 4 && rng.chance(2, 3);
    if terminated {
        ranges.push((0xFFFF, 0xFFFF));
    }
    let mut sub: Vec<u8> = vec![];
    let w16 = |v: &mut Vec<u8>, x: u16| v.extend_from_slice(&x.to_be_bytes());
    let w32 = |v: &mut Vec<u8>, x: u32| v.extend_from_slice(&x.to_be_bytes());
    let n = ranges.len();
    if format == 4 {
        // idRangeOffset: mostly 0 (every code maps), sometimes into a short glyph id array
        let with_array = rng.chance(1, 4);
        let glyph_array: Vec<u16> = if with_array { (0..8u16).map(|i| i % 3).collect() } else { vec![] };
        let len = 16 + 8 * n + 2 * glyph_array.len();
        w16(&mut sub, 4);
        w16(&mut sub, len.min(0xFFFF) as u16);
        w16(&mut sub, 0);
        w16(&mut sub, (2 * n) as u16);
        let es = if n == 0 { 0 } else { 15 - (n as u16).leading_zeros() as u16 };
        w16(&mut sub, (2u16 << es).wrapping_mul(1));
        w16(&mut sub, es);
        w16(&mut sub, ((2 * n) as u16).wrapping_sub(2u16 << es));
        for r in &ranges {
            w16(&mut sub, r.1 as u16);
        }
        w16(&mut sub, 0);
        for r in &ranges {
            w16(&mut sub, r.0 as u16);
        }
        for _ in &ranges {
            let d = *rng.pick(&[1u16, 0, 0xFFFF, 0x8000]);
            w16(&mut sub, d);
        }
        for i in 0..n {
            let ro = if with_array && rng.chance(1, 3) { (2 * (n - i)) as u16 } else { 0 };
            w16(&mut sub, ro);
        }
        for g in glyph_array {
            w16(&mut sub, g);
        }
    } else {
        w16(&mut sub, format);
        w16(&mut sub, 0);
        w32(&mut sub, (16 + 12 * n) as u32);
        w32(&mut sub, 0);
        w32(&mut sub, n as u32);
        for r in &ranges {
            w32(&mut sub, r.0);
            w32(&mut sub, r.1);
            let g = *rng.pick(&[0u32, 0, 1, 5, 0xFFFE, 0x10000, 0xFFFF_FFFF]);
            w32(&mut sub, g);
        }
    }
    let mut cmap: Vec<u8> = vec![];
    w16(&mut cmap, 0);
    w16(&mut cmap, 1);
    let (pid, eid) = if format == 4 { (3u16, 1u16) } else { (3, 10) };
    w16(&mut cmap, pid);
    w16(&mut cmap, eid);
    w32(&mut cmap, 12);
    cmap.extend_from_slice(&sub);
    let shown: Vec<String> = ranges.iter().take(6).map(|r| format!("{:x}..{:x}", r.0, r.1)).collect();
    (format!("cmap{}:{}:k={}:max={:#x}:[{}{}]", format, shape, n, max, shown.join(","), if n > 6 { ",.." } else { "" }), cmap)
}
