//! Hand-written helpers: bitmaps (CBLC/CBDT, EBLC/EBDT, sbix), COLR, VARC, IFT.

use crate::h_core::Env;
use crate::h_layout;
use crate::h_var;
use crate::obs::Obs;
use crate::walk::walk_table;
use read_fonts::collections::IntSet;
use read_fonts::tables::bitmap::{BitmapContent, BitmapData, BitmapLocation, BitmapMetrics, BitmapSize};
use read_fonts::tables::colr::Colr;
use read_fonts::tables::ift::Ift;
use read_fonts::traversal::SomeTable;
use read_fonts::types::GlyphId;
use read_fonts::{FontData, ReadError, TableProvider};

fn bitmap_data(o: &mut Obs, r: Result<BitmapData, ReadError>) {
    match r {
        Ok(d) => {
            match d.metrics {
                BitmapMetrics::Small(m) => o.d.dbg(&m),
                BitmapMetrics::Big(m) => o.d.dbg(&m),
            }
            match d.content {
                BitmapContent::Data(f, b) => {
                    o.d.dbg(&f);
                    o.d.u64(b.len() as u64);
                    o.d.u64(vf_core::fnv64(&b[..b.len().min(4096)]));
                }
                BitmapContent::Composite(c) => {
                    o.d.u64(c.len() as u64);
                    for x in c.iter().take(64) {
                        o.d.dbg(x);
                    }
                }
            }
        }
        Err(e) => o.err(&e),
    }
}

fn sizes<'a>(
    o: &mut Obs,
    env: &Env,
    sizes: &[BitmapSize],
    offset_data: FontData<'a>,
    data: &dyn Fn(&BitmapLocation) -> Option<Result<BitmapData<'a>, ReadError>>,
) {
    for size in sizes.iter().take(env.cap(256, 6)) {
        let (s, e) = (size.start_glyph_index().to_u32(), size.end_glyph_index().to_u32());
        let mut gids = env.gids.clone();
        gids.extend([s.wrapping_sub(1), s, s + 1, e.wrapping_sub(1), e, e + 1]);
        o.helper("BitmapSize::index_subtable_list");
        match size.index_subtable_list(offset_data) {
            Ok(l) => {
                for r in l.index_subtable_records().iter().take(16) {
                    let (a, b) = (r.first_glyph_index().to_u32(), r.last_glyph_index().to_u32());
                    gids.extend([a.wrapping_sub(1), a, a + 1, b, b + 1]);
                    match r.index_subtable(l.offset_data()) {
                        Ok(st) => {
                            o.d.dbg(&(st.index_format(), st.image_format(), st.image_data_offset()));
                            walk_table(o, &st as &dyn SomeTable, 4);
                            // sparse index formats: query every glyph id the table itself
                            // names (format 4 incl. its trailing sentinel pair), and their neighbours
                            use read_fonts::tables::bitmap::IndexSubtable;
                            match &st {
                                IndexSubtable::Format4(t) => {
                                    for p in t.glyph_array().iter().take(48).chain(t.glyph_array().iter().rev().take(8)) {
                                        let g = p.glyph_id().to_u32();
                                        gids.extend([g.wrapping_sub(1), g, g + 1]);
                                    }
                                }
                                IndexSubtable::Format5(t) => {
                                    for p in t.glyph_array().iter().take(48).chain(t.glyph_array().iter().rev().take(8)) {
                                        let g = p.get().to_u32();
                                        gids.extend([g.wrapping_sub(1), g, g + 1]);
                                    }
                                }
                                _ => {}
                            }
                        }
                        Err(e) => o.err(&e),
                    }
                }
            }
            Err(e) => o.err(&e),
        }
        gids.sort_unstable();
        gids.dedup();
        for g in gids {
            o.helper("BitmapSize::location");
            match size.location(offset_data, GlyphId::new(g)) {
                Ok(loc) => {
                    o.d.dbg(&(loc.format, loc.data_offset, loc.data_size, loc.bit_depth, loc.is_empty()));
                    o.d.dbg(&loc.metrics);
                    if let Some(r) = data(&loc) {
                        o.helper("Cbdt/Ebdt::data");
                        bitmap_data(o, r);
                    }
                    // hostile locations against the data table
                    for (fmt, off, sz) in [(loc.format, usize::MAX, 1usize), (loc.format, loc.data_offset, usize::MAX), (17, 0, 0), (5, 4, 8)] {
                        let l2 = BitmapLocation { format: fmt, data_offset: off, data_size: sz, bit_depth: loc.bit_depth, metrics: loc.metrics };
                        if off.checked_add(sz).is_none() {
                            // precondition of the API (offset+size is computed unchecked); belongs to C20
                            continue;
                        }
                        if let Some(r) = data(&l2) {
                            bitmap_data(o, r);
                        }
                    }
                }
                Err(e) => o.err(&e),
            }
        }
    }
}

pub fn bitmaps<'a>(o: &mut Obs, env: &Env<'_, 'a>, want: &dyn Fn(&[&[u8; 4]]) -> bool) {
    let font = env.font;
    if want(&[b"CBLC", b"CBDT"]) {
        if let Ok(cblc) = font.cblc() {
            let cbdt = font.cbdt().ok();
            sizes(o, env, cblc.bitmap_sizes(), cblc.offset_data(), &|l| cbdt.as_ref().map(|c| c.data(l)));
        }
    }
    if want(&[b"EBLC", b"EBDT"]) {
        if let Ok(eblc) = font.eblc() {
            let ebdt = font.ebdt().ok();
            sizes(o, env, eblc.bitmap_sizes(), eblc.offset_data(), &|l| ebdt.as_ref().map(|c| c.data(l)));
        }
    }
    if want(&[b"sbix", b"maxp"]) {
        if let Ok(sbix) = font.sbix() {
            for s in sbix.strikes().iter().take(env.cap(256, 6)) {
                match s {
                    Ok(s) => {
                        let n = s.glyph_data_offsets().len() as u32;
                        let mut gids = env.gids.clone();
                        gids.extend([n.wrapping_sub(2), n.wrapping_sub(1), n]);
                        for g in gids {
                            o.helper("Strike::glyph_data");
                            match s.glyph_data(GlyphId::new(g)) {
                                Ok(Some(d)) => {
                                    o.d.dbg(&(d.origin_offset_x(), d.origin_offset_y(), d.graphic_type(), d.data().len()));
                                }
                                Ok(None) => o.d.bytes(&[0]),
                                Err(e) => o.err(&e),
                            }
                        }
                    }
                    Err(e) => o.err(&e),
                }
            }
        }
    }
}

pub fn colr(o: &mut Obs, env: &Env, colr: &Colr) {
    let mut gids = env.gids.clone();
    if let Some(Ok(recs)) = colr.base_glyph_records() {
        for r in recs.iter().take(6) {
            let g = r.glyph_id().to_u32();
            gids.extend([g.wrapping_sub(1), g, g + 1]);
        }
    }
    if let Some(Ok(list)) = colr.base_glyph_list() {
        for r in list.base_glyph_paint_records().iter().take(6) {
            let g = r.glyph_id().to_u32();
            gids.extend([g.wrapping_sub(1), g, g + 1]);
        }
    }
    gids.sort_unstable();
    gids.dedup();
    // paint ids embed the address of the data by design; observe them
    // relative to the first one seen so that the digest depends on bytes only
    let mut base_id: Option<usize> = None;
    let mut rel = |id: usize| -> u64 {
        let b = *base_id.get_or_insert(id);
        id.wrapping_sub(b) as u64
    };
    for &g in &gids {
        let gid = GlyphId::new(g);
        o.helper("Colr::v0_base_glyph");
        match colr.v0_base_glyph(gid) {
            Ok(Some(r)) => {
                o.d.dbg(&r);
                for i in r.clone().take(env.cap(4096, 16)).chain([r.end, usize::MAX]) {
                    o.helper("Colr::v0_layer");
                    o.res(&colr.v0_layer(i));
                }
            }
            Ok(None) => o.d.bytes(&[0]),
            Err(e) => o.err(&e),
        }
        o.helper("Colr::v1_base_glyph");
        match colr.v1_base_glyph(gid) {
            Ok(Some((p, id))) => {
                o.d.u64(rel(id));
                o.d.u32(p.format() as u32);
            }
            Ok(None) => o.d.bytes(&[0]),
            Err(e) => o.err(&e),
        }
        o.helper("Colr::v1_clip_box");
        match colr.v1_clip_box(gid) {
            Ok(Some(b)) => walk_table(o, &b as &dyn SomeTable, 4),
            Ok(None) => o.d.bytes(&[0]),
            Err(e) => o.err(&e),
        }
    }
    let nl = colr.layer_list().and_then(|l| l.ok()).map(|l| l.num_layers() as usize).unwrap_or(0);
    for i in (0..nl.min(env.cap(4096, 12))).chain([nl.wrapping_sub(1), nl, nl + 1, usize::MAX]) {
        o.helper("Colr::v1_layer");
        match colr.v1_layer(i) {
            Ok((p, id)) => {
                o.d.u64(rel(id));
                o.d.u32(p.format() as u32);
            }
            Err(e) => o.err(&e),
        }
    }
    if let Some(Ok(s)) = colr.item_variation_store() {
        h_var::ivs(o, env, &s, &env.coords);
    }
    if let Some(Ok(m)) = colr.var_index_map() {
        h_var::dsim(o, &m);
    }
    // closures
    let mut gs = IntSet::<GlyphId>::new();
    for &g in gids.iter().take(env.cap(4096, 24)) {
        gs.insert(GlyphId::new(g));
    }
    let mut pal = IntSet::<u16>::new();
    o.helper("Colr::v0_closure_palette_indices");
    colr.v0_closure_palette_indices(&gs, &mut pal);
    o.d.u64(pal.len());
    let mut out = IntSet::<GlyphId>::new();
    o.helper("Colr::v0_closure_glyphs");
    colr.v0_closure_glyphs(&gs, &mut out);
    o.d.u64(out.len());
    let (mut layers, mut pal, mut vars) = (IntSet::<u32>::new(), IntSet::<u16>::new(), IntSet::<u32>::new());
    let mut gs2 = gs.clone();
    o.helper("Colr::v1_closure");
    colr.v1_closure(&mut gs2, &mut layers, &mut pal, &mut vars);
    o.d.u64(gs2.len());
    o.d.u64(layers.len());
    o.d.u64(pal.len());
    o.d.u64(vars.len());
    for v in vars.iter().take(64) {
        o.d.u32(v);
    }
}

pub fn varc(o: &mut Obs, env: &Env) {
    let Ok(varc) = env.font.varc() else { return };
    if let Ok(cov) = varc.coverage() {
        h_layout::coverage(o, env, &cov);
    }
    let varc_len = varc.offset_data().len() as u64;
    // packed values: a control byte encodes at most 64 values (a zero run needs no data bytes)
    let packed_ceiling = 64 * varc_len;
    let n = varc.var_composite_glyphs().map(|i| i.count() as usize).unwrap_or(0);
    for i in (0..n.min(env.cap(70_000, 8))).chain([n.wrapping_sub(1), n, n + 1, usize::MAX]) {
        o.helper("Varc::glyph");
        match varc.glyph(i) {
            Ok(g) => {
                // (every component consumes at least one byte of the VARC table)
                let (mut ok, mut err) = (0u32, 0u32);
                let mut errs = 0u32;
                let until_errors = g.components().take_while(move |r| {
                    let go = errs <= 4;
                    errs += r.is_err() as u32;
                    go
                });
                o.drain("VarcGlyph::components", "varc_bytes", varc_len, 4096, until_errors, |o, c| match c {
                    Ok(_) => ok += 1,
                    Err(e) => {
                        o.err(&e);
                        err += 1;
                    }
                });
                o.d.u32(ok);
                o.d.u32(err);
            }
            Err(e) => o.err(&e),
        }
    }
    let na = varc.axis_indices_list().and_then(|r| r.ok()).map(|i| i.count() as usize).unwrap_or(0);
    for i in (0..na.min(env.cap(4096, 8))).chain([na, usize::MAX]) {
        o.helper("Varc::axis_indices");
        match varc.axis_indices(i) {
            Ok(d) => {
                o.drain("PackedDeltas::iter(axis_indices)", "64*varc_bytes", packed_ceiling, 70_000, d.iter(), |o, v| o.d.i64(v as i64));
            }
            Err(e) => o.err(&e),
        }
    }
    if let Some(Ok(store)) = varc.multi_var_store() {
        if let Ok(regions) = store.region_list() {
            walk_table(o, &regions as &dyn SomeTable, 4);
        }
        for d in store.variation_data().iter().take(env.cap(256, 4)) {
            match d {
                Ok(d) => {
                    o.helper("MultiItemVariationData::delta_sets");
                    match d.delta_sets() {
                        Ok(ix) => {
                            let n = ix.count() as usize;
                            for i in (0..n.min(env.cap(4096, 6))).chain([n, usize::MAX]) {
                                o.helper("MultiItemVariationData::delta_set");
                                match d.delta_set(i) {
                                    Ok(p) => {
                                        let mut acc = 0u64;
                                        o.drain("PackedDeltas::iter(delta_set)", "64*varc_bytes", packed_ceiling, 70_000, p.iter(), |_, v| acc = acc.wrapping_mul(31).wrapping_add(v as i64 as u64));
                                        o.d.u64(acc);
                                    }
                                    Err(e) => o.err(&e),
                                }
                            }
                        }
                        Err(e) => o.err(&e),
                    }
                }
                Err(e) => o.err(&e),
            }
        }
    }
    if let Some(Ok(cl)) = varc.condition_list() {
        for c in cl.conditions().iter().take(env.cap(4096, 16)) {
            match c {
                Ok(c) => walk_table(o, &c as &dyn SomeTable, 6),
                Err(e) => o.err(&e),
            }
        }
    }
}

pub fn ift(o: &mut Obs, env: &Env, t: &Ift) {
    o.helper("Ift::common");
    o.d.dbg(&(t.format(), t.field_flags().bits(), t.uri_template_length(), t.cff_charstrings_offset(), t.cff2_charstrings_offset()));
    o.d.bytes(t.compatibility_id().as_slice());
    o.d.u64(t.uri_template().len() as u64);
    match t {
        Ift::Format1(f) => {
            o.drain("PatchMapFormat1::gid_to_entry_iter", "glyphCount", f.glyph_count().to_u32() as u64, env.cap(200_000, 3_000), f.gid_to_entry_iter(), |o, (g, e)| {
                o.d.u32(g.to_u32());
                o.d.u32(e as u32);
            });
            o.helper("PatchMapFormat1::entry_count");
            o.d.u32(f.entry_count());
            o.helper("PatchMapFormat1::uri_template_as_string");
            match f.uri_template_as_string() {
                Ok(s) => o.d.str(s),
                Err(e) => o.err(&e),
            }
            let m = f.max_entry_index();
            for e in [0u16, 1, 7, 8, m.wrapping_sub(1), m, m.wrapping_add(1), 0xFFFF] {
                o.helper("PatchMapFormat1::is_entry_applied");
                o.d.bytes(&[f.is_entry_applied(e) as u8]);
            }
            if let Some(Ok(fm)) = f.feature_map() {
                for mx in [0u16, 255, 256, m, 0xFFFF] {
                    o.helper("FeatureMap::entry_records_size");
                    o.res(&fm.entry_records_size(mx));
                }
            }
        }
        Ift::Format2(f) => {
            o.helper("PatchMapFormat2::uri_template_as_string");
            match f.uri_template_as_string() {
                Ok(s) => o.d.str(s),
                Err(e) => o.err(&e),
            }
            if let Ok(e) = f.entries() {
                o.d.u64(e.entry_data().len() as u64);
            }
        }
    }
}
