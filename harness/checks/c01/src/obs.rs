//! Observation record of one walk of one input: a digest of everything the
//! library returned (values only, never addresses), counters, and the panics
//! caught inside individually guarded sections.

use read_fonts::ReadError;
use std::cell::RefCell;
use std::collections::HashSet;
use vf_core::{fnv64, Digest, PanicInfo};

/// How much work one walk may do.
#[derive(Clone, Copy, Debug, PartialEq, Eq)]
pub enum Effort {
    /// pristine corpus input: every glyph, every subtable
    Full,
    /// mutant: boundary samples only
    Mutant,
}

#[derive(Clone, Debug)]
pub struct WalkCfg {
    pub effort: Effort,
    /// max number of generic fields visited per input
    pub field_budget: u64,
    /// restrict the walk to one table tag (and the helpers that consume it)
    pub focus: Option<[u8; 4]>,
}

impl WalkCfg {
    pub fn full() -> Self {
        WalkCfg { effort: Effort::Full, field_budget: 3_000_000, focus: None }
    }
    pub fn mutant(budget: u64, focus: Option<[u8; 4]>) -> Self {
        WalkCfg { effort: Effort::Mutant, field_budget: budget, focus }
    }
    pub fn is_full(&self) -> bool {
        self.effort == Effort::Full
    }
    pub fn to_json(&self) -> serde_json::Value {
        serde_json::json!({
            "effort": if self.is_full() { "full" } else { "mutant" },
            "field_budget": self.field_budget,
            "focus": self.focus.map(|t| String::from_utf8_lossy(&t).to_string()),
        })
    }
    pub fn from_json(v: &serde_json::Value) -> Self {
        let focus = v["focus"].as_str().and_then(|s| {
            let b = s.as_bytes();
            (b.len() == 4).then(|| [b[0], b[1], b[2], b[3]])
        });
        WalkCfg {
            effort: if v["effort"].as_str() == Some("full") { Effort::Full } else { Effort::Mutant },
            field_budget: v["field_budget"].as_u64().unwrap_or(200_000),
            focus,
        }
    }
}

pub const ERR_KINDS: [&str; 12] = [
    "OutOfBounds",
    "InvalidFormat",
    "InvalidSfnt",
    "InvalidTtc",
    "InvalidCollectionIndex",
    "InvalidArrayLen",
    "ValidationError",
    "NullOffset",
    "TableIsMissing",
    "MetricIsMissing",
    "MalformedData",
    "PostscriptError",
];

pub fn err_kind(e: &ReadError) -> usize {
    match e {
        ReadError::OutOfBounds => 0,
        ReadError::InvalidFormat(_) => 1,
        ReadError::InvalidSfnt(_) => 2,
        ReadError::InvalidTtc(_) => 3,
        ReadError::InvalidCollectionIndex(_) => 4,
        ReadError::InvalidArrayLen => 5,
        ReadError::ValidationError => 6,
        ReadError::NullOffset => 7,
        ReadError::TableIsMissing(_) => 8,
        ReadError::MetricIsMissing(_) => 9,
        ReadError::MalformedData(_) => 10,
    }
}

thread_local! {
    /// debugging aid: per-helper call counts of the current thread (off by default)
    pub static HELPER_TRACE: RefCell<Option<std::collections::BTreeMap<&'static str, u64>>> = const { RefCell::new(None) };
    static SEEN_TYPES: RefCell<HashSet<u64>> = RefCell::new(HashSet::new());
    static SEEN_HELPERS: RefCell<HashSet<u64>> = RefCell::new(HashSet::new());
}

pub struct Obs {
    pub d: Digest,
    /// generic fields visited (get_field / array get calls that returned a value)
    pub fields: u64,
    /// tables / records entered by the generic walker
    pub nodes: u64,
    /// top-level tables (or payload reads) that parsed successfully
    pub tables_ok: u32,
    /// hand-written helper calls made
    pub helper_calls: u64,
    pub budget_hit: bool,
    pub errs: [u32; ERR_KINDS.len()],
    /// type names first seen on this thread during this walk
    pub new_types: Vec<String>,
    /// helper names first seen on this thread during this walk
    pub new_helpers: Vec<&'static str>,
    /// panics caught in guarded sections: (section, info)
    pub panics: Vec<(String, PanicInfo)>,
    /// occurrences per panic signature
    pub panic_counts: std::collections::BTreeMap<String, u32>,
    /// ordinal of the guarded section that panicked + signature, in order
    pub panic_sites: Vec<(u64, String)>,
    pub section_seq: u64,
    pub budget: u64,
}

impl Obs {
    pub fn new(budget: u64) -> Self {
        Obs {
            d: Digest::new(),
            fields: 0,
            nodes: 0,
            tables_ok: 0,
            helper_calls: 0,
            budget_hit: false,
            errs: [0; ERR_KINDS.len()],
            new_types: vec![],
            new_helpers: vec![],
            panics: vec![],
            panic_counts: Default::default(),
            panic_sites: vec![],
            section_seq: 0,
            budget,
        }
    }

    #[inline]
    pub fn over_budget(&mut self) -> bool {
        if self.fields >= self.budget {
            self.budget_hit = true;
            true
        } else {
            false
        }
    }

    pub fn type_seen(&mut self, name: &str) {
        let h = fnv64(name.as_bytes());
        let new = SEEN_TYPES.with(|s| s.borrow_mut().insert(h));
        if new {
            self.new_types.push(name.to_string());
        }
    }

    /// Note that a hand-written helper was reached.
    #[inline]
    pub fn helper(&mut self, name: &'static str) {
        self.helper_calls += 1;
        HELPER_TRACE.with(|t| {
            if let Some(m) = t.borrow_mut().as_mut() {
                *m.entry(name).or_insert(0) += 1;
            }
        });
        let h = fnv64(name.as_bytes());
        let new = SEEN_HELPERS.with(|s| {
            let mut s = s.borrow_mut();
            if s.contains(&h) {
                false
            } else {
                s.insert(h);
                true
            }
        });
        if new {
            self.new_helpers.push(name);
        }
    }

    pub fn err(&mut self, e: &ReadError) {
        self.errs[err_kind(e)] += 1;
        self.d.dbg(e);
    }

    pub fn ps_err(&mut self, e: &read_fonts::tables::postscript::Error) {
        self.errs[11] += 1;
        self.d.dbg(e);
    }

    /// Digest a `Result<T: Debug, ReadError>`.
    pub fn res<T: std::fmt::Debug>(&mut self, r: &Result<T, ReadError>) {
        match r {
            Ok(v) => {
                self.d.bytes(&[1]);
                self.d.dbg(v)
            }
            Err(e) => {
                self.d.bytes(&[0]);
                self.err(e)
            }
        }
    }

    pub fn opt<T: std::fmt::Debug>(&mut self, r: &Option<T>) {
        self.d.dbg(r);
    }

    /// Run a section under its own panic guard so that one panic does not hide
    /// later sections and is attributed to the section.
    pub fn guarded(&mut self, what: &str, f: impl FnOnce(&mut Obs)) {
        // the observation of a section that panics is "panicked at S": partial
        // progress (which depends on where inside the section the panic hit) is
        // rolled back so that it does not enter the digest or the counters
        self.section_seq += 1;
        let seq = self.section_seq;
        let saved = (self.d, self.fields, self.nodes, self.helper_calls, self.tables_ok, self.errs);
        match vf_core::guard(|| f(self)) {
            Ok(()) => {}
            Err(p) => {
                (self.d, self.fields, self.nodes, self.helper_calls, self.tables_ok, self.errs) = saved;
                self.d.str("PANIC");
                self.d.str(&p.signature());
                let sig = p.signature();
                *self.panic_counts.entry(sig.clone()).or_insert(0) += 1;
                if self.panic_sites.len() < 4096 {
                    self.panic_sites.push((seq, sig.clone()));
                }
                let dup = self.panics.iter().any(|(w, q)| w == what && q.signature() == sig);
                if !dup && self.panics.len() < 32 {
                    self.panics.push((what.to_string(), p));
                }
            }
        }
    }

    pub fn key(&self) -> (u64, u64, u64, u32) {
        (self.d.finish(), self.fields, self.helper_calls, self.tables_ok)
    }
}
