//! Observation record of one walk of one input: a digest of everything the
//! library returned (values only, never addresses), counters, and the panics
//! caught inside individually guarded sections.

use read_fonts::ReadError;
use std::cell::RefCell;
use std::collections::HashSet;
use vf_core::{fnv64, Digest, PanicInfo};

/// How much work one walk may do.
#[derive(Clone, Copy, Debug, PartialEq, Eq)]
pub enum Effort {
    /// pristine corpus input: every glyph, every subtable
    Full,
    /// mutant: boundary samples only
    Mutant,
}

#[derive(Clone, Debug)]
pub struct WalkCfg {
    pub effort: Effort,
    /// max number of generic fields visited per input
    pub field_budget: u64,
    /// restrict the walk to one table tag (and the helpers that consume it)
    pub focus: Option<[u8; 4]>,
}

impl WalkCfg {
    pub fn full() -> Self {
        WalkCfg { effort: Effort::Full, field_budget: 3_000_000, focus: None }
    }
    pub fn mutant(budget: u64, focus: Option<[u8; 4]>) -> Self {
        WalkCfg { effort: Effort::Mutant, field_budget: budget, focus }
    }
    pub fn is_full(&self) -> bool {
        self.effort == Effort::Full
    }
    pub fn to_json(&self) -> serde_json::Value {
        serde_json::json!({
            "effort": if self.is_full() { "full" } else { "mutant" },
            "field_budget": self.field_budget,
            "focus": self.focus.map(|t| String::from_utf8_lossy(&t).to_string()),
        })
    }
    pub fn from_json(v: &serde_json::Value) -> Self {
        let focus = v["focus"].as_str().and_then(|s| {
            let b = s.as_bytes();
            (b.len() == 4).then(|| [b[0], b[1], b[2], b[3]])
        });
        WalkCfg {
            effort: if v["effort"].as_str() == Some("full") { Effort::Full } else { Effort::Mutant },
            field_budget: v["field_budget"].as_u64().unwrap_or(200_000),
            focus,
        }
    }
}

pub const ERR_KINDS: [&str; 12] = [
    "OutOfBounds",
    "InvalidFormat",
    "InvalidSfnt",
    "InvalidTtc",
    "InvalidCollectionIndex",
    "InvalidArrayLen",
    "ValidationError",
    "NullOffset",
    "TableIsMissing",
    "MetricIsMissing",
    "MalformedData",
    "PostscriptError",
];

pub fn err_kind(e: &ReadError) -> usize {
    match e {
        ReadError::OutOfBounds => 0,
        ReadError::InvalidFormat(_) => 1,
        ReadError::InvalidSfnt(_) => 2,
        ReadError::InvalidTtc(_) => 3,
        ReadError::InvalidCollectionIndex(_) => 4,
        ReadError::InvalidArrayLen => 5,
        ReadError::ValidationError => 6,
        ReadError::NullOffset => 7,
        ReadError::TableIsMissing(_) => 8,
        ReadError::MetricIsMissing(_) => 9,
        ReadError::MalformedData(_) => 10,
    }
}

thread_local! {
    /// debugging aid: per-helper call counts of the current thread (off by default)
    pub static HELPER_TRACE: RefCell<Option<std::collections::BTreeMap<&'static str, u64>>> = const { RefCell::new(None) };
    static SEEN_TYPES: RefCell<HashSet<u64>> = RefCell::new(HashSet::new());
    static SEEN_HELPERS: RefCell<HashSet<u64>> = RefCell::new(HashSet::new());
}

/// One refuting observation of the work monitor: a drained iterator yielded
/// more items than the ceiling its format allows.
#[derive(Clone, Debug)]
pub struct WorkAlarm {
    pub helper: &'static str,
    /// the ceiling as an expression over the format's fields (part of the signature)
    pub ceiling_expr: &'static str,
    pub ceiling: u64,
    /// items yielded when the drain stopped (a lower bound when `stopped_by_cap`)
    pub yielded: u64,
    /// the iterator had not ended when the hard cap (4 x ceiling + 1024) / the drain budget stopped it
    pub stopped_by_cap: bool,
}

/// Largest ceiling that is checked by draining (a larger one falls back to `take(N)`).
pub const DRAIN_MAX_CEILING: u64 = if cfg!(miri) { 4096 } else { 1 << 21 };

/// Items (beyond the digested prefix) that the work monitor may drain per walk.
pub fn drain_budget(effort: Effort) -> u64 {
    if cfg!(miri) {
        return 20_000;
    }
    match effort {
        Effort::Full => 64_000_000,
        Effort::Mutant => 6_000_000,
    }
}

pub struct Obs {
    pub d: Digest,
    /// generic fields visited (get_field / array get calls that returned a value)
    pub fields: u64,
    /// tables / records entered by the generic walker
    pub nodes: u64,
    /// top-level tables (or payload reads) that parsed successfully
    pub tables_ok: u32,
    /// hand-written helper calls made
    pub helper_calls: u64,
    pub budget_hit: bool,
    pub errs: [u32; ERR_KINDS.len()],
    /// type names first seen on this thread during this walk
    pub new_types: Vec<String>,
    /// helper names first seen on this thread during this walk
    pub new_helpers: Vec<&'static str>,
    /// panics caught in guarded sections: (section, info)
    pub panics: Vec<(String, PanicInfo)>,
    /// occurrences per panic signature
    pub panic_counts: std::collections::BTreeMap<String, u32>,
    /// ordinal of the guarded section that panicked + signature, in order
    pub panic_sites: Vec<(u64, String)>,
    pub section_seq: u64,
    pub budget: u64,
    /// work monitor: refuting observations (iterator exceeded its format ceiling)
    pub work_alarms: Vec<WorkAlarm>,
    /// work monitor: iterators drained to their end within their ceiling
    pub work_checked: u64,
    /// work monitor: iterators consumed through `take(N)` only (ceiling too large to drain, or drain budget used up)
    pub work_unchecked: u64,
    /// work monitor: items yielded by all drained iterators
    pub work_items: u64,
    /// work monitor: largest yielded/ceiling ratio seen, in 1/1000 (ceiling > 0 only)
    pub work_max_permille: u64,
    /// work monitor: items beyond the digested prefixes that may still be drained in this walk
    pub drain_left: u64,
    /// work monitor: per helper (iterators consumed, items yielded)
    pub work_by_helper: std::collections::BTreeMap<&'static str, (u64, u64)>,
}

impl Obs {
    pub fn new(budget: u64) -> Self {
        Obs {
            d: Digest::new(),
            fields: 0,
            nodes: 0,
            tables_ok: 0,
            helper_calls: 0,
            budget_hit: false,
            errs: [0; ERR_KINDS.len()],
            new_types: vec![],
            new_helpers: vec![],
            panics: vec![],
            panic_counts: Default::default(),
            panic_sites: vec![],
            section_seq: 0,
            budget,
            work_alarms: vec![],
            work_checked: 0,
            work_unchecked: 0,
            work_items: 0,
            work_max_permille: 0,
            drain_left: drain_budget(Effort::Mutant),
            work_by_helper: Default::default(),
        }
    }

    pub fn for_cfg(cfg: &WalkCfg) -> Self {
        let mut o = Obs::new(cfg.field_budget);
        o.drain_left = drain_budget(cfg.effort);
        o
    }

    /// Work monitor. Consume `it` (a library iterator whose item count has the
    /// format-defined ceiling `ceiling`, described by `ceiling_expr`): the first
    /// `digest_cap` items go to `f` (which digests them), the rest are only
    /// counted. The drain stops at the end of the iterator, or after
    /// 4 x ceiling + 1024 items (so that a run-away iterator stays bounded), or
    /// when the per-walk drain budget is used up. More than `ceiling` items is a
    /// refuting observation (recorded in `work_alarms`, reported by the caller
    /// of the walk). A ceiling above `DRAIN_MAX_CEILING` is not checked: the
    /// iterator is then consumed through the equivalent of `take(digest_cap)`.
    /// The number of items consumed enters the digest. Returns that number.
    pub fn drain<I: Iterator>(
        &mut self,
        helper: &'static str,
        ceiling_expr: &'static str,
        ceiling: u64,
        digest_cap: usize,
        it: I,
        mut f: impl FnMut(&mut Obs, I::Item),
    ) -> u64 {
        self.helper(helper);
        let digest_cap = digest_cap as u64;
        let checkable = ceiling <= DRAIN_MAX_CEILING;
        let hard_cap = if checkable { ceiling.saturating_mul(4).saturating_add(1024) } else { digest_cap };
        let mut n = 0u64;
        let mut ended = false;
        let mut it = it;
        loop {
            if n >= hard_cap.max(digest_cap) || (n >= digest_cap && (!checkable || self.drain_left == 0)) {
                break;
            }
            let Some(item) = it.next() else {
                ended = true;
                break;
            };
            n += 1;
            if n <= digest_cap {
                f(self, item);
            } else {
                self.drain_left -= 1;
            }
        }
        self.d.u64(n);
        self.d.bytes(&[ended as u8]);
        self.work_items += n;
        let e = self.work_by_helper.entry(helper).or_insert((0, 0));
        e.0 += 1;
        e.1 += n;
        if n > ceiling {
            if self.work_alarms.len() < 16 && !self.work_alarms.iter().any(|a| a.helper == helper && a.ceiling_expr == ceiling_expr) {
                self.work_alarms.push(WorkAlarm { helper, ceiling_expr, ceiling, yielded: n, stopped_by_cap: !ended });
            }
        } else if ended {
            self.work_checked += 1;
            if ceiling > 0 {
                self.work_max_permille = self.work_max_permille.max(n * 1000 / ceiling);
            }
        } else {
            self.work_unchecked += 1;
        }
        n
    }

    #[inline]
    pub fn over_budget(&mut self) -> bool {
        if self.fields >= self.budget {
            self.budget_hit = true;
            true
        } else {
            false
        }
    }

    pub fn type_seen(&mut self, name: &str) {
        let h = fnv64(name.as_bytes());
        let new = SEEN_TYPES.with(|s| s.borrow_mut().insert(h));
        if new {
            self.new_types.push(name.to_string());
        }
    }

    /// Note that a hand-written helper was reached.
    #[inline]
    pub fn helper(&mut self, name: &'static str) {
        self.helper_calls += 1;
        HELPER_TRACE.with(|t| {
            if let Some(m) = t.borrow_mut().as_mut() {
                *m.entry(name).or_insert(0) += 1;
            }
        });
        let h = fnv64(name.as_bytes());
        let new = SEEN_HELPERS.with(|s| {
            let mut s = s.borrow_mut();
            if s.contains(&h) {
                false
            } else {
                s.insert(h);
                true
            }
        });
        if new {
            self.new_helpers.push(name);
        }
    }

    pub fn err(&mut self, e: &ReadError) {
        self.errs[err_kind(e)] += 1;
        self.d.dbg(e);
    }

    pub fn ps_err(&mut self, e: &read_fonts::tables::postscript::Error) {
        self.errs[11] += 1;
        self.d.dbg(e);
    }

    /// Digest a `Result<T: Debug, ReadError>`.
    pub fn res<T: std::fmt::Debug>(&mut self, r: &Result<T, ReadError>) {
        match r {
            Ok(v) => {
                self.d.bytes(&[1]);
                self.d.dbg(v)
            }
            Err(e) => {
                self.d.bytes(&[0]);
                self.err(e)
            }
        }
    }

    pub fn opt<T: std::fmt::Debug>(&mut self, r: &Option<T>) {
        self.d.dbg(r);
    }

    /// Run a section under its own panic guard so that one panic does not hide
    /// later sections and is attributed to the section.
    pub fn guarded(&mut self, what: &str, f: impl FnOnce(&mut Obs)) {
        // the observation of a section that panics is "panicked at S": partial
        // progress (which depends on where inside the section the panic hit) is
        // rolled back so that it does not enter the digest or the counters
        self.section_seq += 1;
        let seq = self.section_seq;
        let saved = (self.d, self.fields, self.nodes, self.helper_calls, self.tables_ok, self.errs);
        // (work alarms and the drain budget spent are kept: an alarm is a refuting observation whatever happens later in the section)
        let saved_work = (self.work_checked, self.work_unchecked, self.work_items, self.work_max_permille);
        match vf_core::guard(|| f(self)) {
            Ok(()) => {}
            Err(p) => {
                (self.d, self.fields, self.nodes, self.helper_calls, self.tables_ok, self.errs) = saved;
                (self.work_checked, self.work_unchecked, self.work_items, self.work_max_permille) = saved_work;
                self.d.str("PANIC");
                self.d.str(&p.signature());
                let sig = p.signature();
                *self.panic_counts.entry(sig.clone()).or_insert(0) += 1;
                if self.panic_sites.len() < 4096 {
                    self.panic_sites.push((seq, sig.clone()));
                }
                let dup = self.panics.iter().any(|(w, q)| w == what && q.signature() == sig);
                if !dup && self.panics.len() < 32 {
                    self.panics.push((what.to_string(), p));
                }
            }
        }
    }

    pub fn key(&self) -> (u64, u64, u64, u32) {
        (self.d.finish(), self.fields, self.helper_calls, self.tables_ok)
    }
}
