//! Inputs used as individual table payloads: `T::read` / `read_with_args`
//! directly on bytes, with external arguments from boundary sets; and a typed
//! scan that reads small subtable types at every offset of a payload.

use crate::h_core::{self, Env};
use crate::obs::{Obs, WalkCfg};
use crate::sets::arg16;
use crate::walk::walk_table;
use crate::{h_layout, h_misc, h_ps, h_var};
use read_fonts::tables::{self, aat};
use read_fonts::traversal::SomeTable;
use read_fonts::types::{GlyphId16, Tag};
use read_fonts::{FontData, FontRead, FontRef, ReadError};

/// A valid sfnt with zero tables (for helpers that want a font for defaults).
pub const EMPTY_SFNT: [u8; 12] = [0, 1, 0, 0, 0, 0, 0, 0, 0, 0, 0, 0];

/// The real values of the external read arguments in the font a payload came from.
#[derive(Clone, Copy, Debug, Default)]
pub struct RealArgs {
    pub num_glyphs: u16,
    pub n_hmetrics: u16,
    pub n_vmetrics: u16,
    pub axis_count: u16,
    pub is_long: bool,
}

impl RealArgs {
    pub fn of(bytes: &[u8]) -> RealArgs {
        use read_fonts::TableProvider;
        let mut a = RealArgs::default();
        if let Ok(f) = FontRef::new(bytes).or_else(|_| FontRef::from_index(bytes, 0)) {
            a.num_glyphs = f.maxp().map(|m| m.num_glyphs()).unwrap_or(0);
            a.n_hmetrics = f.hhea().map(|m| m.number_of_h_metrics()).unwrap_or(0);
            a.n_vmetrics = f.vhea().map(|m| m.number_of_long_ver_metrics()).unwrap_or(0);
            a.axis_count = f.fvar().map(|m| m.axis_count()).unwrap_or(0);
            a.is_long = f.head().map(|h| h.index_to_loc_format() == 1).unwrap_or(false);
        }
        a
    }
    pub fn to_json(&self) -> serde_json::Value {
        serde_json::json!([self.num_glyphs, self.n_hmetrics, self.n_vmetrics, self.axis_count, self.is_long])
    }
    pub fn from_json(v: &serde_json::Value) -> RealArgs {
        RealArgs {
            num_glyphs: v[0].as_u64().unwrap_or(0) as u16,
            n_hmetrics: v[1].as_u64().unwrap_or(0) as u16,
            n_vmetrics: v[2].as_u64().unwrap_or(0) as u16,
            axis_count: v[3].as_u64().unwrap_or(0) as u16,
            is_long: v[4].as_bool().unwrap_or(false),
        }
    }
}

fn ok<'a, T: SomeTable<'a> + 'a>(o: &mut Obs, what: &str, r: Result<T, ReadError>) -> Option<T> {
    o.d.str(what);
    match r {
        Ok(t) => {
            o.tables_ok += 1;
            o.guarded(what, |o| walk_table(o, &t as &dyn SomeTable<'a>, 0));
            Some(t)
        }
        Err(e) => {
            o.err(&e);
            None
        }
    }
}

/// Read `data` as every self-describing table / subtable type.
fn read_all_noargs<'a>(o: &mut Obs, env: &Env, d: FontData<'a>, only_small: bool) {
    macro_rules! r {
        ($($t:ty),* $(,)?) => { $( { let what = stringify!($t); let _ = ok(o, what, <$t as FontRead>::read(d)); } )* };
    }
    if !only_small {
        r!(
            tables::head::Head, tables::name::Name, tables::hhea::Hhea, tables::vhea::Vhea, tables::vorg::Vorg,
            tables::fvar::Fvar, tables::avar::Avar, tables::hvar::Hvar, tables::vvar::Vvar, tables::mvar::Mvar,
            tables::maxp::Maxp, tables::os2::Os2, tables::post::Post, tables::gasp::Gasp, tables::gvar::Gvar,
            tables::cvar::Cvar, tables::gpos::Gpos, tables::gsub::Gsub, tables::feat::Feat,
            tables::ltag::Ltag, tables::ankr::Ankr, tables::cpal::Cpal, tables::cblc::Cblc,
            tables::cbdt::Cbdt, tables::eblc::Eblc, tables::ebdt::Ebdt, tables::stat::Stat, tables::svg::Svg,
            tables::varc::Varc, tables::meta::Meta, tables::base::Base,
            read_fonts::TableDirectory, read_fonts::TTCHeader,
            tables::layout::ScriptList, tables::layout::FeatureList, tables::layout::FeatureVariations,
            tables::gpos::PositionLookupList, tables::gsub::SubstitutionLookupList,
            tables::postscript::Index1, tables::postscript::Index2, tables::cff::CffHeader, tables::cff2::Cff2Header,
            tables::varc::MultiItemVariationStore, tables::base::BaseScriptList, tables::base::Axis,
            tables::gvar::GlyphVariationDataHeader,
        );
        if let Some(t) = ok(o, "Cmap", tables::cmap::Cmap::read(d)) {
            o.guarded("payload:cmap", |o| h_core::cmap(o, env, &t));
        }
        if let Some(t) = ok(o, "Colr", tables::colr::Colr::read(d)) {
            o.guarded("payload:colr", |o| h_misc::colr(o, env, &t));
        }
        if let Some(t) = ok(o, "Ift", tables::ift::Ift::read(d)) {
            o.guarded("payload:ift", |o| h_misc::ift(o, env, &t));
        }
        if let Some(t) = ok(o, "Gdef", tables::gdef::Gdef::read(d)) {
            if let Some(Ok(s)) = t.item_var_store() {
                o.guarded("payload:gdef.ivs", |o| h_var::ivs(o, env, &s, &env.coords));
            }
        }
        if tables::cff::Cff::read(d).is_ok() {
            o.tables_ok += 1;
        }
        if tables::cff2::Cff2::read(d).is_ok() {
            o.tables_ok += 1;
        }
    }
    // small subtable types, with their typed helpers
    r!(
        tables::layout::SequenceContext, tables::layout::ChainedSequenceContext, tables::layout::ConditionSet,
        tables::layout::Condition, tables::layout::Script, tables::layout::LangSys,
        tables::gpos::AnchorTable, tables::gpos::SinglePos, tables::gpos::PairPos, tables::gpos::MarkArray,
        tables::gpos::CursivePosFormat1, tables::gpos::MarkBasePosFormat1, tables::gpos::MarkLigPosFormat1,
        tables::gpos::MarkMarkPosFormat1, tables::gpos::PositionLookup,
        tables::gsub::SingleSubst, tables::gsub::MultipleSubstFormat1, tables::gsub::AlternateSubstFormat1,
        tables::gsub::LigatureSubstFormat1, tables::gsub::ReverseChainSingleSubstFormat1, tables::gsub::SubstitutionLookup,
        tables::colr::Paint, tables::colr::ClipList, tables::colr::ClipBox, tables::colr::ColorLine, tables::colr::VarColorLine,
        tables::colr::BaseGlyphList, tables::colr::LayerList,
        tables::gdef::AttachList, tables::gdef::LigCaretList, tables::gdef::CaretValue, tables::gdef::MarkGlyphSets,
        tables::stat::AxisValue, tables::base::BaseCoord, tables::base::MinMax, tables::base::BaseValues,
        tables::postscript::FdSelect, tables::postscript::CustomCharset,
        tables::variations::VariationRegionList,
        tables::svg::SVGDocumentList, tables::sbix::GlyphData, tables::ankr::GlyphDataEntry,
        tables::cmap::Cmap0, tables::cmap::Cmap2, tables::cmap::Cmap6, tables::cmap::Cmap8, tables::cmap::Cmap10, tables::cmap::Cmap13,
        tables::cmap::DefaultUvs, tables::cmap::NonDefaultUvs,
        tables::varc::ConditionList,
    );
    if let Some(t) = ok(o, "CoverageTable", tables::layout::CoverageTable::read(d)) {
        o.guarded("payload:coverage", |o| h_layout::coverage(o, env, &t));
    }
    if let Some(t) = ok(o, "ClassDef", tables::layout::ClassDef::read(d)) {
        o.guarded("payload:classdef", |o| h_layout::class_def(o, env, &t));
    }
    if let Some(t) = ok(o, "Device", tables::layout::Device::read(d)) {
        o.guarded("payload:device", |o| h_layout::device(o, &t));
    }
    if let Some(t) = ok(o, "DeviceOrVariationIndex", tables::layout::DeviceOrVariationIndex::read(d)) {
        o.guarded("payload:device_or_var", |o| h_layout::device_or_var(o, &t));
    }
    if let Some(t) = ok(o, "ItemVariationStore", tables::variations::ItemVariationStore::read(d)) {
        o.guarded("payload:ivs", |o| h_var::ivs(o, env, &t, &env.coords));
    }
    if let Some(t) = ok(o, "DeltaSetIndexMap", tables::variations::DeltaSetIndexMap::read(d)) {
        o.guarded("payload:dsim", |o| h_var::dsim(o, &t));
    }
    if let Some(t) = ok(o, "Glyph", tables::glyf::Glyph::read(d)) {
        o.guarded("payload:glyph", |o| h_core::glyph_helpers(o, env, &t, false));
    }
    if let Some(t) = ok(o, "CmapSubtable", tables::cmap::CmapSubtable::read(d)) {
        o.guarded("payload:cmap_subtable", |o| cmap_subtable(o, &t));
    }
    // AAT lookups and state tables
    let mut g16: Vec<u16> = vec![0, 1, 2, 3, 0x7F, 0x80, 0xFF, 0x100, 0x7FFF, 0x8000, 0x9C40, 0xC000, 0xFFFE, 0xFFFF];
    // glyph ids the table itself names (segment firsts / lasts, single glyphs, trimmed-array
    // bounds all sit in the first words), their neighbours, and ids far enough into a segment
    // that starts there for the scaled index to cross 32 Ki / 64 Ki bytes
    for w in d.as_bytes().chunks_exact(2).take(40) {
        let g = u16::from_be_bytes([w[0], w[1]]);
        for d in [0u16, 1, 0xFFFF, 16384, 32759, 32768] {
            g16.push(g.wrapping_add(d));
        }
    }
    g16.sort_unstable();
    g16.dedup();
    if let Some(t) = ok(o, "aat::LookupU16", aat::LookupU16::read(d)) {
        o.guarded("payload:aat.lookup16", |o| {
            for g in &g16 {
                o.helper("aat::Lookup::value<u16>");
                o.res(&t.value(*g));
            }
        });
    }
    if let Some(t) = ok(o, "aat::LookupU32", aat::LookupU32::read(d)) {
        o.guarded("payload:aat.lookup32", |o| {
            for g in &g16 {
                o.helper("aat::Lookup::value<u32>");
                o.res(&t.value(*g));
            }
        });
    }
    if let Some(t) = ok(o, "aat::LookupGlyphId", aat::LookupGlyphId::read(d)) {
        o.guarded("payload:aat.lookupgid", |o| {
            for g in &g16 {
                o.helper("aat::Lookup::value<GlyphId16>");
                o.res(&t.value(*g));
            }
        });
    }
    if let Some(t) = ok(o, "aat::StateTable", aat::StateTable::read(d)) {
        o.guarded("payload:aat.state", |o| {
            for g in &g16 {
                o.helper("aat::StateTable::class");
                let c = t.class(GlyphId16::new(*g));
                o.res(&c);
                for s in [0u16, 1, 2, 0xFF, 0xFFFF] {
                    o.helper("aat::StateTable::entry");
                    match t.entry(s, c.clone().unwrap_or(1)) {
                        Ok(e) => o.d.dbg(&(e.new_state, e.flags)),
                        Err(e) => o.err(&e),
                    }
                    if let Ok(e) = t.entry(s, 0xFF) {
                        o.d.dbg(&(e.new_state, e.flags));
                    }
                }
            }
        });
    }
    // (not in the typed scan: its placement-dependent panic -- a known finding --
    // would otherwise mask other differences in the determinism comparison)
    let xstate16 = if only_small { None } else { ok(o, "aat::ExtendedStateTableU16", aat::ExtendedStateTableU16::read(d)) };
    if let Some(t) = xstate16 {
        o.guarded("payload:aat.xstate16", |o| {
            for g in &g16 {
                o.helper("aat::ExtendedStateTable::class");
                o.res(&t.class(GlyphId16::new(*g)));
            }
            for s in [0u16, 1, 0xFFFF] {
                for c in [0u16, 1, 4, 0xFFFF] {
                    o.helper("aat::ExtendedStateTable::entry");
                    match t.entry(s, c) {
                        Ok(e) => o.d.dbg(&(e.new_state, e.flags, e.payload)),
                        Err(e) => o.err(&e),
                    }
                }
            }
        });
    }
}

fn cmap_subtable(o: &mut Obs, t: &tables::cmap::CmapSubtable) {
    use tables::cmap::Cmap12IterLimits;
    use tables::cmap::CmapSubtable::*;
    o.d.u32(t.language());
    match t {
        Format4(t) => {
            for cp in crate::sets::CODEPOINTS {
                o.helper("Cmap4::map_codepoint");
                o.opt(&t.map_codepoint(cp));
            }
            h_core::cmap4_iter(o, t, 3000);
        }
        Format12(t) => {
            for cp in crate::sets::CODEPOINTS {
                o.helper("Cmap12::map_codepoint");
                o.opt(&t.map_codepoint(cp));
            }
            o.helper("Cmap12::iter");
            o.d.u64(t.iter().take(3000).map(|(c, g)| c as u64 ^ ((g.to_u32() as u64) << 32)).fold(0, |a, b| a.wrapping_mul(31).wrapping_add(b)));
            for lim in [Cmap12IterLimits::default(), Cmap12IterLimits { max_char: 0xFFFF, glyph_count: 300 }] {
                h_core::cmap12_iter_with_limits(o, t, lim, 3000);
            }
        }
        Format14(t) => {
            for cp in crate::sets::CODEPOINTS.iter().take(8) {
                for s in crate::sets::SELECTORS {
                    o.helper("Cmap14::map_variant");
                    o.opt(&t.map_variant(*cp, s));
                }
            }
            h_core::cmap14_iter(o, t, 3000);
        }
        _ => {}
    }
}

/// Read `data` as the table named by `tag` with every external-argument
/// variant, and optionally as every other type.
pub fn walk_payload(data: &[u8], tag: [u8; 4], real: &RealArgs, cross: bool, cfg: &WalkCfg) -> Obs {
    let mut obs = Obs::for_cfg(cfg);
    let dummy = match FontRef::new(&EMPTY_SFNT) {
        Ok(f) => f,
        Err(_) => return obs,
    };
    let mut env = Env::new(&dummy, cfg.is_full());
    env.num_glyphs = real.num_glyphs as u32;
    env.axis_count = real.axis_count;
    env.gids = crate::sets::gid_set(env.num_glyphs, false);
    env.coords = crate::sets::coord_sets(real.axis_count, false);
    let env = &env;
    let d = FontData::new(data);
    let o = &mut obs;
    match &tag {
        b"hmtx" | b"vmtx" => {
            let n_long = if &tag == b"hmtx" { real.n_hmetrics } else { real.n_vmetrics };
            for nm in arg16(n_long) {
                for ng in arg16(real.num_glyphs) {
                    o.d.u32(((nm as u32) << 16) | ng as u32);
                    if &tag == b"hmtx" {
                        if let Some(t) = ok(o, "Hmtx::read", tables::hmtx::Hmtx::read(d, nm, ng)) {
                            o.guarded("payload:hmtx", |o| {
                                for &g in &env.gids {
                                    o.helper("Hmtx::advance");
                                    o.opt(&t.advance(g.into()));
                                    o.helper("Hmtx::side_bearing");
                                    o.opt(&t.side_bearing(g.into()));
                                }
                            });
                        }
                    } else if let Some(t) = ok(o, "Vmtx::read", tables::vmtx::Vmtx::read(d, nm, ng)) {
                        o.guarded("payload:vmtx", |o| {
                            for &g in &env.gids {
                                o.helper("Vmtx::advance");
                                o.opt(&t.advance(g.into()));
                                o.helper("Vmtx::side_bearing");
                                o.opt(&t.side_bearing(g.into()));
                            }
                        });
                    }
                }
            }
        }
        b"hdmx" => {
            for ng in arg16(real.num_glyphs) {
                if let Some(t) = ok(o, "Hdmx::read", tables::hdmx::Hdmx::read(d, ng)) {
                    o.guarded("payload:hdmx", |o| {
                        for s in [0u8, 1, 12, 255] {
                            o.helper("Hdmx::record_for_size");
                            o.d.dbg(&t.record_for_size(s).map(|r| (r.pixel_size(), r.max_width(), r.widths().len())));
                        }
                    });
                }
            }
        }
        b"sbix" => {
            for ng in arg16(real.num_glyphs) {
                if let Some(t) = ok(o, "Sbix::read", tables::sbix::Sbix::read(d, ng)) {
                    o.guarded("payload:sbix", |o| {
                        for s in t.strikes().iter().take(4).flatten() {
                            for &g in &env.gids {
                                o.helper("Strike::glyph_data");
                                match s.glyph_data(g.into()) {
                                    Ok(g) => o.d.dbg(&g.map(|g| g.data().len())),
                                    Err(e) => o.err(&e),
                                }
                            }
                        }
                    });
                }
                let _ = ok(o, "Strike::read", tables::sbix::Strike::read(d, ng));
            }
        }
        b"loca" => {
            for long in [false, true] {
                if let Some(t) = ok(o, "Loca::read", tables::loca::Loca::read(d, long)) {
                    o.helper("Loca::len");
                    o.d.u64(t.len() as u64);
                    o.d.bytes(&[t.all_offsets_are_ascending() as u8]);
                    for &g in &env.gids {
                        o.opt(&t.get_raw(g as usize));
                    }
                }
            }
        }
        b"glyf" => {
            // the payload as a glyph table addressed by a loca built from boundary offsets
            if let Ok(glyf) = tables::glyf::Glyf::read(d) {
                let len = data.len() as u32;
                let offs: Vec<u32> = vec![0, 0, 1, 2, 10, 12, len / 2, len.saturating_sub(1), len, len + 1, len, 5, u32::MAX];
                let raw: Vec<u8> = offs.iter().flat_map(|o| o.to_be_bytes()).collect();
                if let Ok(loca) = tables::loca::Loca::read(FontData::new(&raw), true) {
                    o.tables_ok += 1;
                    o.guarded("payload:glyf", |o| h_core::loca_glyf(o, env, &loca, &glyf));
                }
            }
        }
        b"cvar" | b"gvar" => {
            for ac in arg16(real.axis_count) {
                let _ = ok(o, "TupleVariationHeader::read", tables::variations::TupleVariationHeader::read(d, ac));
                let _ = ok(o, "SharedTuples::read", tables::gvar::SharedTuples::read(d, 3, ac));
            }
            if &tag == b"cvar" {
                if let Ok(cvar) = tables::cvar::Cvar::read(d) {
                    o.tables_ok += 1;
                    for ac in arg16(real.axis_count) {
                        o.helper("Cvar::variation_data");
                        match cvar.variation_data(ac) {
                            Ok(vd) => {
                                let mut k = 0u32;
                                for t in vd.tuples().take(64) {
                                    k += t.deltas().take(4096).count() as u32;
                                    o.d.u64(t.peak().len() as u64);
                                }
                                o.d.u32(k);
                            }
                            Err(e) => o.err(&e),
                        }
                        let mut buf = vec![0i32; 64];
                        for c in env.coords.iter().take(4) {
                            o.helper("Cvar::deltas");
                            o.res(&cvar.deltas(ac, c, &mut buf));
                        }
                    }
                }
            } else if let Ok(gvar) = tables::gvar::Gvar::read(d) {
                o.tables_ok += 1;
                o.guarded("payload:gvar", |o| h_var::gvar(o, env, &gvar, None));
            }
        }
        b"fvar" => {
            for ac in arg16(real.axis_count) {
                for isz in [0u16, 4, (ac as u32 * 4 + 4) as u16, (ac as u32 * 4 + 6) as u16, 0xFFFF] {
                    o.helper("InstanceRecord::read");
                    match tables::fvar::InstanceRecord::read(d, ac, isz) {
                        Ok(r) => o.d.dbg(&(r.subfamily_name_id, r.flags, r.coordinates.len(), r.post_script_name_id)),
                        Err(e) => o.err(&e),
                    }
                    let _ = ok(o, "AxisInstanceArrays::read", tables::fvar::AxisInstanceArrays::read(d, ac, ac, isz));
                }
            }
        }
        b"GPOS" | b"GSUB" | b"GDEF" => {
            for t in [b"size", b"ss01", b"cv01", b"liga"] {
                let _ = ok(o, "Feature::read", tables::layout::Feature::read(d, Tag::new(t)));
            }
            for f in [0u16, 1, 0x000F, 0x00FF, 0xFFFF] {
                use tables::gpos::{ValueFormat, ValueRecord};
                let vf = ValueFormat::from_bits_truncate(f);
                o.helper("ValueRecord::read");
                match ValueRecord::read(d, vf) {
                    Ok(v) => o.d.dbg(&v),
                    Err(e) => o.err(&e),
                }
                let _ = ok(o, "PairSet::read", tables::gpos::PairSet::read(d, vf, vf));
            }
            for mc in [0u16, 1, 2, 0xFFFF] {
                let _ = ok(o, "BaseArray::read", tables::gpos::BaseArray::read(d, mc));
                let _ = ok(o, "LigatureArray::read", tables::gpos::LigatureArray::read(d, mc));
                let _ = ok(o, "Mark2Array::read", tables::gpos::Mark2Array::read(d, mc));
            }
        }
        b"CBLC" | b"EBLC" => {
            for n in [0u32, 1, 2, 0xFFFF, u32::MAX] {
                let _ = ok(o, "IndexSubtableList::read", tables::bitmap::IndexSubtableList::read(d, n));
            }
            for (l, f) in [(0u16, 0u16), (1, 0), (0, 1), (0xFFFF, 0), (0, 0xFFFF), (real.num_glyphs, 0)] {
                let _ = ok(o, "IndexSubtable::read", <tables::bitmap::IndexSubtable as read_fonts::FontReadWithArgs>::read_with_args(d, &(GlyphId16::new(l), GlyphId16::new(f))));
            }
        }
        b"IFT " | b"IFTX" => {
            for m in [0u16, 1, 255, 256, 0xFFFF] {
                let _ = ok(o, "FeatureMap::read", tables::ift::FeatureMap::read(d, m));
                let _ = ok(o, "GlyphMap::read", tables::ift::GlyphMap::read(d, read_fonts::types::Uint24::new(300), m));
            }
        }
        b"CFF " | b"CFF2" => {
            o.guarded("payload:postscript", |o| h_ps::raw_postscript(o, env, data));
        }
        b"meta" => {
            for t in [b"dlng", b"slng", b"appl"] {
                use tables::meta::Metadata;
                use read_fonts::FontReadWithArgs;
                for len in [0u32, 1, data.len() as u32, data.len() as u32 + 1, u32::MAX] {
                    o.helper("Metadata::read_with_args");
                    match Metadata::read_with_args(d, &(Tag::new(t), len)) {
                        Ok(Metadata::ScriptLangTags(v)) => {
                            o.drain("Metadata::ScriptLangTags.iter", "data_length", (len as u64).min(data.len() as u64), 4096, v.iter(), |_, _| {});
                        }
                        Ok(Metadata::Other(b)) => o.d.u64(b.len() as u64),
                        Err(e) => o.err(&e),
                    }
                }
            }
        }
        b"post" => {
            use tables::post::PString;
            o.helper("PString::read");
            match PString::read(d) {
                Ok(s) => o.d.str(s.as_str()),
                Err(e) => o.err(&e),
            }
        }
        _ => {}
    }
    o.guarded("payload:noargs", |o| read_all_noargs(o, env, d, !cross));
    if cross && (&tag != b"CFF " && &tag != b"CFF2") && data.len() <= 4096 {
        o.guarded("payload:postscript", |o| h_ps::raw_postscript(o, env, data));
    }
    obs
}

/// Typed scan: read small subtable types at every 2-byte offset of `data`
/// (up to `max_offsets`), with their typed helpers.
pub fn scan_payload(data: &[u8], max_offsets: usize, real: &RealArgs, cfg: &WalkCfg) -> Obs {
    let mut o = Obs::for_cfg(cfg);
    let dummy = match FontRef::new(&EMPTY_SFNT) {
        Ok(f) => f,
        Err(_) => return o,
    };
    let mut env = Env::new(&dummy, false);
    env.num_glyphs = real.num_glyphs as u32;
    env.axis_count = real.axis_count;
    env.gids = vec![0, 1, real.num_glyphs as u32, 0xFFFF, u32::MAX];
    env.coords = crate::sets::coord_sets(real.axis_count.min(4), false);
    env.coords.truncate(4);
    let env = &env;
    let d = FontData::new(data);
    let n = data.len();
    let total = n / 2 + 1;
    let stride = (total / max_offsets.max(1)).max(1);
    let mut i = 0usize;
    while i < total {
        let off = i * 2;
        i += if i < 256 { 1 } else { stride };
        let Some(sub) = d.split_off(off) else { break };
        if o.over_budget() {
            break;
        }
        o.d.u64(off as u64);
        o.guarded("scan", |o| read_all_noargs(o, env, sub, true));
    }
    o
}
