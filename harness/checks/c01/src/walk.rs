//! Generic walker over `read_fonts::traversal`: visits every generated getter
//! of every table reachable from a root via `get_field`, resolving offsets,
//! records and arrays.

use crate::obs::Obs;
use read_fonts::traversal::{Field, FieldType, SomeArray, SomeTable};

pub const MAX_DEPTH: u32 = 32;
/// dense prefix of every array
pub const ARRAY_DENSE: usize = 256;
/// number of strided samples beyond the dense prefix
pub const ARRAY_STRIDED: usize = 48;

pub fn walk_table<'a>(o: &mut Obs, t: &(dyn SomeTable<'a> + 'a), depth: u32) {
    let name = t.type_name();
    o.d.str(name);
    o.type_seen(name);
    o.nodes += 1;
    if depth >= MAX_DEPTH {
        o.d.str("<depth>");
        return;
    }
    let mut idx = 0usize;
    loop {
        if o.over_budget() {
            return;
        }
        let Some(Field { name, value }) = t.get_field(idx) else { break };
        o.fields += 1;
        o.d.str(name);
        walk_value(o, value, depth + 1, true);
        idx += 1;
        if idx > 4096 {
            // no table has that many fields: a getter that never returns None
            // would otherwise loop forever here (would be a library bug).
            o.d.str("<fields>");
            break;
        }
    }
    // out-of-range field indices must answer None
    let a = t.get_field(idx + 1).is_none();
    let b = t.get_field(usize::MAX).is_none();
    o.d.bytes(&[a as u8, b as u8]);
}

fn walk_value<'a>(o: &mut Obs, v: FieldType<'a>, depth: u32, fmt_ints: bool) {
    match v {
        FieldType::I8(x) => int(o, 1, x as i64, fmt_ints),
        FieldType::U8(x) => int(o, 2, x as i64, fmt_ints),
        FieldType::I16(x) => int(o, 3, x as i64, fmt_ints),
        FieldType::U16(x) => int(o, 4, x as i64, fmt_ints),
        FieldType::I32(x) => int(o, 5, x as i64, fmt_ints),
        FieldType::U32(x) => int(o, 6, x as i64, fmt_ints),
        // every non-primitive scalar goes through its Debug impl
        v @ (FieldType::I24(_)
        | FieldType::U24(_)
        | FieldType::Tag(_)
        | FieldType::FWord(_)
        | FieldType::UfWord(_)
        | FieldType::MajorMinor(_)
        | FieldType::Version16Dot16(_)
        | FieldType::F2Dot14(_)
        | FieldType::Fixed(_)
        | FieldType::LongDateTime(_)
        | FieldType::GlyphId16(_)
        | FieldType::NameId(_)
        | FieldType::BareOffset(_)
        | FieldType::Unknown) => {
            o.d.bytes(&[7]);
            o.d.dbg(&v);
        }
        FieldType::ResolvedOffset(r) => {
            o.d.bytes(&[8]);
            o.d.u32(r.offset.to_u32());
            match r.target {
                Ok(t) => walk_table(o, &t, depth),
                Err(e) => o.err(&e),
            }
        }
        FieldType::StringOffset(s) => {
            o.d.bytes(&[9]);
            o.d.u32(s.offset.to_u32());
            match s.target {
                Ok(t) => {
                    let mut n = 0u32;
                    for c in t.iter_chars().take(8192) {
                        o.d.u32(c as u32);
                        n += 1;
                    }
                    o.d.u32(n);
                    o.type_seen("<string>");
                }
                Err(e) => o.err(&e),
            }
        }
        FieldType::ArrayOffset(a) => {
            o.d.bytes(&[10]);
            o.d.u32(a.offset.to_u32());
            match a.target {
                Ok(t) => walk_array(o, &t, depth),
                Err(e) => o.err(&e),
            }
        }
        FieldType::Record(r) => {
            o.d.bytes(&[11]);
            walk_table(o, &r, depth);
        }
        FieldType::Array(a) => {
            o.d.bytes(&[12]);
            walk_array(o, &a, depth);
        }
    }
}

#[inline]
fn int(o: &mut Obs, kind: u8, v: i64, fmt: bool) {
    o.d.bytes(&[kind]);
    if fmt {
        // exercise Debug formatting of the value as the traversal printer would
        o.d.dbg(&v);
    } else {
        o.d.i64(v);
    }
}

fn walk_array<'a>(o: &mut Obs, a: &(dyn SomeArray<'a> + 'a), depth: u32) {
    let name = a.type_name();
    o.d.str(name);
    o.type_seen(name);
    o.nodes += 1;
    let len = a.len();
    o.d.u64(len as u64);
    o.d.bytes(&[a.is_empty() as u8]);
    if depth >= MAX_DEPTH {
        o.d.str("<depth>");
        return;
    }
    let dense = len.min(ARRAY_DENSE);
    for i in 0..dense {
        if o.over_budget() {
            return;
        }
        elem(o, a, i, depth);
    }
    if len > dense {
        let rest = len - dense;
        let stride = rest / ARRAY_STRIDED + 1;
        let mut i = dense;
        while i < len {
            if o.over_budget() {
                return;
            }
            elem(o, a, i, depth);
            i += stride;
        }
        elem(o, a, len - 1, depth);
    }
    // boundary indices
    for i in [len, len.wrapping_add(1), usize::MAX, usize::MAX / 2, u32::MAX as usize, 0x10000] {
        if i < len {
            continue;
        }
        match a.get(i) {
            None => o.d.bytes(&[0]),
            Some(v) => {
                // an element past len(): legal for lazily counted arrays, digest it
                o.d.bytes(&[1]);
                o.fields += 1;
                walk_value(o, v, depth + 1, false);
            }
        }
    }
}

#[inline]
fn elem<'a>(o: &mut Obs, a: &(dyn SomeArray<'a> + 'a), i: usize, depth: u32) {
    match a.get(i) {
        Some(v) => {
            o.fields += 1;
            // Debug-format the first few primitive elements, digest the rest by value
            walk_value(o, v, depth + 1, i < 4);
        }
        None => o.d.bytes(&[0xEE]),
    }
}
