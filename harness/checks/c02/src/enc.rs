//! A real brotli ENCODER (the C library, through `brotlic-sys`, which the
//! decoder crate links anyway) so that the AddressSanitizer slice can feed the
//! C decoder genuinely compressed streams (Huffman-coded meta-blocks, backward
//! references, static-dictionary words, references into a raw shared
//! dictionary) instead of stored meta-blocks only. Harness code: it is only
//! used while `compress_mode()` is on (profile "asan").

use brotlic_sys::*;
use std::ptr;
use std::sync::atomic::{AtomicBool, Ordering};
use vf_core::Rng;

static COMPRESS: AtomicBool = AtomicBool::new(false);

pub fn set_compress_mode(on: bool) {
    COMPRESS.store(on, Ordering::Relaxed);
}

pub fn compress_mode() -> bool {
    COMPRESS.load(Ordering::Relaxed)
}

/// Compress `data` (quality 0..=11, lgwin 10..=24), optionally against a raw
/// (LZ77 prefix) shared dictionary. `None` if the encoder refuses.
pub fn brotli_compress(data: &[u8], dict: Option<&[u8]>, quality: u32, lgwin: u32) -> Option<Vec<u8>> {
    let dict = dict.filter(|d| !d.is_empty());
    // SAFETY: plain use of the C API as documented in encode.h; `data` and `dict` outlive the
    // encoder instance and the prepared dictionary, which are both destroyed before returning.
    unsafe {
        let st = BrotliEncoderCreateInstance(None, None, ptr::null_mut());
        if st.is_null() {
            return None;
        }
        BrotliEncoderSetParameter(st, BrotliEncoderParameter_BROTLI_PARAM_QUALITY, quality.min(11));
        BrotliEncoderSetParameter(st, BrotliEncoderParameter_BROTLI_PARAM_LGWIN, lgwin.clamp(10, 24));
        BrotliEncoderSetParameter(st, BrotliEncoderParameter_BROTLI_PARAM_SIZE_HINT, data.len().min(u32::MAX as usize) as u32);
        let mut prepared: *mut BrotliEncoderPreparedDictionary = ptr::null_mut();
        let mut ok = true;
        if let Some(d) = dict {
            prepared = BrotliEncoderPrepareDictionary(
                BrotliSharedDictionaryType_BROTLI_SHARED_DICTIONARY_RAW,
                d.len(),
                d.as_ptr(),
                BROTLI_MAX_QUALITY as _,
                None,
                None,
                ptr::null_mut(),
            );
            ok = !prepared.is_null() && BrotliEncoderAttachPreparedDictionary(st, prepared) != 0;
        }
        let mut out: Vec<u8> = Vec::with_capacity(data.len() / 2 + 64);
        if ok {
            let mut avail_in = data.len();
            let mut next_in = data.as_ptr();
            let mut buf = vec![0u8; 1 << 16];
            loop {
                let mut avail_out = buf.len();
                let mut next_out = buf.as_mut_ptr();
                let r = BrotliEncoderCompressStream(
                    st,
                    BrotliEncoderOperation_BROTLI_OPERATION_FINISH,
                    &mut avail_in,
                    &mut next_in,
                    &mut avail_out,
                    &mut next_out,
                    ptr::null_mut(),
                );
                if r == 0 {
                    ok = false;
                    break;
                }
                let n = buf.len() - avail_out;
                out.extend_from_slice(&buf[..n]);
                if BrotliEncoderIsFinished(st) != 0 {
                    break;
                }
                if n == 0 && avail_in == 0 && BrotliEncoderHasMoreOutput(st) == 0 {
                    // no progress possible: give up rather than spin
                    ok = false;
                    break;
                }
            }
        }
        BrotliEncoderDestroyInstance(st);
        if !prepared.is_null() {
            BrotliEncoderDestroyPreparedDictionary(prepared);
        }
        ok.then_some(out)
    }
}

const WORDS: &[&str] = &[
    "the ", "and ", "of ", "information", " font ", "table", "glyph", "This is ", "incremental", " transfer",
    "https://", ".com/", "<div class=\"", "\">\n", "0123456789", "The quick brown fox ", "\0\0\0\0", "\u{1}\0\u{2}\0",
];

/// Compressible bytes: a mix of random bytes, runs, copies of earlier output
/// (backward references), copies out of `base` (shared-dictionary references)
/// and English / markup fragments (static dictionary + transforms).
pub fn structured_bytes(rng: &mut Rng, len: usize, base: Option<&[u8]>) -> Vec<u8> {
    let mut v: Vec<u8> = Vec::with_capacity(len);
    let base = base.filter(|b| !b.is_empty());
    while v.len() < len {
        let room = len - v.len();
        let cap = match rng.below(4) {
            0 => 4,
            1 => 24,
            2 => 200,
            _ => 3000,
        };
        let seg = (1 + rng.usize(cap)).min(room);
        match rng.below(8) {
            0 => v.extend(rng.bytes(seg)),
            1 => {
                let b = rng.u32() as u8;
                v.extend(std::iter::repeat(b).take(seg));
            }
            2 | 3 if !v.is_empty() => {
                // overlapping copies allowed, like an LZ77 match
                let dist = 1 + rng.usize(v.len());
                for _ in 0..seg {
                    let b = v[v.len() - dist];
                    v.push(b);
                }
            }
            4 | 5 if base.is_some() => {
                let b = base.unwrap();
                let st = rng.usize(b.len());
                let n = seg.min(b.len() - st);
                v.extend_from_slice(&b[st..st + n]);
            }
            6 => {
                let w = rng.pick(WORDS).as_bytes();
                v.extend_from_slice(&w[..w.len().min(room)]);
            }
            _ => {
                // slowly varying values (like offsets / coordinates)
                let mut x = rng.u32() as u16;
                for i in 0..seg {
                    if i % 2 == 0 {
                        x = x.wrapping_add(rng.below(5) as u16);
                        v.push((x >> 8) as u8);
                    } else {
                        v.push(x as u8);
                    }
                }
            }
        }
    }
    v.truncate(len);
    v
}
