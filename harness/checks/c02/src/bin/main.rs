fn main() {
    // The deterministic composite-DAG probe needs ~4-6 s of cpu per run; on a heavily
    // loaded machine that can be > 60 s of wall clock, so give the (inconclusive-only)
    // wall-clock watchdog more room unless the caller chose a limit.
    if std::env::var_os("VF_CASE_WALL_LIMIT_S").is_none() {
        std::env::set_var("VF_CASE_WALL_LIMIT_S", "150");
    }
    vf_core::main_with("C02", vf_c02::run, vf_c02::REPLAY);
}
