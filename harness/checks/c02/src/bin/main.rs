fn main() {
    vf_core::main_with("C02", vf_c02::run, vf_c02::REPLAY);
}
