//! IFT client totality: (font, subset definition, IFT/IFTX tables, patch bytes,
//! applied map, decoder) tuples. Starts from font-test-data's IFT builders and
//! from small raw-byte generators (format-2 maps with hostile URI templates /
//! string ids / child indices; table-keyed and glyph-keyed patches), mutates
//! table and patch bytes, and drives `intersecting_patches`,
//! `PatchGroup::select_next_patches`, `.uris()`, `apply_next_patches[_with_decoder]`
//! with the pass-through decoder, a fault-injecting decoder and the real C
//! brotli decoder.

use crate::drive::variant_name;
use crate::ttgen::{simple_glyph, TtFont};
use crate::Items;
use font_test_data::ift as td;
use incremental_font_transfer::{
    patch_group::{PatchGroup, UriStatus},
    patchmap::{intersecting_patches, DesignSpace, FeatureSet, PatchFormat, SubsetDefinition},
};
use read_fonts::{
    collections::{IntSet, RangeSet},
    types::{Fixed, Tag},
    FontRef,
};
use serde_json::json;
use shared_brotli_patch_decoder::{decode_error::DecodeError, BuiltInBrotliDecoder, NoopBrotliDecoder, SharedBrotliDecoder};
use std::cell::{Cell, RefCell};
use std::collections::{BTreeMap, BTreeSet, HashMap};
use vf_core::gen::{build_sfnt, split_tables};
use vf_core::{fnv64, Ctx, Digest, Rng};

pub const MAX_DECODE: usize = 16 << 20;

// ---------------------------------------------------------------- brotli "stored" encoder

struct BitW {
    out: Vec<u8>,
    cur: u32,
    n: u32,
}
impl BitW {
    fn put(&mut self, v: u32, bits: u32) {
        for i in 0..bits {
            self.cur |= ((v >> i) & 1) << self.n;
            self.n += 1;
            if self.n == 8 {
                self.out.push(self.cur as u8);
                self.cur = 0;
                self.n = 0;
            }
        }
    }
    fn align(&mut self) {
        if self.n > 0 {
            self.out.push(self.cur as u8);
            self.cur = 0;
            self.n = 0;
        }
    }
}

/// A valid brotli stream made of uncompressed meta-blocks (RFC 7932 §9.2).
pub fn brotli_stored(data: &[u8]) -> Vec<u8> {
    let mut w = BitW { out: vec![], cur: 0, n: 0 };
    w.put(0, 1); // WBITS = 16
    for chunk in data.chunks(65536) {
        w.put(0, 1); // ISLAST = 0
        w.put(0, 2); // MNIBBLES = 4
        w.put(chunk.len() as u32 - 1, 16);
        w.put(1, 1); // ISUNCOMPRESSED
        w.align();
        w.out.extend_from_slice(chunk);
    }
    w.put(1, 1); // ISLAST
    w.put(1, 1); // ISLASTEMPTY
    w.align();
    w.out
}

/// The stream handed to the real C decoder for `data`: stored meta-blocks in the normal profiles; in the
/// ASan slice (`enc::compress_mode()`) a stream compressed by the C encoder (quality / window from a hash of
/// the data), against the raw shared dictionary `dict` when one is given. One in eight stays stored.
pub fn brotli_real(data: &[u8], dict: Option<&[u8]>) -> Vec<u8> {
    if crate::enc::compress_mode() {
        let h = fnv64(data) ^ dict.map(|d| fnv64(d).rotate_left(9)).unwrap_or(0);
        if h % 8 != 7 || dict.is_some() {
            let q = [0u32, 1, 2, 4, 5, 9, 10, 11][(h >> 8) as usize % 8];
            let lgwin = [10u32, 11, 14, 16, 18, 22, 24][(h >> 16) as usize % 7];
            if let Some(v) = crate::enc::brotli_compress(data, dict, q, lgwin) {
                return v;
            }
        }
    }
    brotli_stored(data)
}

// ---------------------------------------------------------------- decoders

/// The real decoder, refusing (and noting) requests above 16 MiB.
struct Capped<'a> {
    over: &'a Cell<u64>,
    calls: &'a Cell<u64>,
}
impl SharedBrotliDecoder for Capped<'_> {
    fn decode(&self, encoded: &[u8], dict: Option<&[u8]>, max: usize) -> Result<Vec<u8>, DecodeError> {
        self.calls.set(self.calls.get() + 1);
        if max > MAX_DECODE {
            self.over.set(self.over.get() + 1);
            return Err(DecodeError::MaxSizeExceeded);
        }
        BuiltInBrotliDecoder.decode(encoded, dict, max)
    }
}

/// Fault injection at the public decoder trait.
struct Faulty<'a> {
    mode: u8,
    fail_on: u64,
    calls: &'a Cell<u64>,
    injected: &'a Cell<u64>,
    junk: Vec<u8>,
}
impl SharedBrotliDecoder for Faulty<'_> {
    fn decode(&self, encoded: &[u8], _dict: Option<&[u8]>, max: usize) -> Result<Vec<u8>, DecodeError> {
        let k = self.calls.get();
        self.calls.set(k + 1);
        let max = max.min(MAX_DECODE);
        let pass = || if encoded.len() <= max { Ok(encoded.to_vec()) } else { Err(DecodeError::MaxSizeExceeded) };
        if k < self.fail_on {
            return pass();
        }
        self.injected.set(self.injected.get() + 1);
        match self.mode {
            0 => Err(DecodeError::InitFailure),
            1 => Err(DecodeError::InvalidStream),
            2 => Err(DecodeError::InvalidDictionary),
            3 => Err(DecodeError::MaxSizeExceeded),
            4 => Err(DecodeError::ExcessInputData),
            5 => Err(DecodeError::IoError(std::io::ErrorKind::Other)),
            6 => Ok(vec![]),
            7 => Ok(vec![0xFF; max.min(4096)]),
            8 => Ok(vec![0; max.min(1 << 16) + 7]), // longer than allowed
            9 => Ok(encoded.iter().take(encoded.len() / 2).copied().collect()),
            10 => Ok(self.junk.clone()),
            11 => Ok(vec![1, 2, 3, 4, 5]),
            _ => pass(),
        }
    }
}

pub const N_FAULT_MODES: u8 = 12;

// ---------------------------------------------------------------- table / patch generators

fn cid(b: &[u8]) -> [u8; 16] {
    let mut c = [0u8; 16];
    if b.len() >= 21 {
        c.copy_from_slice(&b[5..21]);
    }
    c
}

const TEMPLATES: [&[u8]; 34] = [
    b"",
    b"{id}",
    b"{id64}",
    b"foo/{id}",
    b"//foo.bar/{id}",
    b"{d1}{d2}{d3}{d4}",
    b"{d1}/{d2}/{d3}/{d4}/{id}/{id64}",
    b"//foo/{id",
    b"{",
    b"}",
    b"{}",
    b"{idx}",
    b"{d5}",
    b"{d0}",
    b"{+id}",
    b"{id,id64}",
    b"{id:3}",
    b"{id*}",
    b"%",
    b"%4",
    b"%zz",
    b"%41%2f",
    b"\xc9\xa4{id}",
    b"\xff\xfe{id}",
    b"\0{id}\0",
    b"{I}",
    b"{iD}",
    b" {id} ",
    b"{id64",
    b"{{id}}",
    b"{id}}",
    b"a{id}b{id}c{id64}d{id64}",
    b"{id6}",
    b"{d}",
];

pub fn template_for(rng: &mut Rng) -> Vec<u8> {
    template(rng)
}

fn template(rng: &mut Rng) -> Vec<u8> {
    match rng.usize(12) {
        0 => vec![b'a'; *rng.pick(&[255usize, 256, 4096, 65535])],
        1 => {
            let mut v = vec![];
            for _ in 0..*rng.pick(&[10usize, 100, 1000, 8000]) {
                v.extend_from_slice(*rng.pick(&[&b"{id}"[..], b"{id64}", b"{d1}", b"%41", b"/"]));
            }
            v
        }
        2 if rng.chance(1, 3) => { let k = rng.usize(24); rng.bytes(k) }
        _ => {
            if rng.bool() {
                rng.pick(&TEMPLATES[1..7]).to_vec()
            } else {
                rng.pick(&TEMPLATES).to_vec()
            }
        }
    }
}

fn u24(v: &mut Vec<u8>, x: u32) {
    v.extend_from_slice(&x.to_be_bytes()[1..]);
}

/// A format-2 patch map from a small grammar (mostly well-formed, hostile values).
pub fn gen_format2(rng: &mut Rng, compat: u32, shape: &mut String) -> Vec<u8> {
    let n = *rng.pick(&[0usize, 1, 2, 3, 3, 6, 6, 12, 40, 300]);
    let string_ids = rng.chance(1, 3);
    let tpl = template(rng);
    shape.push_str(&format!("fmt2(n={},strids={},tpl={});", n, string_ids, String::from_utf8_lossy(&tpl[..tpl.len().min(24)]).replace('|', "/")));
    let mut entries = vec![];
    let mut strings = vec![];
    // the more entries, the rarer a hostile value per entry (one bad entry fails the whole map)
    let hd = n as u64 + 3;
    for i in 0..n {
        let mut flags = 0u8;
        let mut body = vec![];
        if rng.chance(1, 3) {
            flags |= 1;
            let fc = *rng.pick(&[0u8, 1, 2, 5]);
            body.push(fc);
            for _ in 0..fc {
                body.extend_from_slice(*rng.pick(&[b"liga", b"smcp", b"rlig", b"\0\0\0\0", b"zzzz"]));
            }
            let dc = *rng.pick(&[0u16, 1, 2, 3]);
            body.extend_from_slice(&dc.to_be_bytes());
            for _ in 0..dc {
                body.extend_from_slice(*rng.pick(&[b"wght", b"wdth", b"opsz"]));
                let mut a = *rng.pick(&[0u32, 0x8000, 0x10000, 0x00C80000, 0x80000000, 0x7FFFFFFF, 0xFFFFFFFF, 0x02BC0000]);
                let mut b = *rng.pick(&[0u32, 0x8000, 0x10000, 0x00C80000, 0x80000000, 0x7FFFFFFF, 0xFFFFFFFF, 0x02BC0000]);
                if (a as i32) > (b as i32) && !rng.chance(1, hd) {
                    std::mem::swap(&mut a, &mut b);
                }
                body.extend_from_slice(&a.to_be_bytes());
                body.extend_from_slice(&b.to_be_bytes());
            }
        }
        if rng.chance(1, 3) && (i > 0 || rng.chance(1, hd)) {
            flags |= 2;
            let cc = *rng.pick(&[0u8, 1, 2, 4, 0x81, 0x80, 0xFF]);
            body.push(cc);
            for _ in 0..(cc & 0x7F).min(6) {
                let rnd = rng.usize(n.max(1));
                let prior = rng.usize(i.max(1));
                let target = if rng.chance(1, hd) { *rng.pick(&[i, i + 1, n, 0xFFFFFF, rnd]) } else { *rng.pick(&[0usize, prior, prior, i.saturating_sub(1)]) };
                u24(&mut body, target as u32);
            }
        }
        if rng.chance(1, 2) {
            flags |= 4;
            if string_ids {
                let l = if rng.chance(1, hd) { *rng.pick(&[100u16, 0xFFFF]) } else { *rng.pick(&[0u16, 1, 3, 4]) };
                body.extend_from_slice(&l.to_be_bytes());
                let k = (l as usize).min(8);
                strings.extend(rng.bytes(k));
            } else {
                let d = if rng.chance(1, hd) { *rng.pick(&[-1i32, 0x7FFFFF, -0x800000, 0x400000, -2]) } else { *rng.pick(&[0i32, 1, 2, 5, 4]) };
                u24(&mut body, d as u32 & 0xFFFFFF);
            }
        }
        if rng.chance(1, 4) {
            flags |= 8;
            body.push(if rng.chance(1, hd) { *rng.pick(&[0u8, 4, 255]) } else { *rng.pick(&[1u8, 2, 3]) });
        }
        match rng.usize(5) {
            0 => {}
            1 | 2 => {
                flags |= 0x10;
                sparse_set(&mut body, rng, hd);
            }
            3 => {
                flags |= 0x20;
                body.extend_from_slice(&(*rng.pick(&[0u16, 5, 0xFFFF, 0x8000])).to_be_bytes());
                sparse_set(&mut body, rng, hd);
            }
            _ => {
                flags |= 0x30;
                u24(&mut body, *rng.pick(&[0u32, 5, 0x10FFFF, 0x110000, 0xFFFFFF]));
                sparse_set(&mut body, rng, hd);
            }
        }
        if rng.chance(1, 8) {
            flags |= 0x40;
        }
        if rng.chance(1, 30) {
            flags |= 0x80;
        }
        entries.push(flags);
        entries.extend(body);
    }
    let mut t = vec![2u8, 0, 0, 0, 0];
    for i in 0..4u32 {
        t.extend_from_slice(&(compat + i).to_be_bytes());
    }
    t.push(if rng.chance(1, 20) { *rng.pick(&[0u8, 4, 255]) } else { *rng.pick(&[1u8, 2, 3, 3]) });
    let cnt = if rng.chance(1, 8) { *rng.pick(&[0u32, n as u32 + 1, 0xFFFFFF, n as u32 * 2]) } else { n as u32 };
    u24(&mut t, cnt);
    let entries_off_pos = t.len();
    t.extend_from_slice(&[0; 4]);
    let str_off_pos = t.len();
    t.extend_from_slice(&[0; 4]);
    t.extend_from_slice(&(tpl.len().min(65535) as u16).to_be_bytes());
    t.extend_from_slice(&tpl[..tpl.len().min(65535)]);
    let eo = t.len() as u32;
    t[entries_off_pos..entries_off_pos + 4].copy_from_slice(&eo.to_be_bytes());
    t.extend(entries);
    if string_ids {
        let so = t.len() as u32;
        t[str_off_pos..str_off_pos + 4].copy_from_slice(&so.to_be_bytes());
        t.extend(strings);
    }
    t
}

fn sparse_set(body: &mut Vec<u8>, rng: &mut Rng, hd: u64) {
    let k = if rng.chance(1, hd) { *rng.pick(&[2usize, 3, 4]) } else { *rng.pick(&[0usize, 0, 1, 5]) };
    match k {
        0 => body.extend_from_slice(&[0b00001101, 0b00000011, 0b00110001]),
        5 => body.extend_from_slice(&[0b00001110, 0xFF, 0xFF, 0xFF, 0xFF]), // bf 8, height 3... a dense low range
        1 => body.push(0), // height 0, branch factor 2: empty set
        2 => {
            // deep tree header with few bytes following
            body.push(*rng.pick(&[0b01111111u8, 0b01111100, 0b00011111, 0xFF, 0x80]));
            { let k = rng.usize(6); body.extend(rng.bytes(k)); }
        }
        3 => {
            // all-ones nodes: large sets
            body.push(*rng.pick(&[0b00010111u8, 0b00001110, 0b00010001]));
            body.extend(vec![0xFF; rng.usize(40)]);
        }
        _ => {
            { let k = 1 + rng.usize(5); body.extend(rng.bytes(k)); }
        }
    }
}

/// GlyphPatches payload (uncompressed) from a grammar.
pub fn gen_glyph_patches(rng: &mut Rng, wide: bool, shape: &mut String) -> Vec<u8> {
    let gc = *rng.pick(&[0usize, 1, 2, 5, 15, 16, 100]);
    let tags_all: [&[u8; 4]; 7] = [b"glyf", b"gvar", b"CFF ", b"CFF2", b"loca", b"zzzz", b"IFT "];
    let tc = *rng.pick(&[0usize, 1, 1, 2, 3]);
    shape.push_str(&format!("glyphpatches(g={},t={},wide={});", gc, tc, wide));
    let mut gids: Vec<u32> = (0..gc).map(|_| { let r = rng.below(20) as u32; *rng.pick(&[0u32, 1, 2, 7, 8, 13, 14, 15, 16, 0xFFFF, r]) }).collect();
    if !rng.chance(1, 5) {
        gids.sort_unstable();
        if rng.chance(3, 4) {
            gids.dedup();
        }
    }
    let gc = gids.len();
    let mut tags: Vec<&[u8; 4]> = (0..tc).map(|_| *rng.pick(&tags_all)).collect();
    if !rng.chance(1, 5) {
        tags.sort();
        tags.dedup();
    }
    let tc = tags.len();
    let mut p = vec![];
    let declared_gc = if rng.chance(1, 10) { *rng.pick(&[0u32, gc as u32 + 1, 0xFFFFFFFF, 0x7FFFFFFF]) } else { gc as u32 };
    p.extend_from_slice(&declared_gc.to_be_bytes());
    p.push(if rng.chance(1, 10) { *rng.pick(&[0u8, 255, tc as u8 + 1]) } else { tc as u8 });
    for g in &gids {
        if wide {
            u24(&mut p, *g & 0xFFFFFF);
        } else {
            p.extend_from_slice(&(*g as u16).to_be_bytes());
        }
    }
    for t in &tags {
        p.extend_from_slice(*t);
    }
    let n_off = gc * tc + 1;
    let data_start = p.len() + 4 * n_off;
    let mut off = data_start as u32;
    let mut blobs = vec![];
    for _ in 0..n_off {
        let o = match rng.usize(14) {
            0 => 0,
            1 => 0xFFFFFFFF,
            2 => off.wrapping_sub(3),
            _ => off,
        };
        p.extend_from_slice(&o.to_be_bytes());
        let l = *rng.pick(&[0usize, 1, 2, 3, 4, 6, 11, 64]);
        blobs.extend(rng.bytes(l));
        off += l as u32;
    }
    p.extend(blobs);
    p
}

/// A glyph-keyed patch: header + stream (already "compressed" by `enc`).
pub fn glyph_keyed_patch(compat: &[u8; 16], wide: bool, payload: &[u8], max_len: u32, enc: impl Fn(&[u8]) -> Vec<u8>) -> Vec<u8> {
    let mut p = b"ifgk".to_vec();
    p.extend_from_slice(&[0; 4]);
    p.push(wide as u8);
    p.extend_from_slice(compat);
    p.extend_from_slice(&max_len.to_be_bytes());
    p.extend(enc(payload));
    p
}

/// A table-keyed patch from a grammar.
pub fn gen_table_keyed(rng: &mut Rng, compat: &[u8; 16], enc: &dyn Fn(&[u8], Option<&[u8]>) -> Vec<u8>, shape: &mut String) -> Vec<u8> {
    let n = *rng.pick(&[0usize, 1, 2, 3, 5, 20]);
    shape.push_str(&format!("tablekeyed(n={});", n));
    let tags: [&[u8; 4]; 12] = [b"tab1", b"tab2", b"tab3", b"glyf", b"loca", b"head", b"maxp", b"IFT ", b"IFTX", b"zzzz", b"cmap", b"CFF "];
    let mut patches: Vec<Vec<u8>> = vec![];
    let mut chosen: Vec<&[u8; 4]> = (0..n).map(|_| *rng.pick(&tags)).collect();
    if !rng.chance(1, 4) {
        chosen.sort();
        chosen.dedup();
    }
    for t in &chosen {
        let mut tp = t.to_vec();
        let flags = *rng.pick(&[0u8, 1, 1, 2, 3, 0x80]);
        tp.push(flags);
        let payload: Vec<u8> = match rng.usize(5) {
            0 => vec![],
            1 => b"hijkabcdeflmnohijkabcdeflmno\n".to_vec(),
            2 => { let k = *rng.pick(&[1usize, 12, 54, 600]); rng.bytes(k) }
            3 => {
                // a plausible replacement IFT table (format 2, no entries)
                let mut s = String::new();
                { let c = rng.u32(); gen_format2(rng, c, &mut s) }
            }
            _ => vec![0u8; *rng.pick(&[4usize, 100, 70_000])],
        };
        let ml = match rng.usize(8) {
            0 => 0,
            1 => payload.len().saturating_sub(1) as u32,
            2 => 0xFFFFFFFF,
            3 => MAX_DECODE as u32,
            4 => MAX_DECODE as u32 + 1,
            _ => payload.len() as u32 + rng.below(3) as u32,
        };
        tp.extend_from_slice(&ml.to_be_bytes());
        if flags & 2 == 0 || rng.bool() {
            // a diff entry (flags 0) against the small test tables of base font kind 0 may really use the
            // base table as shared dictionary (only the ASan slice's encoder looks at the hint)
            let hint: Option<&[u8]> = match (flags & 1, &t[..]) {
                (0, b"tab1") | (0, b"tab4") => Some(b"abcdef\n"),
                (0, b"tab2") | (0, b"tab5") => Some(b"foobar\n"),
                _ => None,
            };
            tp.extend(enc(&payload, hint));
        }
        patches.push(tp);
    }
    let mut p = b"iftk".to_vec();
    p.extend_from_slice(&[0; 4]);
    p.extend_from_slice(compat);
    let cnt = if rng.chance(1, 10) { *rng.pick(&[0u16, patches.len() as u16 + 1, 0xFFFF]) } else { patches.len() as u16 };
    p.extend_from_slice(&cnt.to_be_bytes());
    let mut off = (p.len() + 4 * (patches.len() + 1)) as u32;
    for tp in &patches {
        let o = if rng.chance(1, 20) { *rng.pick(&[0u32, 0xFFFFFFFF, off.wrapping_sub(1), off + 1]) } else { off };
        p.extend_from_slice(&o.to_be_bytes());
        off += tp.len() as u32;
    }
    p.extend_from_slice(&off.to_be_bytes());
    for tp in patches {
        p.extend(tp);
    }
    p
}

fn mutate_bytes(b: &mut Vec<u8>, rng: &mut Rng, desc: &mut String) {
    if b.is_empty() {
        return;
    }
    for _ in 0..1 + rng.usize(3) {
        let pos = if rng.chance(2, 3) { rng.usize(b.len().min(64)) } else { rng.usize(b.len()) };
        match rng.usize(8) {
            0 => b[pos] ^= 1 << rng.usize(8),
            1 => b[pos] = *rng.pick(&[0u8, 1, 0x7F, 0x80, 0xFF]),
            2 => {
                let v = *rng.pick(&vf_core::gen::INTERESTING16);
                if pos + 2 <= b.len() {
                    b[pos..pos + 2].copy_from_slice(&v.to_be_bytes());
                }
            }
            3 => {
                let v = *rng.pick(&vf_core::gen::INTERESTING32);
                if pos + 4 <= b.len() {
                    b[pos..pos + 4].copy_from_slice(&v.to_be_bytes());
                }
            }
            4 => {
                b.truncate(pos);
                if b.is_empty() {
                    desc.push_str("trunc0;");
                    return;
                }
            }
            5 => {
                let k = 1 + rng.usize(8);
                let extra = rng.bytes(k);
                b.extend(extra);
            }
            6 => {
                if pos + 2 <= b.len() {
                    let cur = u16::from_be_bytes([b[pos], b[pos + 1]]);
                    let v = *rng.pick(&[cur.wrapping_add(1), cur.wrapping_sub(1), cur.wrapping_mul(2), b.len() as u16]);
                    b[pos..pos + 2].copy_from_slice(&v.to_be_bytes());
                }
            }
            _ => {
                let k = (1 + rng.usize(8)).min(b.len() - pos);
                for x in &mut b[pos..pos + k] {
                    *x = 0xFF;
                }
            }
        }
        desc.push_str(&format!("m@{};", pos));
    }
}

// ---------------------------------------------------------------- tuples

pub struct Tuple {
    pub font: Vec<u8>,
    pub def: SubsetDefinition,
    pub compat_a: [u8; 16],
    pub compat_b: [u8; 16],
    pub patch_seed: u64,
    pub applied_mask: u64,
    pub missing_mask: u64,
    pub shape: String,
}

fn base_tables(kind: usize, n_glyphs: Option<usize>, rng: &mut Rng) -> (Vec<([u8; 4], Vec<u8>)>, u32) {
    match kind {
        0 => (
            vec![(*b"tab1", b"abcdef\n".to_vec()), (*b"tab2", b"foobar\n".to_vec()), (*b"tab4", b"abcdef\n".to_vec()), (*b"tab5", b"foobar\n".to_vec())],
            0x00010000,
        ),
        1 | 2 => {
            // glyf/loca font with 15 glyphs (like the IFT crate's own test font); kind 2 = long loca + gvar
            let mut f = TtFont::default();
            f.long_loca = kind == 2;
            for g in 0..n_glyphs.unwrap_or(15) {
                if matches!(g, 0 | 1 | 8) {
                    f.glyphs.push(simple_glyph(&[vec![(0, 0, true), (10, 0, true), (10, 10 + g as i16, true)]], &[]));
                } else {
                    f.glyphs.push(vec![]);
                }
            }
            let mut t = split_tables(&f.build());
            if kind == 2 || rng.bool() {
                let gv = match rng.usize(5) {
                    0 => td::short_gvar_with_shared_tuples(),
                    1 => td::long_gvar_with_shared_tuples(),
                    2 => td::short_gvar_with_no_shared_tuples(),
                    3 => td::short_gvar_near_maximum_offset_size(),
                    _ => td::out_of_order_gvar_with_shared_tuples(),
                };
                t.push((*b"gvar", gv.as_slice().to_vec()));
            }
            (t, 0x00010000)
        }
        3 => (split_tables(td::CFF_FONT), 0x4F54544F),
        4 => (split_tables(td::CFF2_FONT), 0x4F54544F),
        _ => (split_tables(td::IFT_BASE), 0x00010000),
    }
}

fn builder_table(i: usize) -> Vec<u8> {
    let b = match i % 13 {
        0 => td::simple_format1(),
        1 => td::simple_format1_with_one_charstrings_offset(),
        2 => td::simple_format1_with_two_charstrings_offsets(),
        3 => td::u16_entries_format1(),
        4 => td::feature_map_format1(),
        5 => td::codepoints_only_format2(),
        6 => td::format2_with_one_charstrings_offset(),
        7 => td::format2_with_two_charstrings_offset(),
        8 => td::features_and_design_space_format2(),
        9 => td::child_indices_format2(),
        10 => td::custom_ids_format2(),
        11 => td::string_ids_format2(),
        _ => td::table_keyed_format2(),
    };
    b.as_slice().to_vec()
}

fn gen_subset(rng: &mut Rng, shape: &mut String) -> SubsetDefinition {
    let mut cps: IntSet<u32> = IntSet::empty();
    let k = *rng.pick(&[0usize, 1, 1, 2, 3, 4, 4, 5, 6, 7, 7, 7]);
    match k {
        0 => {}
        7 => {
            cps.insert_range(0x41..=0x5A);
            cps.insert(5);
            cps.insert(0x20);
        }
        1 => {
            cps.insert(5);
        }
        2 => {
            cps.insert_range(0..=0x10FFFF);
        }
        3 => {
            cps = IntSet::all();
        }
        4 => {
            for _ in 0..rng.usize(40) {
                cps.insert(rng.below(200) as u32);
            }
        }
        5 => {
            cps.insert_range(0..=30);
            cps.invert();
        }
        _ => {
            cps.extend_unsorted([0u32, 5, 17, 22, 50, 100, 117, u32::MAX, 0x10FFFF, 0x110000]);
        }
    }
    let feats = match rng.usize(4) {
        0 => FeatureSet::All,
        1 => FeatureSet::Set(BTreeSet::new()),
        2 => FeatureSet::Set([Tag::new(b"liga"), Tag::new(b"smcp")].into_iter().collect()),
        _ => FeatureSet::Set([Tag::new(b"rlig"), Tag::new(b"\0\0\0\0"), Tag::new(b"zzzz")].into_iter().collect()),
    };
    let ds = match rng.usize(5) {
        0 => DesignSpace::All,
        1 => DesignSpace::Ranges(HashMap::new()),
        2 => {
            let mut m: HashMap<Tag, RangeSet<Fixed>> = HashMap::new();
            let mut r = RangeSet::default();
            r.insert(Fixed::from_f64(100.0)..=Fixed::from_f64(900.0));
            m.insert(Tag::new(b"wght"), r);
            DesignSpace::Ranges(m)
        }
        3 => {
            let mut m: HashMap<Tag, RangeSet<Fixed>> = HashMap::new();
            let mut r = RangeSet::default();
            r.insert(Fixed::MIN..=Fixed::MAX);
            r.insert(Fixed::from_bits(0)..=Fixed::from_bits(0));
            m.insert(Tag::new(b"wdth"), r.clone());
            m.insert(Tag::new(b"wght"), r);
            DesignSpace::Ranges(m)
        }
        _ => {
            let mut m: HashMap<Tag, RangeSet<Fixed>> = HashMap::new();
            let mut r = RangeSet::default();
            r.insert(Fixed::from_bits(i32::MAX - 1)..=Fixed::MAX);
            r.insert(Fixed::MIN..=Fixed::from_bits(i32::MIN + 1));
            r.insert(Fixed::from_f64(0.5)..=Fixed::from_f64(0.25)); // reversed: ignored
            m.insert(Tag::new(b"wdth"), r);
            DesignSpace::Ranges(m)
        }
    };
    shape.push_str(&format!("def(cp={},feat={},ds={});", k, matches!(feats, FeatureSet::All) as u8, matches!(ds, DesignSpace::All) as u8));
    SubsetDefinition::new(cps, feats, ds)
}

pub fn gen_tuple(i: usize, seed: u64) -> Tuple {
    let mut rng = Rng::derive(seed, "ift", i as u64);
    let mut shape = String::new();
    let mut kind = rng.usize(6);
    let fmt1_hint = rng.chance(5, 13);
    if fmt1_hint && rng.chance(3, 4) {
        kind = 1 + rng.usize(2);
    }
    shape.push_str(&format!("font(kind={});", kind));
    // IFT table
    let mut ift = if rng.chance(1, 3) {
        gen_format2(&mut rng, 1, &mut shape)
    } else {
        let b = if kind == 3 {
            *rng.pick(&[1usize, 6, 2, 7, 12])
        } else if kind == 4 {
            *rng.pick(&[2usize, 7, 12, 5])
        } else if fmt1_hint {
            rng.usize(5)
        } else {
            5 + rng.usize(8)
        };
        shape.push_str(&format!("ift=builder{};", b));
        builder_table(b)
    };
    if matches!(kind, 1 | 2) && ift.first() == Some(&2) && ift.len() > 21 && rng.bool() {
        // glyph keyed default encoding for the glyf fonts
        ift[21] = 3;
    }
    if rng.chance(2, 5) {
        shape.push_str("ift-mutated:");
        mutate_bytes(&mut ift, &mut rng, &mut shape);
    }
    // format 1 maps must agree with maxp.numGlyphs: size the glyf fonts accordingly (most of the time)
    let want_glyphs = if ift.first() == Some(&1) && ift.len() > 28 && !rng.chance(1, 6) {
        let g = u32::from_be_bytes([0, ift[25], ift[26], ift[27]]) as usize;
        if (1..=2000).contains(&g) {
            Some(g)
        } else {
            None
        }
    } else {
        None
    };
    let (mut tables, version) = base_tables(kind, want_glyphs, &mut rng);
    tables.retain(|(t, _)| t != b"IFT " && t != b"IFTX");
    if !rng.chance(1, 12) {
        tables.push((*b"IFT ", ift.clone()));
    }
    let mut iftx = vec![];
    if rng.chance(1, 2) {
        iftx = if rng.chance(1, 3) {
            gen_format2(&mut rng, 6, &mut shape)
        } else {
            let b = if want_glyphs.is_some() { rng.usize(13) } else { 5 + rng.usize(8) };
            shape.push_str(&format!("iftx=builder{};", b));
            let mut t = builder_table(b);
            // give it another compat id (unless the "same id" misuse is wanted)
            if t.len() > 9 && !rng.chance(1, 8) {
                t[8] = 6;
            }
            t
        };
        if rng.chance(1, 4) {
            shape.push_str("iftx-mutated:");
            mutate_bytes(&mut iftx, &mut rng, &mut shape);
        }
        tables.push((*b"IFTX", iftx.clone()));
    }
    let mut font = build_sfnt(version, &tables);
    if rng.chance(1, 4) {
        // hostile base font: the patch application reads loca/glyf/gvar/CFF/maxp/head of the font itself
        let dir = vf_core::gen::parse_dir(&font, 0);
        let mut p = vf_core::gen::Patcher::new();
        let focus = *rng.pick(&[b"loca", b"glyf", b"gvar", b"maxp", b"head", b"CFF ", b"CFF2", b"loca", b"gvar"]);
        vf_core::gen::mutate_random(&mut font, &dir, &mut rng, &mut p, Some(focus));
        shape.push_str(&format!("font-mutated[{}]{}", String::from_utf8_lossy(focus), p.describe()));
    }
    if rng.chance(1, 6) {
        // directed: disorder the CharStrings INDEX offset array of a CFF / CFF2 base font (the
        // glyph-keyed patcher copies runs of retained charstrings by offset arithmetic)
        if let Some(d) = disorder_charstrings_index(&mut font, &mut rng) {
            shape.push_str(&d);
        }
    }
    let def = gen_subset(&mut rng, &mut shape);

    let compat_a = cid(&ift);
    let compat_b = cid(&iftx);
    Tuple { font, def, compat_a, compat_b, patch_seed: rng.u64(), applied_mask: if rng.chance(1, 5) { rng.u64() & rng.u64() } else { 0 }, missing_mask: if rng.chance(1, 8) { rng.u64() & rng.u64() } else { 0 }, shape }
}

/// What a URI's map entry says about the patch it expects.
#[derive(Clone, Copy, PartialEq)]
pub enum Want {
    TableKeyed,
    GlyphKeyed,
    Any,
}

/// One patch in two flavours: (stream as-is for the pass-through / fault decoders,
/// real brotli "stored" stream for the C decoder).
pub fn make_patch(rng: &mut Rng, want: Want, compat: [u8; 16], shape: &mut String) -> (Vec<u8>, Vec<u8>) {
    let mut r2 = rng.clone();
    let k = match want {
        Want::TableKeyed => *rng.pick(&[0usize, 0, 1, 6, 6, 7, 9]),
        Want::GlyphKeyed => *rng.pick(&[2usize, 3, 4, 5]),
        Want::Any => rng.usize(10),
    };
    let (mut a, mut b): (Vec<u8>, Vec<u8>) = match k {
        0 => {
            let mut p = td::table_keyed_patch().as_slice().to_vec();
            p[8..24].copy_from_slice(&compat);
            shape.push_str("p=td-table-keyed;");
            (p.clone(), p)
        }
        1 => {
            let mut p = td::noop_table_keyed_patch().as_slice().to_vec();
            p[8..24].copy_from_slice(&compat);
            (p.clone(), p)
        }
        2 | 3 => {
            let payload = match rng.usize(6) {
                0 => td::noop_glyf_glyph_patches(),
                1 => td::glyf_u16_glyph_patches(),
                2 => td::glyf_u16_glyph_patches_2(),
                3 => td::glyf_and_gvar_u16_glyph_patches(),
                4 => td::cff_u16_glyph_patches(),
                _ => td::glyf_u24_glyph_patches(),
            };
            let wide = payload.as_slice() == td::glyf_u24_glyph_patches().as_slice();
            let mut pl = payload.as_slice().to_vec();
            if rng.chance(1, 3) {
                shape.push_str("payload-mutated:");
                mutate_bytes(&mut pl, rng, shape);
            }
            let ml = if rng.chance(1, 8) { *rng.pick(&[0u32, (pl.len() as u32).wrapping_sub(1), 0xFFFFFFFF, MAX_DECODE as u32 + 1]) } else { pl.len() as u32 };
            shape.push_str("p=td-glyph-keyed;");
            (glyph_keyed_patch(&compat, wide, &pl, ml, |d| d.to_vec()), glyph_keyed_patch(&compat, wide, &pl, ml, |d| brotli_real(d, None)))
        }
        4 | 5 => {
            let wide = rng.chance(1, 3);
            let mut s2 = String::new();
            let pl = gen_glyph_patches(rng, wide, &mut s2);
            shape.push_str(&s2);
            let ml = if rng.chance(1, 8) { *rng.pick(&[0u32, 0xFFFFFFFF, 1 << 24]) } else { pl.len() as u32 };
            (glyph_keyed_patch(&compat, wide, &pl, ml, |d| d.to_vec()), glyph_keyed_patch(&compat, wide, &pl, ml, |d| brotli_real(d, None)))
        }
        6 | 7 => {
            let mut s2 = String::new();
            let a = gen_table_keyed(rng, &compat, &|d, _| d.to_vec(), &mut s2);
            let b = gen_table_keyed(&mut r2, &compat, &|d, dict| brotli_real(d, dict), &mut String::new());
            shape.push_str(&s2);
            (a, b)
        }
        8 => {
            let k = *rng.pick(&[0usize, 1, 4, 30, 200]);
            let p = rng.bytes(k);
            (p.clone(), p)
        }
        _ => {
            // the real compressed streams of the test patch, corrupted in the stream area
            let mut p = td::table_keyed_patch().as_slice().to_vec();
            p[8..24].copy_from_slice(&compat);
            let n = p.len();
            for _ in 0..1 + rng.usize(3) {
                let pos = 51 + rng.usize(n - 51);
                p[pos] ^= 1 << rng.usize(8);
            }
            shape.push_str("p=td-table-keyed-stream-corrupted;");
            (p.clone(), p)
        }
    };
    if rng.chance(1, 5) {
        shape.push_str("patch-mutated:");
        let mut r3 = rng.clone();
        mutate_bytes(&mut a, rng, shape);
        mutate_bytes(&mut b, &mut r3, &mut String::new());
    }
    (a, b)
}

/// ASan slice: damage the part of a patch that holds compressed data.
fn corrupt_tail(p: &mut Vec<u8>, rng: &mut Rng) -> &'static str {
    let from = if p.starts_with(b"ifgk") { 29 } else { 40 };
    if p.len() <= from + 1 {
        return "too-short";
    }
    let n = p.len() - from;
    match rng.below(5) {
        0 | 1 => {
            for _ in 0..1 + rng.usize(3) {
                let pos = from + rng.usize(n);
                p[pos] ^= 1 << rng.usize(8);
            }
            "bitflip"
        }
        2 => {
            let cut = from + rng.usize(n);
            p.truncate(cut);
            "truncate"
        }
        3 => {
            let pos = from + rng.usize(n);
            let k = (1 + rng.usize(8)).min(p.len() - pos);
            for b in &mut p[pos..pos + k] {
                *b = 0xFF;
            }
            "overwrite"
        }
        _ => {
            let k = 1 + rng.usize(8);
            let extra = rng.bytes(k);
            p.extend(extra);
            "append"
        }
    }
}

// ---------------------------------------------------------------- running

#[derive(Default)]
pub struct IStats {
    pub calls: u64,
    pub ok: u64,
    pub err: u64,
    pub labels: Vec<(&'static str, String)>,
    pub counts: BTreeMap<String, u64>,
    pub opened: bool,
}
impl IStats {
    pub fn res<T, E: std::fmt::Debug>(&mut self, kind: &'static str, r: &Result<T, E>) {
        self.calls += 1;
        match r {
            Ok(_) => self.ok += 1,
            Err(e) => {
                self.err += 1;
                let mut l = variant_name(e);
                let full = format!("{:?}", e);
                if let Some(p) = full.find("MalformedData(\"") {
                    let msg: String = full[p + 15..].chars().take_while(|c| *c != '"').take(60).collect();
                    l = format!("{}:{}", l, msg);
                }
                self.count(&format!("{}:{}", kind, l), 1);
                if self.labels.len() < 40 && !self.labels.iter().any(|(k, v)| *k == kind && *v == l) {
                    self.labels.push((kind, l));
                }
            }
        }
    }
    pub fn count(&mut self, k: &str, n: u64) {
        *self.counts.entry(k.to_string()).or_default() += n;
    }
}

fn patch_map(t: &Tuple, uris: &[String], wants: &HashMap<String, (Want, [u8; 16])>, br: bool, salt: u64, st: &mut IStats) -> HashMap<String, UriStatus> {
    let mut m = HashMap::new();
    for (k, u) in uris.iter().enumerate() {
        let bit = 1u64 << (k % 64);
        if t.missing_mask & bit != 0 {
            continue;
        }
        if t.applied_mask & bit != 0 {
            m.insert(u.clone(), UriStatus::Applied);
            continue;
        }
        let mut rng = Rng::derive(t.patch_seed ^ salt, "patch", k as u64);
        let (want, compat) = match wants.get(u) {
            Some((w, c)) if rng.chance(7, 8) => (*w, *c),
            _ => (Want::Any, *rng.pick(&[t.compat_a, t.compat_b, [9u8; 16]])),
        };
        let mut s = String::new();
        let (raw, mut brs) = make_patch(&mut rng, want, compat, &mut s);
        st.count("ift_patches_generated", 1);
        if br && crate::enc::compress_mode() && rng.chance(1, 3) {
            // ASan slice: damage the compressed stream area (behind the fixed-size headers)
            let k = corrupt_tail(&mut brs, &mut rng);
            st.count(&format!("ift_asan_stream_damage:{k}"), 1);
        }
        m.insert(u.clone(), UriStatus::Pending(if br { brs } else { raw }));
    }
    m
}

/// 0 = pass-through, 1 = real C brotli (capped), 2.. = fault injection, 100 = `apply_next_patches`
fn run_apply(t: &Tuple, decoder: u8, salt: u64, st: &mut IStats, over: &Cell<u64>, injected: &Cell<u64>) {
    let mut font_bytes = t.font.clone();
    let mut statuses: Option<HashMap<String, UriStatus>> = None;
    for round in 0..3 {
        let font = match FontRef::new(&font_bytes) {
            Ok(f) => f,
            Err(_) => {
                st.count("ift_font_open_failed", 1);
                return;
            }
        };
        st.opened = true;
        let g = PatchGroup::select_next_patches(font, &t.def);
        st.res("ift_select_errors", &g);
        let Ok(g) = g else { return };
        let has = g.has_uris();
        let uris: Vec<String> = g.uris().map(|s| s.to_string()).collect();
        st.calls += 2;
        st.ok += 2;
        st.count("ift_uris_listed", uris.len() as u64);
        if has != !uris.is_empty() {
            st.count("ift_has_uris_disagrees_with_uris(C19)", 1);
        }
        let br = decoder == 1 || decoder == 100;
        // what each URI's entry expects (encoding, compatibility id)
        let mut wants: HashMap<String, (Want, [u8; 16])> = HashMap::new();
        if let Ok(f2) = FontRef::new(&font_bytes) {
            if let Ok(v) = intersecting_patches(&f2, &t.def) {
                for pu in v.iter().take(500) {
                    if let Ok(us) = pu.uri_string() {
                        let w = match pu.encoding() {
                            PatchFormat::GlyphKeyed => Want::GlyphKeyed,
                            PatchFormat::TableKeyed { .. } => Want::TableKeyed,
                        };
                        let mut c = [0u8; 16];
                        c.copy_from_slice(pu.expected_compatibility_id().as_slice());
                        wants.insert(us, (w, c));
                    }
                }
            }
        }
        let mut pm = match statuses.take() {
            Some(mut m) => {
                for (k, v) in patch_map(t, &uris, &wants, br, salt + round, st) {
                    m.entry(k).or_insert(v);
                }
                m
            }
            None => patch_map(t, &uris, &wants, br, salt, st),
        };
        let calls = Cell::new(0u64);
        let mut decoder = decoder;
        if decoder == 100 && !pm.values().all(|s| match s {
            UriStatus::Pending(p) => lengths_sane(p),
            _ => true,
        }) {
            // an advertised length above 16 MiB: go through the capping wrapper instead
            st.count("ift_default_api_rerouted_to_capped_decoder", 1);
            decoder = 1;
        }
        let r = match decoder {
            0 => g.apply_next_patches_with_decoder(&mut pm, &NoopBrotliDecoder),
            1 => g.apply_next_patches_with_decoder(&mut pm, &Capped { over, calls: &calls }),
            100 => g.apply_next_patches(&mut pm),
            m => {
                let f = Faulty { mode: (m - 2) % N_FAULT_MODES, fail_on: (salt % 3), calls: &calls, injected, junk: t.font.iter().take(300).copied().collect() };
                g.apply_next_patches_with_decoder(&mut pm, &f)
            }
        };
        st.res("ift_apply_errors", &r);
        st.count("ift_decoder_calls", calls.get());
        match r {
            Ok(new_font) => {
                st.count("ift_apply_ok", 1);
                st.count(
                    match decoder {
                        0 => "ift_apply_ok:passthrough",
                        1 | 100 => "ift_apply_ok:c-brotli",
                        _ => "ift_apply_ok:fault-injected",
                    },
                    1,
                );
                font_bytes = new_font;
                statuses = Some(pm);
            }
            Err(_) => return,
        }
    }
}

/// true if every max_uncompressed_length advertised in the patch is <= 16 MiB
/// (so that the default decoder can be used directly). Conservative: any
/// big-endian u32 above the cap anywhere in a table-keyed patch's headers, or an
/// unparsable patch with such a word in its first 64 bytes, counts as not sane.
fn lengths_sane(p: &[u8]) -> bool {
    use read_fonts::tables::ift::{GlyphKeyedPatch, TableKeyedPatch};
    use read_fonts::{FontData, FontRead};
    if p.starts_with(b"ifgk") {
        if let Ok(g) = GlyphKeyedPatch::read(FontData::new(p)) {
            return g.max_uncompressed_length() as usize <= MAX_DECODE;
        }
        return true; // cannot be parsed by the library either: no decode happens
    }
    if let Ok(tk) = TableKeyedPatch::read(FontData::new(p)) {
        let n = tk.patches_count() as usize;
        if n > 64 {
            return false;
        }
        for i in 0..n {
            match tk.patch_offsets().get(i).map(|o| o.get().to_u32() as usize) {
                Some(off) => {
                    if let Some(b) = p.get(off + 5..off + 9) {
                        if u32::from_be_bytes([b[0], b[1], b[2], b[3]]) as usize > MAX_DECODE {
                            return false;
                        }
                    }
                }
                None => break,
            }
        }
    }
    true
}

pub fn run_item(ctx: &mut Ctx, i: usize, seed: u64) {
    run_item_with(ctx, i, seed, false)
}

/// `real_only`: only the decoders that reach the real C brotli decoder (capped wrapper and the default API).
pub fn run_item_with(ctx: &mut Ctx, i: usize, seed: u64, real_only: bool) {
    let t = gen_tuple(i, seed);
    ctx.count("ift_tuples", 1);
    let case_json = json!({"ift_item": i, "ift_seed": seed.to_string(), "shape": t.shape});
    let over = Cell::new(0u64);
    let injected = Cell::new(0u64);
    let mut rng = Rng::derive(seed, "ift-run", i as u64);
    // which decoders for this tuple
    let mut decs: Vec<u8> = vec![0, 1, 2 + rng.below(N_FAULT_MODES as u64) as u8];
    if rng.chance(1, 3) {
        decs.push(2 + rng.below(N_FAULT_MODES as u64) as u8);
    }
    if real_only {
        decs = vec![1];
    }
    let mut answered = false;
    let mut opened = false;
    // case A: intersection + uri expansion
    if !real_only {
        ctx.eval();
        let st = RefCell::new(IStats::default());
        let label = || format!("ift#{}|{}|intersect|{}|0|0|", i, seed, seed);
        let r = ctx.run_case(&label, Some(&t.font), &|| {
            let mut s = st.borrow_mut();
            let Ok(font) = FontRef::new(&t.font) else { return };
            s.opened = true;
            let mut defs = vec![t.def.clone(), SubsetDefinition::all(), SubsetDefinition::default()];
            let mut u = t.def.clone();
            u.union(&SubsetDefinition::codepoints([5u32, 6, 7].into_iter().collect()));
            defs.push(u);
            for d in &defs {
                let r = intersecting_patches(&font, d);
                s.res("ift_intersect_errors", &r);
                if let Ok(v) = r {
                    s.count("ift_patch_uris", v.len() as u64);
                    for pu in v.iter().take(2000) {
                        let us = pu.uri_string();
                        s.res("ift_uri_template_errors", &us);
                        if us.is_ok() {
                            s.count("ift_uri_templates_expanded", 1);
                        }
                        let _ = (pu.encoding(), pu.expected_compatibility_id());
                    }
                }
            }
        });
        let s = st.into_inner();
        if let Err(p) = &r {
            ctx.count(&format!("panics_at:{}:{}:{}", p.file, p.line, p.class.as_str()), 1);
            ctx.judge_panic(p, "IFT intersecting_patches / uri expansion", case_json.clone(), Some(&t.font));
        }
        opened |= s.opened;
        answered |= s.ok + s.err > 0;
        absorb(ctx, &s);
    }
    decs.push(100);
    for d in decs {
        ctx.eval();
        let st = RefCell::new(IStats::default());
        let label = || format!("ift#{}|{}|apply:{}|{}|0|0|", i, seed, d, seed);
        let salt = rng.u64() % 1000;
        let r = ctx.run_case(&label, Some(&t.font), &|| {
            let mut s = st.borrow_mut();
            run_apply(&t, d, salt, &mut s, &over, &injected);
        });
        let s = st.into_inner();
        if let Err(p) = &r {
            ctx.count(&format!("panics_at:{}:{}:{}", p.file, p.line, p.class.as_str()), 1);
            let mut cj = case_json.clone();
            cj["decoder"] = json!(d);
            ctx.judge_panic(p, "IFT select_next_patches / apply_next_patches", cj, Some(&t.font));
        }
        opened |= s.opened;
        answered |= s.ok + s.err > 0;
        ctx.count(
            match d {
                0 => "ift_cases:passthrough-decoder",
                1 => "ift_cases:c-brotli-capped",
                100 => "ift_cases:c-brotli-default-api",
                _ => "ift_cases:fault-injecting-decoder",
            },
            1,
        );
        absorb(ctx, &s);
    }
    ctx.count("ift_decode_requests_over_16MiB_not_executed", over.get());
    ctx.count("ift_decoder_faults_injected", injected.get());
    if opened && answered {
        let mut dg = Digest::new();
        dg.u64(fnv64(&t.font));
        dg.str(&t.shape);
        dg.u64(t.patch_seed);
        ctx.nontrivial(dg.finish());
        ctx.distinct("ift_tuple_digests", dg.finish());
    }
    ctx.sample_by_kind("ift-tuple", json!({"item": i, "shape": t.shape, "font_len": t.font.len(), "patch_seed": t.patch_seed.to_string()}));
}

pub fn absorb(ctx: &mut Ctx, s: &IStats) {
    ctx.evals(s.calls);
    ctx.count("library_calls", s.calls);
    ctx.count("results_ok_or_some", s.ok);
    ctx.count("results_err_or_none", s.err);
    for (k, n) in &s.counts {
        ctx.count(k, *n);
    }
    for (k, v) in &s.labels {
        ctx.label(k, v);
    }
}

/// Self-check of the stored-brotli encoder against the real decoder (harness
/// sanity, reported as inconclusive if it fails).
fn encoder_selfcheck(ctx: &mut Ctx) {
    for data in [&b""[..], b"a", b"hello hello hello", &vec![7u8; 70_000][..]] {
        let enc = brotli_stored(data);
        let r = vf_core::guard(|| BuiltInBrotliDecoder.decode(&enc, None, data.len()));
        match r {
            Ok(Ok(d)) if d == data => ctx.count("ift_encoder_selfcheck_ok", 1),
            other => ctx.inconclusive(format!("stored-brotli encoder self-check failed: {:?}", other.map(|r| r.map(|v| v.len())).map_err(|p| p.msg))),
        }
    }
}

/// ASan slice (profile "asan"): the same tuples, patches generated with genuinely compressed streams
/// (some damaged), applied only through the real C decoder.
pub fn sec_ift_asan(ctx: &mut Ctx, items: &mut Items) {
    use crate::enc;
    enc::set_compress_mode(true);
    // harness sanity: encoder wrapper and decoder agree
    let mut rng = Rng::derive(1, "c02-asan-selfcheck", 0);
    let base = enc::structured_bytes(&mut rng, 4000, None);
    for (len, with_dict, q, w) in [(0usize, false, 5u32, 16u32), (1, false, 0, 10), (300, true, 11, 22), (70_000, true, 1, 10), (150_000, false, 9, 24)] {
        let dict = with_dict.then_some(&base[..]);
        let plain = enc::structured_bytes(&mut rng, len, dict);
        let ok = match enc::brotli_compress(&plain, dict, q, w) {
            Some(st) => matches!(vf_core::guard(|| BuiltInBrotliDecoder.decode(&st, dict, len)), Ok(Ok(v)) if v == plain),
            None => false,
        };
        if ok {
            ctx.count("ift_asan_encoder_selfcheck_ok", 1);
        } else {
            ctx.inconclusive(format!("harness: C brotli encoder self-check failed (len={len} q={q} lgwin={w})"));
            return;
        }
    }
    let n = ctx.budget(8_000, 100_000);
    let seed = ctx.seed;
    for i in 0..n {
        if !items.mine(ctx) {
            continue;
        }
        run_item_with(ctx, i, seed, true);
    }
}

pub fn sec_ift(ctx: &mut Ctx, items: &mut Items) {
    if ctx.shard.0 == 0 {
        encoder_selfcheck(ctx);
    }
    let n = ctx.budget(28_000, 224_000);
    let seed = ctx.seed;
    for i in 0..n {
        if !items.mine(ctx) {
            continue;
        }
        run_item(ctx, i, seed);
    }
}


/// Finds the CharStrings INDEX of the font's CFF / CFF2 table and rewrites one or two entries of
/// its offset array so that it is no longer ascending at a chosen position (even and odd
/// positions, inside and at the ends), keeping every offset inside the data block.
fn disorder_charstrings_index(font: &mut [u8], rng: &mut Rng) -> Option<String> {
    use read_fonts::tables::postscript::dict::{entries, Entry};
    use read_fonts::{FontData, FontRead};
    let dir = vf_core::gen::parse_dir(font, 0);
    let rec = dir.iter().find(|r| &r.tag == b"CFF " || &r.tag == b"CFF2")?;
    let (t0, tl) = (rec.offset as usize, rec.len as usize);
    let table = font.get(t0..t0 + tl)?;
    let is_cff2 = &rec.tag == b"CFF2";
    let cs_off = if is_cff2 {
        let cff2 = read_fonts::tables::cff2::Cff2::read(FontData::new(table)).ok()?;
        entries(cff2.top_dict_data(), None).find_map(|e| match e {
            Ok(Entry::CharstringsOffset(o)) => Some(o),
            _ => None,
        })?
    } else {
        let cff = read_fonts::tables::cff::Cff::read(FontData::new(table)).ok()?;
        let top = cff.top_dicts().get(0).ok()?;
        entries(top, None).find_map(|e| match e {
            Ok(Entry::CharstringsOffset(o)) => Some(o),
            _ => None,
        })?
    };
    // INDEX header: count (u16 for CFF, u32 for CFF2), offSize u8, offsets[count + 1]
    let (count, hdr) = if is_cff2 {
        (u32::from_be_bytes(table.get(cs_off..cs_off + 4)?.try_into().ok()?) as usize, 5)
    } else {
        (u16::from_be_bytes(table.get(cs_off..cs_off + 2)?.try_into().ok()?) as usize, 3)
    };
    let off_size = *table.get(cs_off + hdr - 1)? as usize;
    if count < 3 || !(1..=4).contains(&off_size) {
        return None;
    }
    let arr = t0 + cs_off + hdr;
    let rd = |font: &[u8], i: usize| -> Option<u32> {
        let b = font.get(arr + i * off_size..arr + (i + 1) * off_size)?;
        Some(b.iter().fold(0u32, |a, x| (a << 8) | *x as u32))
    };
    let wr = |font: &mut [u8], i: usize, v: u32| {
        let be = v.to_be_bytes();
        if let Some(b) = font.get_mut(arr + i * off_size..arr + (i + 1) * off_size) {
            b.copy_from_slice(&be[4 - off_size..]);
        }
    };
    let i = 1 + rng.usize(count - 1); // 1..count-1: never the first or the last offset
    let (prev, cur, next) = (rd(font, i - 1)?, rd(font, i)?, rd(font, i + 1)?);
    let how = rng.usize(6);
    match how {
        0 => wr(font, i, prev.saturating_sub(1).max(1)),                   // dips below its predecessor
        1 => wr(font, i, next.saturating_add(1)),                          // rises above its successor
        2 => {
            wr(font, i, next);
            wr(font, i + 1, cur);
        } // swapped pair
        3 => wr(font, i, rd(font, i.saturating_sub(2))?.saturating_sub(1).max(1)), // below the run two back
        4 => wr(font, i, 1),
        _ => wr(font, i, rd(font, count)?),
    }
    Some(format!("charstrings-index-disordered[{}:i={}({}):how={}];", if is_cff2 { "CFF2" } else { "CFF" }, i, if i % 2 == 0 { "even" } else { "odd" }, how))
}
