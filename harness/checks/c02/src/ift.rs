//! stub
use crate::Items;
use vf_core::Ctx;
pub fn sec_ift(_ctx: &mut Ctx, _items: &mut Items) {}
pub fn run_item(_ctx: &mut Ctx, _i: usize, _seed: u64) {}
