//! Program-level TrueType generators: fonts assembled from raw table bytes with
//! (a) random bytecode for fpgm / prep / glyph programs drawn from an opcode
//! grammar biased to stack / loop / call / zone / delta / IDEF / FDEF edge cases,
//! (b) composite glyph graphs (cycles, deep nesting, fan-out) written as raw glyf
//! bytes, (c) extreme header values.

use crate::drive::{self, exec_case, hint_group_name, FontCase, GroupSpec};
use crate::Items;
use vf_core::gen::build_sfnt;
use vf_core::{fnv64, Ctx, Rng};

// ---------------------------------------------------------------- font assembly

#[derive(Clone)]
pub struct Maxp {
    pub num_glyphs: Option<u16>,
    pub max_points: u16,
    pub max_contours: u16,
    pub max_zones: u16,
    pub max_twilight: u16,
    pub max_storage: u16,
    pub max_fdefs: u16,
    pub max_idefs: u16,
    pub max_stack: u16,
    pub max_instr: u16,
    pub max_comp_elems: u16,
    pub max_comp_depth: u16,
}

impl Default for Maxp {
    fn default() -> Self {
        Maxp {
            num_glyphs: None,
            max_points: 64,
            max_contours: 8,
            max_zones: 2,
            max_twilight: 16,
            max_storage: 32,
            max_fdefs: 32,
            max_idefs: 8,
            max_stack: 256,
            max_instr: 512,
            max_comp_elems: 8,
            max_comp_depth: 4,
        }
    }
}

#[derive(Clone)]
pub struct TtFont {
    pub upem: u16,
    pub glyphs: Vec<Vec<u8>>,
    pub fpgm: Vec<u8>,
    pub prep: Vec<u8>,
    pub cvt: Vec<i16>,
    pub maxp: Maxp,
    pub long_loca: bool,
    pub n_hmetrics: Option<u16>,
    pub advances: Vec<(u16, i16)>,
    pub extra: Vec<([u8; 4], Vec<u8>)>,
}

impl Default for TtFont {
    fn default() -> Self {
        TtFont { upem: 1000, glyphs: vec![], fpgm: vec![], prep: vec![], cvt: vec![], maxp: Maxp::default(), long_loca: false, n_hmetrics: None, advances: vec![], extra: vec![] }
    }
}

fn w16(v: &mut Vec<u8>, x: u16) {
    v.extend_from_slice(&x.to_be_bytes());
}
fn wi16(v: &mut Vec<u8>, x: i16) {
    v.extend_from_slice(&x.to_be_bytes());
}
fn w32(v: &mut Vec<u8>, x: u32) {
    v.extend_from_slice(&x.to_be_bytes());
}

impl TtFont {
    pub fn build(&self) -> Vec<u8> {
        let n = self.glyphs.len() as u16;
        let mut head = vec![];
        w32(&mut head, 0x00010000);
        w32(&mut head, 0x00010000);
        w32(&mut head, 0);
        w32(&mut head, 0x5F0F3CF5);
        w16(&mut head, 0x000B);
        w16(&mut head, self.upem);
        head.extend_from_slice(&[0; 16]);
        for v in [-100i16, -300, 1200, 1000] {
            wi16(&mut head, v);
        }
        w16(&mut head, 0);
        w16(&mut head, 8);
        wi16(&mut head, 2);
        wi16(&mut head, self.long_loca as i16);
        wi16(&mut head, 0);

        let m = &self.maxp;
        let mut maxp = vec![];
        w32(&mut maxp, 0x00010000);
        w16(&mut maxp, m.num_glyphs.unwrap_or(n));
        for v in [m.max_points, m.max_contours, m.max_points, m.max_contours, m.max_zones, m.max_twilight, m.max_storage, m.max_fdefs, m.max_idefs, m.max_stack, m.max_instr, m.max_comp_elems, m.max_comp_depth] {
            w16(&mut maxp, v);
        }

        let mut hhea = vec![];
        w32(&mut hhea, 0x00010000);
        for v in [800i16, -200, 90] {
            wi16(&mut hhea, v);
        }
        w16(&mut hhea, 1200);
        for _ in 0..3 {
            wi16(&mut hhea, 0);
        }
        wi16(&mut hhea, 1);
        hhea.extend_from_slice(&[0; 14]);
        w16(&mut hhea, self.n_hmetrics.unwrap_or(n));

        let mut hmtx = vec![];
        for i in 0..n as usize {
            let (a, l) = self.advances.get(i).copied().unwrap_or((600, 20));
            w16(&mut hmtx, a);
            wi16(&mut hmtx, l);
        }

        let mut glyf = vec![];
        let mut loca = vec![];
        for g in &self.glyphs {
            if self.long_loca {
                w32(&mut loca, glyf.len() as u32);
            } else {
                w16(&mut loca, (glyf.len() / 2) as u16);
            }
            glyf.extend_from_slice(g);
            while glyf.len() % 4 != 0 {
                glyf.push(0);
            }
        }
        if self.long_loca {
            w32(&mut loca, glyf.len() as u32);
        } else {
            w16(&mut loca, (glyf.len() / 2) as u16);
        }

        // cmap: 'A'.. -> gid 1..
        let mapped = n.saturating_sub(1).clamp(1, 200);
        let mut cmap = vec![];
        w16(&mut cmap, 0);
        w16(&mut cmap, 1);
        w16(&mut cmap, 3);
        w16(&mut cmap, 1);
        w32(&mut cmap, 12);
        let start = 0x41u16;
        w16(&mut cmap, 4);
        w16(&mut cmap, 32);
        w16(&mut cmap, 0);
        w16(&mut cmap, 4);
        w16(&mut cmap, 4);
        w16(&mut cmap, 1);
        w16(&mut cmap, 0);
        w16(&mut cmap, start + mapped - 1);
        w16(&mut cmap, 0xFFFF);
        w16(&mut cmap, 0);
        w16(&mut cmap, start);
        w16(&mut cmap, 0xFFFF);
        w16(&mut cmap, 1u16.wrapping_sub(start));
        w16(&mut cmap, 1);
        w16(&mut cmap, 0);
        w16(&mut cmap, 0);

        let mut os2 = vec![0u8; 78];
        os2[1] = 3;
        os2[4..6].copy_from_slice(&400u16.to_be_bytes());
        os2[6..8].copy_from_slice(&5u16.to_be_bytes());
        os2[68..70].copy_from_slice(&800i16.to_be_bytes());
        os2[70..72].copy_from_slice(&(-200i16).to_be_bytes());

        let mut post = vec![];
        w32(&mut post, 0x00030000);
        post.extend_from_slice(&[0; 28]);

        let mut cvt = vec![];
        for v in &self.cvt {
            wi16(&mut cvt, *v);
        }

        let mut tables: Vec<([u8; 4], Vec<u8>)> = vec![
            (*b"head", head),
            (*b"maxp", maxp),
            (*b"hhea", hhea),
            (*b"hmtx", hmtx),
            (*b"loca", loca),
            (*b"glyf", glyf),
            (*b"cmap", cmap),
            (*b"OS/2", os2),
            (*b"post", post),
        ];
        if !self.fpgm.is_empty() {
            tables.push((*b"fpgm", self.fpgm.clone()));
        }
        if !self.prep.is_empty() {
            tables.push((*b"prep", self.prep.clone()));
        }
        if !cvt.is_empty() {
            tables.push((*b"cvt ", cvt));
        }
        for e in &self.extra {
            tables.push(e.clone());
        }
        build_sfnt(0x00010000, &tables)
    }
}

/// A simple glyph: `contours` closed polygons with the given points, all
/// coordinates as words.
pub fn simple_glyph(contours: &[Vec<(i16, i16, bool)>], instructions: &[u8]) -> Vec<u8> {
    let mut g = vec![];
    wi16(&mut g, contours.len() as i16);
    let pts: Vec<(i16, i16, bool)> = contours.iter().flatten().copied().collect();
    let xmin = pts.iter().map(|p| p.0).min().unwrap_or(0);
    let ymin = pts.iter().map(|p| p.1).min().unwrap_or(0);
    let xmax = pts.iter().map(|p| p.0).max().unwrap_or(0);
    let ymax = pts.iter().map(|p| p.1).max().unwrap_or(0);
    for v in [xmin, ymin, xmax, ymax] {
        wi16(&mut g, v);
    }
    let mut end = 0usize;
    for c in contours {
        end += c.len();
        w16(&mut g, (end as u16).wrapping_sub(1));
    }
    w16(&mut g, instructions.len() as u16);
    g.extend_from_slice(instructions);
    for p in &pts {
        g.push(p.2 as u8);
    }
    let mut px = 0i16;
    for p in &pts {
        wi16(&mut g, p.0.wrapping_sub(px));
        px = p.0;
    }
    let mut py = 0i16;
    for p in &pts {
        wi16(&mut g, p.1.wrapping_sub(py));
        py = p.1;
    }
    g
}

#[derive(Clone, Copy)]
pub struct Component {
    pub gid: u16,
    pub dx: i16,
    pub dy: i16,
    /// 0 none, 1 scale, 2 xy scale, 3 two-by-two
    pub xform: u8,
    pub scale: [i16; 4],
    pub anchor_points: bool,
    pub use_my_metrics: bool,
}

pub fn composite_glyph(components: &[Component], instructions: &[u8]) -> Vec<u8> {
    let mut g = vec![];
    wi16(&mut g, -1);
    for v in [0i16, 0, 500, 500] {
        wi16(&mut g, v);
    }
    for (i, c) in components.iter().enumerate() {
        let mut flags = 0x0001u16; // words
        if !c.anchor_points {
            flags |= 0x0002;
        }
        if i + 1 < components.len() {
            flags |= 0x0020;
        } else if !instructions.is_empty() {
            flags |= 0x0100;
        }
        if c.use_my_metrics {
            flags |= 0x0200;
        }
        flags |= match c.xform {
            1 => 0x0008,
            2 => 0x0040,
            3 => 0x0080,
            _ => 0,
        };
        w16(&mut g, flags);
        w16(&mut g, c.gid);
        wi16(&mut g, c.dx);
        wi16(&mut g, c.dy);
        let k = match c.xform {
            1 => 1,
            2 => 2,
            3 => 4,
            _ => 0,
        };
        for s in &c.scale[..k] {
            wi16(&mut g, *s);
        }
    }
    if !instructions.is_empty() {
        w16(&mut g, instructions.len() as u16);
        g.extend_from_slice(instructions);
    }
    g
}

// ---------------------------------------------------------------- bytecode grammar

pub struct Env {
    pub n_points: i32,
    pub n_contours: i32,
    pub n_cvt: i32,
    pub n_storage: i32,
    pub n_fdefs: i32,
    pub n_twilight: i32,
    pub in_glyph: bool,
    /// keep definitions well-formed (used for "clean" fpgm bodies)
    pub no_defs: bool,
}

pub struct Prog {
    pub b: Vec<u8>,
}

impl Prog {
    pub fn new() -> Self {
        Prog { b: vec![] }
    }
    pub fn op(&mut self, o: u8) -> &mut Self {
        self.b.push(o);
        self
    }
    /// push values (last one ends on top of the stack)
    pub fn push(&mut self, vals: &[i32]) -> &mut Self {
        if vals.is_empty() {
            return self;
        }
        let bytes = vals.iter().all(|v| (0..=255).contains(v));
        if bytes {
            if vals.len() <= 8 {
                self.b.push(0xB0 + (vals.len() as u8 - 1));
            } else {
                self.b.push(0x40);
                self.b.push(vals.len().min(255) as u8);
            }
            for v in vals.iter().take(255) {
                self.b.push(*v as u8);
            }
        } else {
            if vals.len() <= 8 {
                self.b.push(0xB8 + (vals.len() as u8 - 1));
            } else {
                self.b.push(0x41);
                self.b.push(vals.len().min(255) as u8);
            }
            for v in vals.iter().take(255) {
                let w = (*v).clamp(-32768, 32767) as i16;
                self.b.extend_from_slice(&w.to_be_bytes());
            }
        }
        self
    }
    /// leave a value of large magnitude on the stack using arithmetic
    pub fn push_big(&mut self, rng: &mut Rng) -> &mut Self {
        match rng.usize(5) {
            0 => {
                self.push(&[32767, 32767]).op(0x63); // MUL -> 0x7FFF*0x7FFF/64
                self.op(0x20).op(0x63) // DUP MUL (overflow territory)
            }
            1 => {
                self.push(&[-32768]).op(0x20).op(0x63).op(0x65) // DUP MUL NEG
            }
            2 => {
                // 0x7FFF << ... by repeated ADD
                self.push(&[32767]);
                for _ in 0..rng.usize(18) {
                    self.op(0x20).op(0x60);
                }
                self
            }
            3 => {
                // i32::MIN by doubling -32768 sixteen times
                self.push(&[-32768]);
                for _ in 0..16 {
                    self.op(0x20).op(0x60);
                }
                self
            }
            _ => {
                // i32::MAX-ish by doubling 32767 and adding
                self.push(&[32767]);
                for _ in 0..16 {
                    self.op(0x20).op(0x60);
                }
                self.push(&[32767]).op(0x60).push(&[32767]).op(0x60)
            }
        }
    }
}

impl Default for Prog {
    fn default() -> Self {
        Self::new()
    }
}

fn idx(rng: &mut Rng, n: i32) -> i32 {
    match rng.usize(10) {
        0 => 0,
        1 => n - 1,
        2 => n,
        3 => n + 1,
        4 => -1,
        5 => 32767,
        6 => -32768,
        7 => n + 3,
        _ => rng.range(0, (n.max(1) - 1) as i64) as i32,
    }
}

fn small(rng: &mut Rng) -> i32 {
    *rng.pick(&[0, 1, 2, 3, 5, 8, 16, 32, 63, 64, 65, 127, 128, 255, 256, -1, -64, 32767, -32768, 1000, -1000])
}

/// Emit one grammar production into `p`. `depth` limits nesting.
pub fn emit(p: &mut Prog, rng: &mut Rng, env: &Env, depth: usize, used: &mut [u32; 256]) {
    let n = env.n_points + 4;
    let before = p.b.len();
    let mut prod = rng.usize(40);
    if env.no_defs && matches!(prod, 23 | 25 | 26 | 29) {
        prod = 39;
    }
    match prod {
        0 => {
            // stack manipulation
            let k = rng.usize(5);
            let vals: Vec<i32> = (0..k).map(|_| small(rng)).collect();
            p.push(&vals);
            let o = *rng.pick(&[0x20u8, 0x21, 0x22, 0x23, 0x24, 0x8A]);
            p.op(o);
        }
        1 => {
            // CINDEX / MINDEX out of range
            let k = rng.usize(4);
            let vals: Vec<i32> = (0..k).map(|_| small(rng)).collect();
            p.push(&vals);
            let i = *rng.pick(&[0, 1, k as i32, k as i32 + 1, -1, 32767, 2]);
            p.push(&[i]).op(if rng.bool() { 0x25 } else { 0x26 });
        }
        2 => {
            // arithmetic incl. division by zero and extremes
            let o = *rng.pick(&[0x60u8, 0x61, 0x62, 0x63, 0x8B, 0x8C, 0x50, 0x51, 0x52, 0x53, 0x54, 0x55, 0x5A, 0x5B]);
            if rng.chance(1, 3) {
                p.push_big(rng);
            } else {
                p.push(&[small(rng)]);
            }
            if rng.chance(1, 4) {
                p.push_big(rng);
            } else {
                p.push(&[small(rng)]);
            }
            p.op(o);
            if rng.bool() {
                p.op(0x21);
            }
        }
        3 => {
            let o = *rng.pick(&[0x64u8, 0x65, 0x66, 0x67, 0x56, 0x57, 0x5C, 0x68, 0x69, 0x6A, 0x6B, 0x6C, 0x6D, 0x6E, 0x6F]);
            if rng.chance(1, 3) {
                p.push_big(rng);
            } else {
                p.push(&[small(rng)]);
            }
            p.op(o).op(0x21);
        }
        4 => {
            // storage
            let i = idx(rng, env.n_storage);
            if rng.bool() {
                p.push(&[i, small(rng)]).op(0x42);
            } else {
                p.push(&[i]).op(0x43).op(0x21);
            }
        }
        5 => {
            // cvt
            let i = idx(rng, env.n_cvt);
            match rng.usize(3) {
                0 => {
                    p.push(&[i, small(rng)]).op(0x44);
                }
                1 => {
                    p.push(&[i, small(rng)]).op(0x70);
                }
                _ => {
                    p.push(&[i]).op(0x45).op(0x21);
                }
            }
        }
        6 => {
            // zone pointers
            let z = *rng.pick(&[0, 1, 0, 1, 2, -1, 32767]);
            p.push(&[z]).op(*rng.pick(&[0x13u8, 0x14, 0x15, 0x16]));
        }
        7 => {
            let i = idx(rng, n);
            p.push(&[i]).op(*rng.pick(&[0x10u8, 0x11, 0x12]));
        }
        8 => {
            // SLOOP + loop-respecting point instruction
            let cnt = *rng.pick(&[1, 1, 2, 3, 0, -1, 32767, n, 4]);
            let o = *rng.pick(&[0x32u8, 0x33, 0x39, 0x3C, 0x80, 0x38]);
            let k = cnt.clamp(0, 6) as usize;
            let mut vals: Vec<i32> = (0..k).map(|_| idx(rng, n)).collect();
            if o == 0x38 {
                vals.push(small(rng));
            }
            p.push(&vals);
            p.push(&[cnt]).op(0x17);
            p.op(o);
        }
        9 => {
            // MDAP / MIAP
            if rng.bool() {
                p.push(&[idx(rng, n)]).op(0x2E + rng.usize(2) as u8);
            } else {
                p.push(&[idx(rng, n), idx(rng, env.n_cvt)]).op(0x3E + rng.usize(2) as u8);
            }
        }
        10 => {
            // MDRP / MIRP all flag variants
            if rng.bool() {
                p.push(&[idx(rng, n)]).op(0xC0 + rng.usize(32) as u8);
            } else {
                p.push(&[idx(rng, n), idx(rng, env.n_cvt)]).op(0xE0 + rng.usize(32) as u8);
            }
        }
        11 => {
            // MSIRP, ALIGNPTS, ISECT, UTP, GC, SCFS, MD
            match rng.usize(7) {
                0 => {
                    p.push(&[idx(rng, n), small(rng)]).op(0x3A + rng.usize(2) as u8);
                }
                1 => {
                    p.push(&[idx(rng, n), idx(rng, n)]).op(0x27);
                }
                2 => {
                    let v: Vec<i32> = (0..5).map(|_| idx(rng, n)).collect();
                    p.push(&v).op(0x0F);
                }
                3 => {
                    p.push(&[idx(rng, n)]).op(0x29);
                }
                4 => {
                    p.push(&[idx(rng, n)]).op(0x46 + rng.usize(2) as u8).op(0x21);
                }
                5 => {
                    p.push(&[idx(rng, n), small(rng)]).op(0x48);
                }
                _ => {
                    p.push(&[idx(rng, n), idx(rng, n)]).op(0x49 + rng.usize(2) as u8).op(0x21);
                }
            }
        }
        12 => {
            // SHC / SHZ / FLIPRG / IUP
            match rng.usize(5) {
                0 => {
                    p.push(&[idx(rng, env.n_contours)]).op(0x34 + rng.usize(2) as u8);
                }
                1 => {
                    p.push(&[*rng.pick(&[0, 1, 2, -1])]).op(0x36 + rng.usize(2) as u8);
                }
                2 => {
                    p.push(&[idx(rng, n), idx(rng, n)]).op(0x81 + rng.usize(2) as u8);
                }
                _ => {
                    p.op(0x30 + rng.usize(2) as u8);
                }
            }
        }
        13 => {
            // vectors
            match rng.usize(6) {
                0 => {
                    p.op(rng.usize(6) as u8);
                }
                1 => {
                    p.push(&[idx(rng, n), idx(rng, n)]).op(*rng.pick(&[0x06u8, 0x07, 0x08, 0x09, 0x86, 0x87]));
                }
                2 => {
                    let (x, y) = *rng.pick(&[(0, 0), (0x4000, 0), (0, 0x4000), (1, 1), (-32768, -32768), (32767, 32767), (0x2D41, 0x2D41)]);
                    p.push(&[x, y]).op(0x0A + rng.usize(2) as u8);
                }
                3 => {
                    p.op(0x0C + rng.usize(2) as u8).op(0x21).op(0x21);
                }
                _ => {
                    p.op(0x0E);
                }
            }
        }
        14 => {
            // rounding state
            match rng.usize(3) {
                0 => {
                    p.op(*rng.pick(&[0x18u8, 0x19, 0x3D, 0x7A, 0x7C, 0x7D]));
                }
                _ => {
                    p.push(&[*rng.pick(&[0, 0x3F, 0x40, 0x7F, 0x80, 0xBF, 0xC0, 0xFF, 0x100, -1])]).op(0x76 + rng.usize(2) as u8);
                }
            }
        }
        15 => {
            // graphics-state scalars
            let o = *rng.pick(&[0x1Au8, 0x1D, 0x1E, 0x1F, 0x5E, 0x5F, 0x7E, 0x7F, 0x85, 0x8D]);
            if rng.chance(1, 5) {
                p.push_big(rng);
            } else {
                p.push(&[small(rng)]);
            }
            p.op(o);
        }
        16 => {
            // INSTCTRL
            let (s, v) = *rng.pick(&[(1, 1), (1, 0), (2, 2), (2, 0), (3, 4), (3, 0), (0, 0), (4, 1), (-1, -1)]);
            p.push(&[v, s]).op(0x8E);
        }
        17 => {
            // DELTAP / DELTAC
            let o = *rng.pick(&[0x5Du8, 0x71, 0x72, 0x73, 0x74, 0x75]);
            let cnt = *rng.pick(&[0, 1, 2, 3, 200, -1, 32767]);
            let k = cnt.clamp(0, 3) as usize;
            let mut v = vec![];
            for _ in 0..k {
                v.push(rng.range(0, 255) as i32);
                v.push(if o == 0x5D || o == 0x71 || o == 0x72 { idx(rng, n) } else { idx(rng, env.n_cvt) });
            }
            v.push(cnt);
            p.push(&v).op(o);
        }
        18 if depth < 3 => {
            // IF / ELSE / EIF, sometimes unterminated
            p.push(&[rng.range(0, 1) as i32]).op(0x58);
            for _ in 0..rng.usize(3) {
                emit(p, rng, env, depth + 1, used);
            }
            if rng.bool() {
                p.op(0x1B);
                for _ in 0..rng.usize(3) {
                    emit(p, rng, env, depth + 1, used);
                }
            }
            if env.no_defs || !rng.chance(1, 12) {
                p.op(0x59);
            }
        }
        19 => {
            // jumps: forwards, backwards (loops), to nowhere
            let off = *rng.pick(&[0, 1, 2, 3, -1, -2, -3, -8, -32768, 32767, 200, -200]);
            match rng.usize(3) {
                0 => {
                    p.push(&[off]).op(0x1C);
                }
                1 => {
                    p.push(&[off, 1]).op(0x78);
                }
                _ => {
                    p.push(&[off, 0]).op(0x79);
                }
            }
        }
        20 => {
            // backward-jump loop over a small body (budget exhaustion)
            let start = p.b.len();
            for _ in 0..1 + rng.usize(2) {
                emit(p, rng, env, 3, used);
            }
            let body = (p.b.len() - start) as i32;
            // PUSHW[1] off ; JMPR  — the offset is relative to the JMPR opcode
            p.push(&[-(body + 3)]).op(0x1C);
        }
        21 => {
            // CALL
            let f = idx(rng, env.n_fdefs);
            p.push(&[f]).op(0x2B);
        }
        22 => {
            // LOOPCALL
            let f = idx(rng, env.n_fdefs);
            let cnt = *rng.pick(&[0, 1, 2, 5, 100, 32767, -1, -32768]);
            if rng.chance(1, 6) {
                p.push_big(rng);
                p.push(&[f]).op(0x2A);
            } else {
                p.push(&[cnt, f]).op(0x2A);
            }
        }
        23 => {
            // FDEF / IDEF where they may be illegal (glyph program) or nested
            if rng.bool() {
                p.push(&[idx(rng, env.n_fdefs)]).op(0x2C);
                if rng.chance(1, 4) {
                    p.push(&[1]).op(0x2C);
                }
                for _ in 0..rng.usize(2) {
                    emit(p, rng, env, 3, used);
                }
                if !rng.chance(1, 6) {
                    p.op(0x2D);
                }
            } else {
                let opc = *rng.pick(&[0x28, 0x7B, 0x83, 0x84, 0x8F, 0x90, 0xA0, 0xAF, 0x91, 0x20, 0x100, -1]);
                p.push(&[opc]).op(0x89);
                for _ in 0..rng.usize(2) {
                    emit(p, rng, env, 3, used);
                }
                if !rng.chance(1, 6) {
                    p.op(0x2D);
                }
                if (0..256).contains(&opc) && rng.bool() {
                    p.op(opc as u8);
                }
            }
        }
        24 => {
            // measurement / info
            match rng.usize(5) {
                0 => {
                    p.push(&[*rng.pick(&[0, 1, 2, 4, 8, 32, 64, 0x7FFF, -1, 0xFF])]).op(0x88).op(0x21);
                }
                1 => {
                    p.op(0x91);
                    // GETVARIATION pushes axis_count values: do not pop (may underflow either way)
                }
                2 => {
                    p.op(0x92).op(0x21);
                }
                3 => {
                    p.op(0x4B).op(0x21);
                }
                _ => {
                    p.op(0x4C).op(0x21);
                }
            }
        }
        25 => {
            // undefined / reserved opcodes and ENDF/ELSE/EIF out of place
            p.op(*rng.pick(&[0x28u8, 0x7B, 0x83, 0x84, 0x8F, 0x90, 0x93, 0xA0, 0xAF, 0x2D, 0x1B, 0x59, 0x4F, 0x4D, 0x4E]));
        }
        26 => {
            // truncated / oversized pushes
            match rng.usize(4) {
                0 => {
                    p.op(0x40).op(*rng.pick(&[0u8, 1, 200, 255]));
                    let k = rng.usize(4);
                    p.b.extend(rng.bytes(k));
                }
                1 => {
                    p.op(0x41).op(*rng.pick(&[0u8, 1, 200, 255]));
                    let k = rng.usize(6);
                    p.b.extend(rng.bytes(k));
                }
                2 => {
                    // deep stack: many pushes
                    let v: Vec<i32> = (0..255).map(|i| i & 0xFF).collect();
                    for _ in 0..rng.usize(6) {
                        p.push(&v);
                    }
                }
                _ => {
                    p.op(0xB0 + rng.usize(16) as u8);
                }
            }
        }
        27 => {
            // pops on an (often) empty stack
            for _ in 0..1 + rng.usize(4) {
                p.op(*rng.pick(&[0x21u8, 0x60, 0x23, 0x42, 0x10, 0x2B, 0x1C, 0x17]));
            }
        }
        28 => {
            // twilight zone work: set zp to 0 and touch twilight points
            let z = env.n_twilight + 4;
            p.push(&[0]).op(0x16);
            p.push(&[idx(rng, z), idx(rng, env.n_cvt)]).op(0x3E + rng.usize(2) as u8);
            p.push(&[idx(rng, z)]).op(0xC0 + rng.usize(32) as u8);
            if rng.bool() {
                p.push(&[1]).op(0x16);
            }
        }
        29 => {
            // raw random bytes
            let k = 1 + rng.usize(6);
            p.b.extend(rng.bytes(k));
        }
        30 => {
            // SHPIX / SHP using rp in the other zone
            p.push(&[*rng.pick(&[0, 1])]).op(0x13);
            p.push(&[idx(rng, n)]).op(0x10);
            p.push(&[idx(rng, n)]).op(0x32 + rng.usize(2) as u8);
        }
        31 => {
            // IP with rp1 == rp2 (zero range) and extreme positions
            let a = idx(rng, n);
            p.push(&[a]).op(0x11).push(&[a]).op(0x12);
            p.push(&[idx(rng, n)]).op(0x39);
        }
        32 => {
            // SCFS / WCVTP with huge values
            p.push(&[idx(rng, n)]);
            p.push_big(rng);
            p.op(0x48);
        }
        33 => {
            p.push(&[idx(rng, env.n_cvt)]);
            p.push_big(rng);
            p.op(if rng.bool() { 0x44 } else { 0x70 });
        }
        34 => {
            // SMD / SCVTCI / SSW big then MIRP with min-distance / cut-in logic
            p.push_big(rng);
            p.op(*rng.pick(&[0x1Au8, 0x1D, 0x1E]));
            p.push(&[idx(rng, n), idx(rng, env.n_cvt)]).op(0xE0 + rng.usize(32) as u8);
        }
        _ => {
            // benign filler keeping programs runnable: touch + round
            p.push(&[rng.range(0, (n - 1).max(0) as i64) as i32]).op(0x2F);
        }
    }
    for b in &p.b[before..] {
        used[*b as usize] += 1;
    }
}

pub fn gen_block(rng: &mut Rng, env: &Env, max_items: usize, used: &mut [u32; 256]) -> Vec<u8> {
    let mut p = Prog::new();
    let k = rng.usize(max_items + 1);
    for _ in 0..k {
        emit(&mut p, rng, env, 0, used);
    }
    p.b
}

/// fpgm = function definitions (some recursive, some chained deeply), IDEFs.
pub fn gen_fpgm(rng: &mut Rng, env: &Env, used: &mut [u32; 256], shape: &mut String, clean: bool) -> Vec<u8> {
    let mut p = Prog::new();
    let nf = env.n_fdefs.clamp(0, 40);
    let style = rng.usize(6);
    shape.push_str(["fpgm:random;", "fpgm:self-recursion;", "fpgm:mutual-recursion;", "fpgm:deep-chain;", "fpgm:loopcall-nest;", "fpgm:idef-heavy;"][style]);
    for f in 0..nf {
        p.push(&[f]).op(0x2C);
        match style {
            1 if f == 0 => {
                // f0 calls itself
                p.push(&[0]).op(0x2B);
            }
            2 if f < 2 => {
                p.push(&[1 - f]).op(0x2B);
            }
            3 => {
                // f -> f+1 -> ... (call stack depth)
                if f + 1 < nf {
                    p.push(&[f + 1]).op(0x2B);
                }
            }
            4 => {
                // f loop-calls f+1 a few times: multiplicative work until the budget trips
                if f + 1 < nf {
                    p.push(&[*rng.pick(&[2, 3, 10, 200]), f + 1]).op(0x2A);
                } else {
                    emit(&mut p, rng, env, 3, used);
                }
            }
            _ => {
                for _ in 0..rng.usize(4) {
                    emit(&mut p, rng, env, 1, used);
                }
            }
        }
        if clean || !rng.chance(1, 40) {
            p.op(0x2D);
        }
    }
    if (style == 5 || rng.chance(1, 4)) && env.n_fdefs > 0 {
        for opc in [0x28, 0x7B, 0x83, 0x8F, 0xA0] {
            p.push(&[opc]).op(0x89);
            for _ in 0..rng.usize(3) {
                emit(&mut p, rng, env, 2, used);
            }
            p.op(0x2D);
        }
    }
    if !clean && rng.chance(1, 5) {
        // trailing top-level code in fpgm
        for _ in 0..rng.usize(3) {
            emit(&mut p, rng, env, 0, used);
        }
    }
    for b in &p.b {
        used[*b as usize] += 1;
    }
    p.b
}

/// A block of instructions that never fails (keeps fpgm / prep alive so that
/// the glyph programs get to run).
pub fn benign_block(rng: &mut Rng, env: &Env, used: &mut [u32; 256]) -> Vec<u8> {
    let mut p = Prog::new();
    for _ in 0..rng.usize(8) {
        match rng.usize(12) {
            0 => {
                p.push(&[small(rng)]).op(0x21);
            }
            1 => {
                p.op(rng.usize(2) as u8);
            }
            2 => {
                p.op(*rng.pick(&[0x18u8, 0x19, 0x3D, 0x7A, 0x7C, 0x7D]));
            }
            3 => {
                p.push(&[*rng.pick(&[0, 17, 64, 68, 128, 1000])]).op(*rng.pick(&[0x1Du8, 0x1E, 0x1F, 0x1A]));
            }
            4 => {
                p.push(&[*rng.pick(&[0, 1, 0x1FF, 0x2FF, 511])]).op(0x85);
            }
            5 => {
                p.push(&[*rng.pick(&[0, 1, 2, 4, 5])]).op(0x8D);
            }
            6 => {
                p.op(0x4B).op(0x21).op(0x4C).op(0x21);
            }
            7 => {
                p.push(&[*rng.pick(&[1, 2, 6, 37, 64])]).op(0x88).op(0x21);
            }
            8 => {
                p.push(&[small(rng) & 0x3FFF, small(rng) & 0x3FFF]).op(*rng.pick(&[0x60u8, 0x61, 0x63, 0x8B, 0x8C])).op(0x21);
            }
            9 => {
                p.push(&[rng.range(0, 1) as i32]).op(0x58).push(&[7]).op(0x21).op(0x59);
            }
            10 if env.n_storage > 0 => {
                p.push(&[0, small(rng)]).op(0x42).push(&[0]).op(0x43).op(0x21);
            }
            11 if env.n_cvt > 0 => {
                p.push(&[0]).op(0x45).op(0x21);
            }
            _ => {
                p.op(0x4D + rng.usize(2) as u8);
            }
        }
    }
    for b in &p.b {
        used[*b as usize] += 1;
    }
    p.b
}

fn rand_contours(rng: &mut Rng, upem: i32) -> Vec<Vec<(i16, i16, bool)>> {
    let nc = 1 + rng.usize(3);
    let mut out = vec![];
    for _ in 0..nc {
        let np = 3 + rng.usize(5);
        let ext = rng.chance(1, 10);
        let c: Vec<(i16, i16, bool)> = (0..np)
            .map(|_| {
                let v = |rng: &mut Rng| -> i16 {
                    if ext {
                        *rng.pick(&[i16::MIN, i16::MAX, -1, 0, 16384, -16384])
                    } else {
                        rng.range(-(upem as i64) / 4, upem as i64) as i16
                    }
                };
                (v(rng), v(rng), rng.chance(3, 4))
            })
            .collect();
        out.push(c);
    }
    out
}

/// A font whose fpgm / prep / glyph programs come from the grammar.
pub fn gen_program_font(rng: &mut Rng, used: &mut [u32; 256], shape: &mut String) -> TtFont {
    let mut f = TtFont::default();
    f.upem = *rng.pick(&[1000u16, 2048, 1000, 2048, 16, 1, 65535, 64]);
    // 0: everything hostile; 1: clean fpgm + benign prep, hostile glyph programs;
    // 2: clean fpgm, hostile prep; 3: like 1 with hostile maxp limits
    let mode = rng.usize(4);
    shape.push_str(&format!("mode{};", mode));
    let hostile_limits = mode == 0 || mode == 3;
    let lim = |rng: &mut Rng, normal: u16| -> u16 {
        if !hostile_limits {
            return normal;
        }
        match rng.usize(8) {
            0 => 0,
            1 => 0xFFFF,
            2 => 1,
            _ => normal,
        }
    };
    f.maxp = Maxp {
        num_glyphs: None,
        max_points: 64,
        max_contours: 8,
        max_zones: *rng.pick(&[2u16, 2, 2, 1, 0, 3]),
        max_twilight: lim(rng, 16),
        max_storage: lim(rng, 32),
        max_fdefs: lim(rng, 24),
        max_idefs: lim(rng, 8),
        max_stack: lim(rng, 256),
        max_instr: lim(rng, 512),
        max_comp_elems: 8,
        max_comp_depth: 4,
    };
    let n_cvt = *rng.pick(&[0usize, 1, 8, 32, 300]);
    f.cvt = (0..n_cvt).map(|_| *rng.pick(&[0i16, 1, -1, 50, 100, 700, i16::MAX, i16::MIN])).collect();
    let contours = rand_contours(rng, f.upem as i32);
    let n_points: i32 = contours.iter().map(|c| c.len() as i32).sum();
    let env = Env {
        n_points,
        n_contours: contours.len() as i32,
        n_cvt: n_cvt as i32,
        n_storage: f.maxp.max_storage.min(64) as i32,
        n_fdefs: f.maxp.max_fdefs.min(40) as i32,
        n_twilight: f.maxp.max_twilight.min(64) as i32,
        in_glyph: false,
        no_defs: false,
    };
    let fenv = Env { no_defs: mode != 0, ..Env { n_points: env.n_points, n_contours: env.n_contours, n_cvt: env.n_cvt, n_storage: env.n_storage, n_fdefs: env.n_fdefs, n_twilight: env.n_twilight, in_glyph: false, no_defs: false } };
    f.fpgm = gen_fpgm(rng, &fenv, used, shape, mode != 0);
    f.prep = if mode == 1 || mode == 3 { benign_block(rng, &env, used) } else { gen_block(rng, &env, 6, used) };
    // glyph 0 empty, 1 simple with program, 2 simple other program, 3 composite with program, 4 simple no program
    f.glyphs.push(vec![]);
    let genv = Env { in_glyph: true, ..env };
    f.glyphs.push(simple_glyph(&contours, &gen_block(rng, &genv, 8, used)));
    f.glyphs.push(simple_glyph(&contours, &gen_block(rng, &genv, 8, used)));
    let comps = [
        Component { gid: 1, dx: 10, dy: -10, xform: rng.usize(4) as u8, scale: [0x4000, 0x1000, -0x1000, 0x4000], anchor_points: false, use_my_metrics: rng.bool() },
        Component { gid: 2, dx: rng.range(0, 12) as i16, dy: rng.range(0, 12) as i16, xform: 0, scale: [0x4000; 4], anchor_points: rng.chance(1, 3), use_my_metrics: false },
    ];
    let cenv = Env { n_points: n_points * 2, in_glyph: true, ..genv };
    f.glyphs.push(composite_glyph(&comps, &gen_block(rng, &cenv, 6, used)));
    f.glyphs.push(simple_glyph(&rand_contours(rng, f.upem as i32), &[]));
    f
}

// ---------------------------------------------------------------- composite graphs

/// Composite-graph fonts: cycles, deep chains, fan-out DAGs.
pub fn gen_composite_font(kind: usize, param: usize, rng: &mut Rng, shape: &mut String) -> TtFont {
    let mut f = TtFont::default();
    let leaf = simple_glyph(&[vec![(0, 0, true), (100, 0, true), (100, 100, true), (0, 100, false)]], &[]);
    let comp = |gid: u16| Component { gid, dx: 5, dy: 5, xform: 0, scale: [0x4000; 4], anchor_points: false, use_my_metrics: false };
    f.glyphs.push(vec![]);
    f.glyphs.push(leaf);
    match kind {
        0 => {
            // self cycle (gid 2 -> 2), 2-cycle (3 <-> 4), long cycle of length param
            shape.push_str(&format!("composite:cycles(len={});", param));
            f.glyphs.push(composite_glyph(&[comp(2)], &[]));
            f.glyphs.push(composite_glyph(&[comp(4), comp(1)], &[]));
            f.glyphs.push(composite_glyph(&[comp(1), comp(3)], &[]));
            let base = f.glyphs.len();
            for i in 0..param.max(1) {
                let next = base + (i + 1) % param.max(1);
                f.glyphs.push(composite_glyph(&[comp(next as u16)], &[]));
            }
        }
        1 => {
            // chain of depth param ending in the leaf: gid k -> k-1 ... -> 1
            shape.push_str(&format!("composite:chain(depth={});", param));
            for i in 0..param {
                let target = 1 + i;
                f.glyphs.push(composite_glyph(&[comp(target as u16)], if i % 7 == 3 { &[0x4F] } else { &[] }));
            }
        }
        2 => {
            // fan-out DAG: level k references level k-1 `w` times
            let w = 2 + rng.usize(2);
            shape.push_str(&format!("composite:dag(levels={},fanout={});", param, w));
            for i in 0..param {
                let target = (1 + i) as u16;
                let comps: Vec<Component> = (0..w).map(|_| comp(target)).collect();
                f.glyphs.push(composite_glyph(&comps, &[]));
            }
        }
        3 => {
            // anchor-point components with invalid point indices, extreme offsets and transforms
            shape.push_str("composite:anchors+transforms;");
            for _ in 0..6 {
                let c1 = Component {
                    gid: 1,
                    dx: *rng.pick(&[0i16, 1, 3, 4, 5, -1, i16::MAX, i16::MIN]),
                    dy: *rng.pick(&[0i16, 1, 3, 4, 5, -1, i16::MAX, i16::MIN]),
                    xform: rng.usize(4) as u8,
                    scale: [*rng.pick(&[0i16, 0x4000, i16::MAX, i16::MIN, -0x4000, 1]), *rng.pick(&[0i16, 0x4000, i16::MAX, i16::MIN]), *rng.pick(&[0i16, 0x4000, i16::MAX, i16::MIN]), *rng.pick(&[0i16, 0x4000, i16::MAX, i16::MIN])],
                    anchor_points: rng.bool(),
                    use_my_metrics: rng.bool(),
                };
                let c2 = Component { anchor_points: rng.bool(), ..c1 };
                f.glyphs.push(composite_glyph(&[c1, c2, comp(1)], &[]));
            }
        }
        _ => {
            // component gids beyond numGlyphs, many components, missing MORE flag handling
            shape.push_str("composite:wild-gids;");
            let comps: Vec<Component> = (0..param.max(1)).map(|_| comp(*rng.pick(&[0u16, 1, 2, 3, 0xFFFF, 0x7FFF, 200]))).collect();
            f.glyphs.push(composite_glyph(&comps, &[]));
            f.glyphs.push(composite_glyph(&[comp(2)], &[0xB0, 0x00, 0x2F]));
        }
    }
    f.maxp.max_comp_depth = *rng.pick(&[0u16, 1, 4, 64, 0xFFFF]);
    f.maxp.max_comp_elems = *rng.pick(&[0u16, 1, 8, 0xFFFF]);
    f
}

/// Deterministic fan-out DAG: glyph 1 is a leaf, glyph k+1 references glyph k `fanout` times.
pub fn dag_font(levels: usize, fanout: usize) -> TtFont {
    let mut f = TtFont::default();
    let leaf = simple_glyph(&[vec![(0, 0, true), (100, 0, true), (100, 100, true), (0, 100, false)]], &[]);
    let comp = |gid: u16| Component { gid, dx: 5, dy: 5, xform: 0, scale: [0x4000; 4], anchor_points: false, use_my_metrics: false };
    f.glyphs.push(vec![]);
    f.glyphs.push(leaf);
    for i in 0..levels {
        let comps: Vec<Component> = (0..fanout).map(|_| comp((1 + i) as u16)).collect();
        f.glyphs.push(composite_glyph(&comps, &[]));
    }
    f
}

// ---------------------------------------------------------------- section

pub fn tt_groups(cfg_seed: u64, rng: &mut Rng, all_glyphs: bool) -> Vec<GroupSpec> {
    // level 1 on these tiny fonts = all glyph ids, full size/coord product
    let level = if all_glyphs { 1 } else { 0 };
    let mut v = vec![GroupSpec::new("unhinted", level, cfg_seed)];
    for k in 0..3 {
        v.push(GroupSpec::new(format!("memory:{}", k), 0, cfg_seed));
    }
    // each hinting configuration as 6 cases (one (size, location) pair each): creating an instance runs the
    // generated fpgm + prep, which may legitimately use most of the interpreter's budget every time
    let hint = |v: &mut Vec<GroupSpec>, e: usize, t: usize| {
        for k in 0..6 {
            v.push(GroupSpec::new(format!("{}:{}", hint_group_name(e, t), k), 0, cfg_seed));
        }
    };
    hint(&mut v, 0, 0);
    hint(&mut v, 0, 1 + rng.usize(drive::N_TARGETS - 1));
    hint(&mut v, 3, rng.usize(drive::N_TARGETS));
    if rng.chance(1, 3) {
        hint(&mut v, 1, rng.usize(drive::N_TARGETS));
    }
    if rng.chance(1, 4) {
        v.push(GroupSpec::new("metrics", 0, cfg_seed));
        v.push(GroupSpec::new("helpers", 0, cfg_seed));
    }
    v
}

fn drive_tt(ctx: &mut Ctx, name: &str, shape: &str, bytes: &[u8], category: &str, cfg: u64, rng: &mut Rng, all_glyphs: bool) {
    let fc = FontCase { name, mutation: shape, category, bytes };
    let o = exec_case(ctx, &fc, &GroupSpec::new("open", 0, cfg), None);
    if !o.opened {
        ctx.count(&format!("fonts_failed_to_open:{}", category), 1);
        return;
    }
    ctx.count(&format!("fonts_driven:{}", category), 1);
    for spec in tt_groups(cfg, rng, all_glyphs) {
        exec_case(ctx, &fc, &spec, None);
    }
}

/// Deterministic (seed-independent) probes of the composite fan-out DAG: one
/// lookup + one draw of the top glyph. levels=20 is comfortably inside the
/// progress bound; levels=26 (2^26 component visits for a 1.4 KB font) exceeds it
/// and is keyed as a known finding (exponential composite traversal, no visit
/// budget; at the recursion limit of 32 levels the same font shape needs 2^32..3^32 visits).
pub fn sec_dag_probes(ctx: &mut Ctx, items: &mut Items) {
    for (levels, fanout) in [(8usize, 2usize), (20, 2), (10, 3), (26, 2)] {
        if !items.mine(ctx) {
            continue;
        }
        if levels >= 26 && ctx.panics_only {
            // no panic involved; C20 does not need to pay for the slow case
            continue;
        }
        let f = dag_font(levels, fanout);
        let bytes = f.build();
        let mut spec = GroupSpec::new("probe", 0, 0);
        spec.index = (f.glyphs.len() - 1) as u32;
        let name = format!("ttcomposite-dag(levels={},fanout={})", levels, fanout);
        let fc = FontCase { name: &name, mutation: "", category: "ttcomposite-dag", bytes: &bytes };
        exec_case(ctx, &fc, &spec, None);
        ctx.count("composite_dag_probes", 1);
    }
}

pub fn sec_programs(ctx: &mut Ctx, items: &mut Items) {
    let n_prog = ctx.budget(46_000, 370_000);
    let mut used = [0u32; 256];
    for j in 0..n_prog {
        if !items.mine(ctx) {
            continue;
        }
        let mut rng = Rng::derive(ctx.seed, "ttprog", j as u64);
        let mut shape = String::new();
        let f = gen_program_font(&mut rng, &mut used, &mut shape);
        let mut bytes = f.build();
        ctx.count("bytecode_programs_generated", 3 + 3);
        ctx.distinct("bytecode_programs", fnv64(&f.fpgm) ^ fnv64(&f.prep).rotate_left(7) ^ fnv64(&f.glyphs[1]).rotate_left(13));
        ctx.label("fpgm_shapes", shape.trim_end_matches(';'));
        // occasionally post-mutate the assembled font as well
        if rng.chance(1, 5) {
            let dir = vf_core::gen::parse_dir(&bytes, 0);
            let mut p = vf_core::gen::Patcher::new();
            let focus = *rng.pick(&[b"fpgm", b"prep", b"glyf", b"maxp", b"cvt "]);
            vf_core::gen::mutate_random(&mut bytes, &dir, &mut rng, &mut p, Some(focus));
            shape.push_str(&format!("post-mutated[{}]{}", String::from_utf8_lossy(focus), p.describe()));
        }
        let name = format!("ttprog#{}", j);
        let cfg = rng.u64();
        drive_tt(ctx, &name, &shape, &bytes, "ttprog", cfg, &mut rng, false);
    }
    for (op, c) in used.iter().enumerate() {
        if *c > 0 {
            ctx.distinct("bytecode_byte_values_emitted", op as u64);
        }
    }

    // composite graphs
    let mut specs: Vec<(usize, usize)> = vec![];
    for len in [1usize, 2, 3, 5, 31, 32, 33, 34, 40] {
        specs.push((0, len));
    }
    for depth in [1usize, 2, 30, 31, 32, 33, 34, 35, 64, 200, 2000] {
        specs.push((1, depth));
    }
    // fan-out DAGs are kept small here: the traversal is exponential in the number of
    // levels (see the dedicated probes below, and the known finding keyed on them)
    let dag_max = std::env::var("VF_C02_DAG").ok().and_then(|s| s.parse().ok()).unwrap_or(9usize);
    for levels in 1..=dag_max {
        specs.push((2, levels));
    }
    for _ in 0..ctx.budget(20, 200) {
        specs.push((3, 0));
    }
    for k in [1usize, 2, 10, 100, 1000] {
        specs.push((4, k));
    }
    for (j, (kind, param)) in specs.iter().enumerate() {
        if !items.mine(ctx) {
            continue;
        }
        let mut rng = Rng::derive(ctx.seed, "ttcomposite", j as u64);
        let mut shape = String::new();
        let f = gen_composite_font(*kind, *param, &mut rng, &mut shape);
        let bytes = f.build();
        ctx.count("composite_graph_fonts_generated", 1);
        ctx.label("composite_shapes", shape.trim_end_matches(';'));
        let name = format!("ttcomposite#{}", j);
        let cfg = rng.u64();
        drive_tt(ctx, &name, &shape, &bytes, "ttcomposite", cfg, &mut rng, f.glyphs.len() <= 48);
    }
}
