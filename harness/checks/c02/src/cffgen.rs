//! stub
use crate::Items;
use vf_core::Ctx;
pub fn sec_cff(_ctx: &mut Ctx, _items: &mut Items) {}
