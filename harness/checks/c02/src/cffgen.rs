//! Program-level CFF / CFF2 generators: tables assembled from raw bytes whose
//! charstrings come from a Type 2 operator grammar biased to subroutine
//! recursion (callsubr / callgsubr depth), huge operand stacks, blend / vsindex,
//! hint-mask edge cases, seac-like endchar and extreme operands; private DICT
//! hint parameters at extremes.

use crate::drive::{self, exec_case, hint_group_name, FontCase, GroupSpec};
use crate::ttgen::TtFont;
use crate::Items;
use vf_core::gen::{split_tables, build_sfnt};
use vf_core::{fnv64, Ctx, Rng};

fn index(items: &[Vec<u8>], v2: bool, off_size: u8) -> Vec<u8> {
    let mut out = vec![];
    if v2 {
        out.extend_from_slice(&(items.len() as u32).to_be_bytes());
    } else {
        out.extend_from_slice(&(items.len() as u16).to_be_bytes());
    }
    if items.is_empty() {
        return out;
    }
    out.push(off_size);
    let mut off = 1u32;
    let put = |out: &mut Vec<u8>, v: u32| {
        let b = v.to_be_bytes();
        out.extend_from_slice(&b[4 - off_size as usize..]);
    };
    put(&mut out, off);
    for it in items {
        off += it.len() as u32;
        put(&mut out, off);
    }
    for it in items {
        out.extend_from_slice(it);
    }
    out
}

/// DICT integer, fixed 5-byte form.
fn int5(v: i32) -> Vec<u8> {
    let mut o = vec![29];
    o.extend_from_slice(&v.to_be_bytes());
    o
}

/// Charstring number encodings.
pub fn cs_num(out: &mut Vec<u8>, v: i32) {
    if (-107..=107).contains(&v) {
        out.push((v + 139) as u8);
    } else if (108..=1131).contains(&v) {
        let w = v - 108;
        out.push((w / 256 + 247) as u8);
        out.push((w % 256) as u8);
    } else if (-1131..=-108).contains(&v) {
        let w = -v - 108;
        out.push((w / 256 + 251) as u8);
        out.push((w % 256) as u8);
    } else if (-32768..=32767).contains(&v) {
        out.push(28);
        out.extend_from_slice(&(v as i16).to_be_bytes());
    } else {
        out.push(255);
        out.extend_from_slice(&v.to_be_bytes());
    }
}

pub fn cs_fixed(out: &mut Vec<u8>, bits: i32) {
    out.push(255);
    out.extend_from_slice(&bits.to_be_bytes());
}

fn bias(n: usize) -> i32 {
    if n < 1240 {
        107
    } else if n < 33900 {
        1131
    } else {
        32768
    }
}

pub struct CsEnv {
    pub n_local: usize,
    pub n_global: usize,
    pub cff2: bool,
    pub n_regions: usize,
}

fn operand(rng: &mut Rng) -> i32 {
    *rng.pick(&[0, 1, -1, 10, 50, 100, -100, 107, 108, -108, 1131, 1132, 32767, -32768, 500, 250, 3])
}

fn push_operands(out: &mut Vec<u8>, rng: &mut Rng, k: usize) {
    for _ in 0..k {
        if rng.chance(1, 12) {
            cs_fixed(out, *rng.pick(&[i32::MAX, i32::MIN, 0x7FFF_0000u32 as i32, 0x8000_0000u32 as i32, 1, -1, 0x0001_0000, 0xFFFF]));
        } else {
            cs_num(out, operand(rng));
        }
    }
}

/// One production of the Type 2 grammar.
pub fn cs_emit(out: &mut Vec<u8>, rng: &mut Rng, env: &CsEnv, used: &mut [u32; 64]) {
    let r = rng.usize(30);
    used[r.min(63)] += 1;
    match r {
        0 => {
            push_operands(out, rng, 2);
            out.push(21); // rmoveto
        }
        1 => {
            push_operands(out, rng, 1);
            out.push(if rng.bool() { 22 } else { 4 });
        }
        2 => {
            { let k = 2 * (1 + rng.usize(4)); push_operands(out, rng, k); }
            out.push(5); // rlineto
        }
        3 => {
            { let k = 1 + rng.usize(5); push_operands(out, rng, k); }
            out.push(if rng.bool() { 6 } else { 7 });
        }
        4 => {
            { let k = 6 * (1 + rng.usize(3)); push_operands(out, rng, k); }
            out.push(8); // rrcurveto
        }
        5 => {
            { let k = 4 + rng.usize(9); push_operands(out, rng, k); }
            out.push(*rng.pick(&[24u8, 25, 26, 27, 30, 31]));
        }
        6 => {
            // flex family
            let (n, op) = *rng.pick(&[(7usize, 34u8), (13, 35), (9, 36), (11, 37)]);
            let k = if rng.chance(1, 4) { rng.usize(14) } else { n };
            push_operands(out, rng, k);
            out.push(12);
            out.push(op);
        }
        7 => {
            // stems + hintmask / cntrmask with right / wrong mask length
            let pairs = *rng.pick(&[0usize, 1, 2, 4, 8, 48, 49, 96, 97, 200]);
            push_operands(out, rng, (2 * pairs).min(400));
            out.push(*rng.pick(&[1u8, 3, 18, 23]));
            if rng.bool() {
                out.push(if rng.bool() { 19 } else { 20 });
                let need = pairs.div_ceil(8);
                let k = *rng.pick(&[need, need, need.saturating_sub(1), need + 1, 0]);
                out.extend(rng.bytes(k.min(40)));
            }
        }
        8 => {
            // hintmask with operands on the stack (implicit vstem)
            { let k = 2 * rng.usize(5); push_operands(out, rng, k); }
            out.push(19);
            { let k = rng.usize(3); out.extend(rng.bytes(k)); }
        }
        9 => {
            // callsubr
            let n = env.n_local;
            let rnd = rng.below(n.max(1) as u64) as i32;
            let i = *rng.pick(&[0i32, 1, n as i32 - 1, n as i32, -1, 32767, rnd]);
            cs_num(out, i - bias(n));
            out.push(10);
        }
        10 => {
            let n = env.n_global;
            let rnd = rng.below(n.max(1) as u64) as i32;
            let i = *rng.pick(&[0i32, 1, n as i32 - 1, n as i32, -1, 32767, rnd]);
            cs_num(out, i - bias(n));
            out.push(29);
        }
        11 => {
            out.push(11); // return (out of place at top level / illegal in CFF2)
        }
        12 => {
            // huge operand stack
            let k = *rng.pick(&[48usize, 96, 192, 512, 513, 514, 600]);
            for i in 0..k {
                cs_num(out, (i % 200) as i32);
            }
            if rng.bool() {
                out.push(*rng.pick(&[5u8, 8, 1, 21, 16]));
            }
        }
        13 => {
            // blend (CFF2) / or in CFF1 an invalid operator
            let n = *rng.pick(&[0i32, 1, 2, 3, 100, 513, -1, 32767]);
            let k = env.n_regions;
            let cnt = (n.clamp(0, 6) as usize) * (k + 1);
            let cnt = if rng.chance(1, 4) { rng.usize(cnt + 2) } else { cnt };
            push_operands(out, rng, cnt);
            cs_num(out, n);
            out.push(16);
        }
        14 => {
            // vsindex
            cs_num(out, *rng.pick(&[0, 1, 2, 255, -1, 32767, 65535]));
            out.push(15);
        }
        15 => {
            // arithmetic / storage operators of CFF1 (reserved in CFF2)
            { let k = rng.usize(4); push_operands(out, rng, k); }
            out.push(12);
            out.push(*rng.pick(&[3u8, 4, 5, 9, 10, 11, 12, 14, 15, 18, 20, 21, 22, 23, 24, 26, 27, 28, 29, 30]));
        }
        16 => {
            // seac-like endchar: adx ady bchar achar endchar
            if rng.bool() {
                cs_num(out, operand(rng)); // width
            }
            cs_num(out, operand(rng));
            cs_num(out, operand(rng));
            cs_num(out, *rng.pick(&[0, 1, 65, 255, 256, -1]));
            cs_num(out, *rng.pick(&[0, 1, 66, 255, 256, -1]));
            out.push(14);
        }
        17 => {
            out.push(14); // endchar
        }
        18 => {
            // reserved operators and truncated number encodings
            match rng.usize(5) {
                0 => out.push(*rng.pick(&[0u8, 2, 9, 13, 17])),
                1 => out.push(28),
                2 => {
                    out.push(255);
                    { let k = rng.usize(4); out.extend(rng.bytes(k)); }
                }
                3 => {
                    out.push(12);
                }
                _ => {
                    out.push(12);
                    out.push(*rng.pick(&[0u8, 1, 2, 6, 7, 8, 13, 16, 17, 19, 25, 31, 33, 38, 255]));
                }
            }
        }
        19 => {
            // operator with too few operands
            out.push(*rng.pick(&[21u8, 22, 4, 5, 8, 24, 25, 26, 27, 30, 31, 10, 29, 16, 15]));
        }
        20 => {
            // extreme coordinates accumulate: repeated big moves
            for _ in 0..1 + rng.usize(6) {
                cs_fixed(out, *rng.pick(&[i32::MAX, i32::MIN, 0x7FFF_FFFF, 0x4000_0000]));
                cs_fixed(out, *rng.pick(&[i32::MAX, i32::MIN, 0x7FFF_FFFF, 0x4000_0000]));
                out.push(21);
            }
        }
        21 => {
            { let k = 1 + rng.usize(5); out.extend(rng.bytes(k)); }
        }
        _ => {
            // well-formed filler: a small closed box
            cs_num(out, 10);
            cs_num(out, 10);
            out.push(21);
            cs_num(out, 100);
            out.push(6);
            cs_num(out, 100);
            out.push(7);
            cs_num(out, -100);
            out.push(6);
        }
    }
}

pub fn gen_charstring(rng: &mut Rng, env: &CsEnv, items: usize, used: &mut [u32; 64], end: bool) -> Vec<u8> {
    let mut out = vec![];
    if !env.cff2 && rng.bool() {
        cs_num(&mut out, operand(rng)); // width
    }
    for _ in 0..rng.usize(items + 1) {
        cs_emit(&mut out, rng, env, used);
    }
    if end && !env.cff2 && !rng.chance(1, 10) {
        out.push(14);
    }
    out
}

/// Subroutine sets with recursion shapes.
fn gen_subrs(rng: &mut Rng, env: &CsEnv, n: usize, global: bool, used: &mut [u32; 64], shape: &mut String) -> Vec<Vec<u8>> {
    let style = rng.usize(5);
    shape.push_str(&format!("{}subrs:{};", if global { "g" } else { "l" }, ["random", "self-recursion", "mutual-recursion", "chain", "cross-local-global"][style]));
    let call = |out: &mut Vec<u8>, i: usize, to_global: bool, n_target: usize| {
        cs_num(out, i as i32 - bias(n_target));
        out.push(if to_global { 29 } else { 10 });
    };
    let mut v = vec![];
    for i in 0..n {
        let mut s = vec![];
        match style {
            1 if i == 0 => call(&mut s, 0, global, n),
            2 if i < 2 => call(&mut s, 1 - i, global, n),
            3 => {
                // i -> i+1 -> ... depth n (limit is 10)
                if i + 1 < n {
                    call(&mut s, i + 1, global, n);
                } else {
                    s.extend(gen_charstring(rng, env, 2, used, false));
                }
            }
            4 => {
                // local i calls global i and vice versa
                let other_n = if global { env.n_local } else { env.n_global };
                if other_n > 0 {
                    call(&mut s, i % other_n, !global, other_n);
                }
            }
            _ => s.extend(gen_charstring(rng, env, 3, used, false)),
        }
        if !env.cff2 && !rng.chance(1, 8) {
            s.push(11);
        }
        v.push(s);
    }
    v
}

fn private_dict(rng: &mut Rng, subrs_off: i32, cff2: bool, shape: &mut String) -> Vec<u8> {
    let mut d = vec![];
    let arr = |d: &mut Vec<u8>, rng: &mut Rng, n: usize, op: &[u8]| {
        for _ in 0..n {
            d.extend(int5(*rng.pick(&[0, 1, -1, 10, -10, 500, 700, 32767, -32768, i32::MAX, i32::MIN, 250])));
        }
        d.extend_from_slice(op);
    };
    if rng.chance(2, 3) {
        shape.push_str("private:hints;");
        { let k = *rng.pick(&[0usize, 2, 4, 14, 15, 16, 40]); arr(&mut d, rng, k, &[6]); } // BlueValues
        { let k = *rng.pick(&[0usize, 2, 10, 11, 12]); arr(&mut d, rng, k, &[7]); } // OtherBlues
        if rng.bool() {
            { let k = *rng.pick(&[0usize, 2, 14, 15]); arr(&mut d, rng, k, &[8]); }
            { let k = *rng.pick(&[0usize, 2, 10, 11]); arr(&mut d, rng, k, &[9]); }
        }
        // BlueScale (real), BlueShift, BlueFuzz
        if rng.bool() {
            // real number 0.039625 = 1e 0a 03 96 25 ff ; or extremes
            let reals: [Vec<u8>; 5] = [vec![30, 0x0a, 0x03, 0x96, 0x25, 0xff], vec![30, 0x9b, 0x99, 0xff], vec![30, 0xe9, 0xc9, 0x9f], vec![30, 0x0f], vec![30, 0x1c, 0x99, 0xff]];
            let ri = rng.usize(reals.len());
            d.extend_from_slice(&reals[ri]);
            d.extend_from_slice(&[12, 9]);
        }
        arr(&mut d, rng, 1, &[12, 10]);
        arr(&mut d, rng, 1, &[12, 11]);
        arr(&mut d, rng, 1, &[10]);
        arr(&mut d, rng, 1, &[11]);
        if rng.bool() {
            arr(&mut d, rng, 1, &[12, 17]);
        }
    }
    if cff2 && rng.bool() {
        d.extend(int5(*rng.pick(&[0, 1, 2, 65535, -1])));
        d.push(22); // vsindex
    }
    if cff2 && rng.chance(1, 3) {
        // blend inside the private dict
        for _ in 0..3 {
            d.extend(int5(10));
        }
        d.extend(int5(1));
        d.push(23);
        d.push(10);
    }
    d.extend(int5(subrs_off));
    d.push(19);
    d
}

fn var_store(rng: &mut Rng, axis_count: u16, n_regions: usize) -> Vec<u8> {
    let mut ivs = vec![];
    let n_data = 1 + rng.usize(2);
    ivs.extend_from_slice(&1u16.to_be_bytes());
    let header = 8 + 4 * n_data;
    ivs.extend_from_slice(&(header as u32).to_be_bytes());
    ivs.extend_from_slice(&(n_data as u16).to_be_bytes());
    let region_list_len = 4 + n_regions * axis_count as usize * 6;
    let mut data_off = header + region_list_len;
    let mut datas = vec![];
    for _ in 0..n_data {
        let mut d = vec![];
        d.extend_from_slice(&0u16.to_be_bytes());
        d.extend_from_slice(&0u16.to_be_bytes());
        let k = if rng.chance(1, 5) { rng.usize(n_regions + 3) } else { n_regions };
        d.extend_from_slice(&(k as u16).to_be_bytes());
        for i in 0..k {
            let ri = if rng.chance(1, 10) { 0xFFFF } else { (i % n_regions.max(1)) as u16 };
            d.extend_from_slice(&ri.to_be_bytes());
        }
        ivs.extend_from_slice(&(data_off as u32).to_be_bytes());
        data_off += d.len();
        datas.push(d);
    }
    ivs.extend_from_slice(&axis_count.to_be_bytes());
    ivs.extend_from_slice(&(n_regions as u16).to_be_bytes());
    for _ in 0..n_regions * axis_count as usize {
        for _ in 0..3 {
            let v: i16 = *rng.pick(&[0, 0x4000, -0x4000, 0x2000, i16::MAX, i16::MIN, 1]);
            ivs.extend_from_slice(&v.to_be_bytes());
        }
    }
    for d in datas {
        ivs.extend(d);
    }
    let mut out = vec![];
    out.extend_from_slice(&(ivs.len() as u16).to_be_bytes());
    out.extend(ivs);
    out
}

pub struct CffOut {
    pub table: Vec<u8>,
    pub n_glyphs: usize,
    pub cff2: bool,
    pub axis_count: u16,
}

pub fn gen_cff(rng: &mut Rng, cff2: bool, used: &mut [u32; 64], shape: &mut String) -> CffOut {
    let axis_count: u16 = if cff2 { *rng.pick(&[0u16, 1, 2, 3]) } else { 0 };
    let n_regions = if cff2 { *rng.pick(&[0usize, 1, 2, 3, 17]) } else { 0 };
    let n_local = *rng.pick(&[0usize, 1, 3, 12, 13]);
    let n_global = *rng.pick(&[0usize, 1, 3, 12]);
    let env = CsEnv { n_local, n_global, cff2, n_regions };
    let lsubrs = gen_subrs(rng, &env, n_local, false, used, shape);
    let gsubrs = gen_subrs(rng, &env, n_global, true, used, shape);
    let n_glyphs = 4 + rng.usize(3);
    let mut charstrings = vec![];
    for g in 0..n_glyphs {
        if g == 0 {
            charstrings.push(if cff2 { vec![] } else { vec![14] });
        } else {
            charstrings.push(gen_charstring(rng, &env, 6, used, true));
        }
    }
    let off_size = *rng.pick(&[1u8, 2, 3, 4]);
    let os = |items: &[Vec<u8>]| -> u8 {
        let total: usize = items.iter().map(|i| i.len()).sum::<usize>() + 1;
        if total > 0xFFFF {
            4
        } else if total > 0xFF {
            off_size.max(2)
        } else {
            off_size
        }
    };
    let gsubr_index = index(&gsubrs, cff2, os(&gsubrs));
    let cs_index = index(&charstrings, cff2, os(&charstrings));
    let lsubr_index = index(&lsubrs, cff2, os(&lsubrs));
    let mut t = vec![];
    if !cff2 {
        t.extend_from_slice(&[1, 0, 4, 4]);
        t.extend(index(&[b"A".to_vec()], false, 1));
        // top dict: charstrings(17) + private(18), fixed 17 bytes
        let top_len = 17usize;
        let top_index_len = 2 + 1 + 2 + top_len;
        let string_index = index(&[], false, 1);
        let cs_off = t.len() + top_index_len + string_index.len() + gsubr_index.len();
        let priv_off = cs_off + cs_index.len();
        // private dict length depends on content: build with placeholder, then fix subrs offset
        let mut sh = String::new();
        let mut rng2 = rng.clone();
        let pd0 = private_dict(&mut rng2, 0, false, &mut sh);
        let pd = private_dict(rng, pd0.len() as i32, false, shape);
        let mut top = vec![];
        top.extend(int5(cs_off as i32));
        top.push(17);
        top.extend(int5(pd.len() as i32));
        top.extend(int5(priv_off as i32));
        top.push(18);
        t.extend(index(&[top], false, 1));
        t.extend(string_index);
        t.extend(gsubr_index);
        t.extend(cs_index);
        t.extend(pd);
        t.extend(lsubr_index);
    } else {
        let top_len = 19usize;
        t.extend_from_slice(&[2, 0, 5]);
        t.extend_from_slice(&(top_len as u16).to_be_bytes());
        let cs_off = 5 + top_len + gsubr_index.len();
        let fd_off = cs_off + cs_index.len();
        // font dict: int5 size int5 off 18  = 11 bytes; FDArray INDEX (v2, offsize 1): 4 + 1 + 2 + 11 = 18
        let fd_index_len = 18usize;
        let priv_off = fd_off + fd_index_len;
        let mut sh = String::new();
        let mut rng2 = rng.clone();
        let pd0 = private_dict(&mut rng2, 0, true, &mut sh);
        let pd = private_dict(rng, pd0.len() as i32, true, shape);
        let vs_off = priv_off + pd.len() + lsubr_index.len();
        let mut top = vec![];
        top.extend(int5(cs_off as i32));
        top.push(17);
        top.extend(int5(fd_off as i32));
        top.extend_from_slice(&[12, 36]);
        top.extend(int5(if n_regions > 0 || rng.bool() { vs_off as i32 } else { 0 }));
        top.push(24);
        debug_assert_eq!(top.len(), top_len);
        t.extend(top);
        t.extend(gsubr_index);
        t.extend(cs_index);
        let mut fd = vec![];
        fd.extend(int5(pd.len() as i32));
        fd.extend(int5(priv_off as i32));
        fd.push(18);
        t.extend(index(&[fd], true, 1));
        t.extend(pd);
        t.extend(lsubr_index);
        t.extend(var_store(rng, axis_count, n_regions));
    }
    CffOut { table: t, n_glyphs, cff2, axis_count }
}

/// Wrap a CFF/CFF2 table into an OpenType font (head, maxp 0.5, hhea, hmtx, cmap, OS/2, post).
pub fn cff_font(c: &CffOut, rng: &mut Rng) -> Vec<u8> {
    let upem = *rng.pick(&[1000u16, 1000, 2048, 1, 65535]);
    cff_font_upem(c, upem)
}

pub fn cff_font_upem(c: &CffOut, upem: u16) -> Vec<u8> {
    let mut f = TtFont::default();
    f.upem = upem;
    f.glyphs = vec![vec![]; c.n_glyphs];
    let base = f.build();
    let mut tables: Vec<([u8; 4], Vec<u8>)> = split_tables(&base).into_iter().filter(|(t, _)| !matches!(t, b"glyf" | b"loca")).collect();
    for (t, d) in tables.iter_mut() {
        if t == b"maxp" {
            let mut m = vec![];
            m.extend_from_slice(&0x00005000u32.to_be_bytes());
            m.extend_from_slice(&(c.n_glyphs as u16).to_be_bytes());
            *d = m;
        }
    }
    tables.push((if c.cff2 { *b"CFF2" } else { *b"CFF " }, c.table.clone()));
    build_sfnt(0x4F54544F, &tables)
}

pub fn sec_cff(ctx: &mut Ctx, items: &mut Items) {
    let n = ctx.budget(28_000, 224_000);
    let mut used = [0u32; 64];
    for j in 0..n {
        if !items.mine(ctx) {
            continue;
        }
        let mut rng = Rng::derive(ctx.seed, "cffgen", j as u64);
        let cff2 = j % 2 == 1;
        let mut shape = String::from(if cff2 { "cff2;" } else { "cff1;" });
        let c = gen_cff(&mut rng, cff2, &mut used, &mut shape);
        let mut bytes = cff_font(&c, &mut rng);
        ctx.count("charstring_programs_generated", c.n_glyphs as u64);
        ctx.distinct("cff_tables", fnv64(&c.table));
        ctx.label("cff_shapes", shape.trim_end_matches(';'));
        if rng.chance(1, 5) {
            let dir = vf_core::gen::parse_dir(&bytes, 0);
            let mut p = vf_core::gen::Patcher::new();
            let focus: &[u8; 4] = if cff2 { b"CFF2" } else { b"CFF " };
            vf_core::gen::mutate_random(&mut bytes, &dir, &mut rng, &mut p, Some(focus));
            shape.push_str(&format!("post-mutated{}", p.describe()));
        }
        let name = format!("cffgen#{}", j);
        let cfg = rng.u64();
        let cat = if cff2 { "cff2prog" } else { "cffprog" };
        let fc = FontCase { name: &name, mutation: &shape, category: cat, bytes: &bytes };
        let o = exec_case(ctx, &fc, &GroupSpec::new("open", 0, cfg), None);
        if !o.opened {
            ctx.count(&format!("fonts_failed_to_open:{}", cat), 1);
            continue;
        }
        ctx.count(&format!("fonts_driven:{}", cat), 1);
        let mut specs = vec![
            GroupSpec::new("unhinted", 1, cfg),
            GroupSpec::new(hint_group_name(0, rng.usize(drive::N_TARGETS)), 0, cfg),
            GroupSpec::new(hint_group_name(3, rng.usize(drive::N_TARGETS)), 0, cfg),
        ];
        if rng.chance(1, 3) {
            specs.push(GroupSpec::new(hint_group_name(1, rng.usize(drive::N_TARGETS)), 0, cfg));
            specs.push(GroupSpec::new("helpers", 0, cfg));
            specs.push(GroupSpec::new("meta", 0, cfg));
        }
        for spec in specs {
            exec_case(ctx, &fc, &spec, None);
        }
    }
    for (i, c) in used.iter().enumerate() {
        if *c > 0 {
            ctx.distinct("charstring_grammar_productions_used", i as u64);
        }
    }
}


// ====================================================================== capacity-directed family
//
// Fixed-size tables inside the CFF / CFF2 hinter and the charstring evaluator:
//   * hint map: 96 edges (`MAX_HINTS`, skrifa cff/hint.rs); a normal stem inserts a PAIR of edges, a
//     ghost stem (width -20 top / -21 bottom) ONE edge, language group 1 without blues two synthetic
//     em-box edges, the initial map one baseline edge;
//   * stem hints: 96 (`stem_hints`, `stem_count: u8`), hint mask 12 bytes (`HINT_MASK_SIZE`); the
//     evaluator reads ceil(stems / 8) mask bytes whatever the count;
//   * operand stack: 513 entries (read-fonts postscript/stack.rs; the Type 2 limit is 48);
//   * subroutine nesting: 10 (`NESTING_DEPTH_LIMIT`);
//   * blend: n x (regions + 1) + 1 operands on that stack, 16 precomputed region scalars.
// Every glyph below is ONE point of a sweep across one of these boundaries; glyphs are packed 16 to
// a font and each font is drawn by the `cffcap` group of `drive` (all glyphs, unhinted + CFF-hinted,
// fixed sizes). Enumerated, not sampled: the family does not depend on VERIF_SEED.

/// Local / global subroutines of one directed font. Indices 0..=11 of both and 12..=23 (local) /
/// 12..=22 (global) are call chains (see `Acc::new`); glyph builders append their own after those.
pub struct Acc {
    pub cff2: bool,
    pub lsubrs: Vec<Vec<u8>>,
    pub gsubrs: Vec<Vec<u8>>,
}

const BIAS: i32 = 107; // < 1240 subroutines per font
const CHAIN_END: usize = 11;
const ALT_START: usize = 12;
const ALT_LEVELS: usize = 12; // local 12 -> global 12 -> local 13 -> ... -> local 23

impl Acc {
    pub fn new(cff2: bool) -> Self {
        let mut a = Acc { cff2, lsubrs: vec![], gsubrs: vec![] };
        // chains: subr i pushes `1 1` and calls i + 1; subr 11 is `rlineto` (consumes whatever is there)
        for global in [false, true] {
            for i in 0..=CHAIN_END {
                let mut b = vec![];
                if i < CHAIN_END {
                    cs_num(&mut b, 1);
                    cs_num(&mut b, 1);
                    cs_num(&mut b, (i + 1) as i32 - BIAS);
                    b.push(if global { 29 } else { 10 });
                } else {
                    b.push(5);
                }
                a.ret(&mut b);
                if global { a.gsubrs.push(b) } else { a.lsubrs.push(b) }
            }
        }
        // alternating chain: local 12+i calls global 12+i, global 12+i calls local 12+i+1; local 23 = rlineto
        for i in 0..ALT_LEVELS {
            let mut l = vec![];
            if i + 1 < ALT_LEVELS {
                cs_num(&mut l, 1);
                cs_num(&mut l, 1);
                cs_num(&mut l, (ALT_START + i) as i32 - BIAS);
                l.push(29);
            } else {
                l.push(5);
            }
            a.ret(&mut l);
            a.lsubrs.push(l);
            if i + 1 < ALT_LEVELS {
                let mut g = vec![];
                cs_num(&mut g, (ALT_START + i + 1) as i32 - BIAS);
                g.push(10);
                a.ret(&mut g);
                a.gsubrs.push(g);
            }
        }
        a
    }
    fn ret(&self, b: &mut Vec<u8>) {
        if !self.cff2 {
            b.push(11);
        }
    }
    fn add_local(&mut self, mut body: Vec<u8>) -> usize {
        self.ret(&mut body);
        self.lsubrs.push(body);
        self.lsubrs.len() - 1
    }
    fn add_global(&mut self, mut body: Vec<u8>) -> usize {
        self.ret(&mut body);
        self.gsubrs.push(body);
        self.gsubrs.len() - 1
    }
}

/// Stem operators for `stems` = (position, width) in declaration order, `per_op` stems per operator
/// (every operator starts again from zero; the deltas may be negative).
fn emit_stems(out: &mut Vec<u8>, stems: &[(i32, i32)], op: u8, per_op: usize) {
    for chunk in stems.chunks(per_op.max(1)) {
        let mut prev_end = 0i32;
        for (y, dy) in chunk {
            cs_num(out, y - prev_end);
            cs_num(out, *dy);
            prev_end = y + dy;
        }
        out.push(op);
    }
}

fn mask_bytes(n_stems: usize, pattern: u8) -> Vec<u8> {
    vec![pattern; n_stems.div_ceil(8)]
}

/// A closed box from (x, y0) to (x + 100, y1): touches the whole y range so that every edge of the
/// hint map takes part in the interpolation.
fn emit_box(out: &mut Vec<u8>, first: bool, x: i32, y0: i32, y1: i32, cur: &mut (i32, i32)) {
    let _ = first;
    cs_num(out, x - cur.0);
    cs_num(out, y0 - cur.1);
    out.push(21);
    for (dx, dy) in [(100, 0), (0, (y1 - y0) / 2), (0, y1 - y0 - (y1 - y0) / 2), (-100, 0)] {
        cs_num(out, dx);
        cs_num(out, dy);
    }
    out.push(5);
    *cur = (x, y1);
}

fn finish_glyph(out: &mut Vec<u8>, cff2: bool) {
    if !cff2 {
        out.push(14);
    }
}

#[derive(Clone, Debug)]
pub struct EdgeCfg {
    /// normal stems (two edges each)
    pub pairs: usize,
    /// ghost stems (one edge each)
    pub ghosts: usize,
    /// 0..=6, see `edge_glyph`
    pub order: usize,
    /// 0 top (-20), 1 bottom (-21), 2 alternating
    pub ghost_kind: usize,
    /// 0 hstem x20, 1 hstemhm single operator, 2 hstemhm x24
    pub op_mode: usize,
    /// 0 none, 1 hintmask all, 2 hintmask 0xAA, 3 cntrmask all + hintmask 0x55 ... all, 4 all / 0xAA / all
    pub mask_mode: usize,
    pub via_subr: usize,
    /// 0 none, 1 a zero-width stem, 2 an overlapping duplicate, 3 an inverted pair, each declared in the middle
    pub extra: usize,
    pub width: bool,
}

/// Hint-map capacity: `pairs` disjoint normal stems and `ghosts` ghost stems on a 20-unit grid
/// starting at y = -200, declared in `order`:
/// 0 ascending, ghosts lowest (declared first) | 1 ascending, ghosts highest (declared last) |
/// 2 ascending, ghosts in the middle | 3 descending, ghosts highest (declared first) |
/// 4 descending, ghosts lowest (declared last) | 5 pseudo-random order and ghost slots |
/// 6 pairs ascending, then the ghosts, which sit in the middle of the coordinate range.
pub fn edge_glyph(acc: &mut Acc, c: &EdgeCfg, salt: u64) -> Vec<u8> {
    let n = c.pairs + c.ghosts;
    // which grid slots carry ghosts
    let mut is_ghost = vec![false; n];
    let mark = |v: &mut Vec<bool>, from: usize, k: usize| {
        for g in v.iter_mut().skip(from).take(k) {
            *g = true;
        }
    };
    match c.order {
        0 | 4 => mark(&mut is_ghost, 0, c.ghosts),
        1 | 3 => mark(&mut is_ghost, n - c.ghosts, c.ghosts),
        2 | 6 => mark(&mut is_ghost, (n - c.ghosts) / 2, c.ghosts),
        _ => {
            let mut r = Rng::derive(salt, "edge-ghost-slots", n as u64);
            let mut left = c.ghosts;
            while left > 0 {
                let k = r.usize(n);
                if !is_ghost[k] {
                    is_ghost[k] = true;
                    left -= 1;
                }
            }
        }
    }
    let mut gi = 0usize;
    let mut stems: Vec<(i32, i32, bool)> = (0..n)
        .map(|k| {
            let y = 20 * k as i32 - 200;
            if is_ghost[k] {
                let top = match c.ghost_kind {
                    0 => true,
                    1 => false,
                    _ => {
                        gi += 1;
                        gi % 2 == 1
                    }
                };
                // top ghost: edge at the stem's min; bottom ghost: edge at its max = position - 21
                if top { (y + 5, -20, true) } else { (y + 26, -21, true) }
            } else {
                (y, 10, false)
            }
        })
        .collect();
    match c.order {
        3 | 4 => stems.reverse(),
        5 => Rng::derive(salt, "edge-order", n as u64).shuffle(&mut stems),
        6 => stems.sort_by_key(|s| s.2), // pairs first (stable), ghosts last
        _ => {}
    }
    let mut stems: Vec<(i32, i32)> = stems.into_iter().map(|s| (s.0, s.1)).collect();
    match c.extra {
        1 => stems.insert(n / 2, (20 * (n as i32 / 3) - 200 + 14, 0)),
        2 => {
            let d = stems[n / 3];
            stems.insert(n / 2, d)
        }
        3 => stems.insert(n / 2, (20 * (n as i32 / 4) - 200 + 18, -2)),
        _ => {}
    }
    let n_decl = stems.len();
    let mut hints = vec![];
    let (op, per_op) = match c.op_mode {
        0 => (1u8, 20usize),
        1 => (18, n_decl),
        _ => (18, 24),
    };
    emit_stems(&mut hints, &stems, op, per_op);
    let mut out = vec![];
    if c.width && !acc.cff2 {
        cs_num(&mut out, 321);
    }
    match c.via_subr {
        1 => {
            let i = acc.add_local(hints);
            cs_num(&mut out, i as i32 - BIAS);
            out.push(10);
        }
        2 => {
            // two levels: a global subroutine that calls the local one
            let i = acc.add_local(hints);
            let mut g = vec![];
            cs_num(&mut g, i as i32 - BIAS);
            g.push(10);
            let gi = acc.add_global(g);
            cs_num(&mut out, gi as i32 - BIAS);
            out.push(29);
        }
        _ => out.extend(hints),
    }
    let (y0, y1) = (-230, 20 * n as i32 - 170);
    let mut cur = (0, 0);
    let hm = |out: &mut Vec<u8>, op: u8, pat: u8| {
        out.push(op);
        out.extend(mask_bytes(n_decl, pat));
    };
    match c.mask_mode {
        0 => emit_box(&mut out, true, 50, y0, y1, &mut cur),
        1 => {
            hm(&mut out, 19, 0xFF);
            emit_box(&mut out, true, 50, y0, y1, &mut cur);
        }
        2 => {
            hm(&mut out, 19, 0xAA);
            emit_box(&mut out, true, 50, y0, y1, &mut cur);
        }
        3 => {
            hm(&mut out, 20, 0xFF);
            hm(&mut out, 19, 0x55);
            emit_box(&mut out, true, 50, y0, y1, &mut cur);
            hm(&mut out, 19, 0xFF);
            emit_box(&mut out, false, 250, y0 + 7, y1 - 7, &mut cur);
        }
        _ => {
            hm(&mut out, 19, 0xFF);
            emit_box(&mut out, true, 50, y0, y1, &mut cur);
            hm(&mut out, 19, 0xAA);
            emit_box(&mut out, false, 250, y0 + 3, y1 - 3, &mut cur);
            hm(&mut out, 19, 0xFF);
            emit_box(&mut out, false, 450, y0, y1, &mut cur);
        }
    }
    finish_glyph(&mut out, acc.cff2);
    out
}

/// Stem-array / mask-length capacity: `h` compact hstems (4-unit grid, all disjoint) + `v` vstems,
/// a hint mask of exactly ceil((h + v) / 8) bytes of `pattern`, a box, a counter mask, a box.
/// `op_mode`: 0 hstem/vstem, 1 hstemhm/vstemhm, 2 hstemhm + vstems as operands of the hintmask.
pub fn stemcount_glyph(acc: &mut Acc, h: usize, v: usize, pattern: u8, op_mode: usize, width: bool) -> Vec<u8> {
    let hs: Vec<(i32, i32)> = (0..h).map(|k| (4 * k as i32 - 100, 2)).collect();
    let vs: Vec<(i32, i32)> = (0..v).map(|k| (30 * k as i32, 10)).collect();
    let mut out = vec![];
    if width && !acc.cff2 {
        cs_num(&mut out, 444);
    }
    let (hop, vop) = if op_mode == 0 { (1u8, 3u8) } else { (18, 23) };
    // <= 24 stems per operator keeps the Type 2 stack limit; the last variant uses big operators
    emit_stems(&mut out, &hs, hop, if op_mode == 2 { 200 } else { 24 });
    if op_mode == 2 {
        // implicit vstemhm: operands left on the stack when the mask operator arrives
        let mut prev = 0;
        for (x, dx) in &vs {
            cs_num(&mut out, x - prev);
            cs_num(&mut out, *dx);
            prev = x + dx;
        }
    } else {
        emit_stems(&mut out, &vs, vop, 24);
    }
    let n = h + v;
    out.push(19);
    out.extend(mask_bytes(n, pattern));
    let mut cur = (0, 0);
    let y1 = 4 * h as i32 - 90;
    emit_box(&mut out, true, 20, -110, y1, &mut cur);
    out.push(20);
    out.extend(mask_bytes(n, !pattern));
    emit_box(&mut out, false, 220, -105, y1 - 5, &mut cur);
    out.push(19);
    out.extend(mask_bytes(n, 0xFF));
    emit_box(&mut out, false, 420, -110, y1, &mut cur);
    finish_glyph(&mut out, acc.cff2);
    out
}

/// Operand-stack capacity: exactly `n` operands on the stack when `op` arrives.
/// `op`: a one-byte path / hint operator, 10 = callsubr (to the chain end, `rlineto`), 19 = hintmask
/// (operands = implicit vstems, mask bytes follow), 16 = blend of one value (CFF2).
/// `split`: push the first half in the charstring and the rest inside a subroutine.
pub fn stack_glyph(acc: &mut Acc, n: usize, op: u8, split: bool, n_regions: usize) -> Vec<u8> {
    let mut out = vec![];
    let hint_op = matches!(op, 1 | 3 | 18 | 23 | 19 | 20);
    if !hint_op {
        cs_num(&mut out, 0);
        cs_num(&mut out, 0);
        out.push(21);
    }
    // the CFF1 width rule eats one operand of an odd count before the first stack-clearing operator;
    // that is part of the boundary being swept (n operands are on the stack either way)
    let mut n_plain = n;
    if op == 10 {
        n_plain = n.saturating_sub(1);
    }
    if op == 16 {
        n_plain = n.saturating_sub(n_regions + 2);
    }
    let push = |b: &mut Vec<u8>, k: usize| {
        for i in 0..k {
            cs_num(b, if hint_op { 1 + (i % 2) as i32 } else { 1 - 2 * ((i / 2) % 2) as i32 });
        }
    };
    if split {
        push(&mut out, n_plain / 2);
        let mut body = vec![];
        push(&mut body, n_plain - n_plain / 2);
        let i = acc.add_local(body);
        // the subroutine number is itself an operand while the call executes
        cs_num(&mut out, i as i32 - BIAS);
        out.push(10);
    } else {
        push(&mut out, n_plain);
    }
    match op {
        10 => {
            cs_num(&mut out, CHAIN_END as i32 - BIAS);
            out.push(10);
        }
        16 => {
            // one value, its deltas, the count
            for _ in 0..n_regions + 1 {
                cs_num(&mut out, 2);
            }
            cs_num(&mut out, 1);
            out.push(16);
            out.push(6);
        }
        19 | 20 => {
            out.push(op);
            out.extend(mask_bytes(n / 2, 0xFF));
            let mut cur = (0, 0);
            emit_box(&mut out, true, 10, -50, 300, &mut cur);
        }
        1 | 3 | 18 | 23 => {
            out.push(op);
            let mut cur = (0, 0);
            emit_box(&mut out, true, 10, -50, 300, &mut cur);
        }
        _ => out.push(op),
    }
    finish_glyph(&mut out, acc.cff2);
    out
}

/// Subroutine nesting: enter the call chain so that the deepest `rlineto` runs at nesting `depth`
/// (the charstring itself is level 0). kind 0 local, 1 global, 2 alternating local / global.
/// `with_stems`: declare 48 disjoint hstems first, so the deepest level draws through a full hint map.
pub fn nesting_glyph(acc: &mut Acc, depth: usize, kind: usize, with_stems: bool) -> Vec<u8> {
    let mut out = vec![];
    if with_stems {
        let stems: Vec<(i32, i32)> = (0..48).map(|k| (20 * k - 200, 10)).collect();
        emit_stems(&mut out, &stems, 1, 20);
    }
    cs_num(&mut out, 10);
    cs_num(&mut out, -150);
    out.push(21);
    match kind {
        0 | 1 => {
            // chain has 12 levels: entering at subr s reaches the end at nesting 12 - s
            let depth = depth.clamp(1, CHAIN_END + 1);
            let s = CHAIN_END + 1 - depth;
            cs_num(&mut out, s as i32 - BIAS);
            out.push(if kind == 1 { 29 } else { 10 });
        }
        _ => {
            // alternating chain: local 12+i (nesting 2i+1 from its entry), last local at 2*(levels-1-i)+1
            // entering at local 12+i reaches the end at nesting 2 * (ALT_LEVELS - 1 - i) + 1; one more
            // level is added by going through a fresh global wrapper when `depth` is even
            let want = depth.clamp(1, 2 * ALT_LEVELS);
            let odd = if want % 2 == 1 { want } else { want - 1 };
            let i = ALT_LEVELS - 1 - (odd - 1) / 2;
            if want % 2 == 1 {
                cs_num(&mut out, (ALT_START + i) as i32 - BIAS);
                out.push(10);
            } else {
                let mut g = vec![];
                cs_num(&mut g, (ALT_START + i) as i32 - BIAS);
                g.push(10);
                let gi = acc.add_global(g);
                cs_num(&mut out, gi as i32 - BIAS);
                out.push(29);
            }
        }
    }
    finish_glyph(&mut out, acc.cff2);
    out
}

/// CFF2 blend capacity: `n` values x (`k` regions + 1) + the count, on top of `base` plain operands.
/// `vsindex`: select ItemVariationData 1 (one region) first.
pub fn blend_glyph(acc: &mut Acc, n: usize, k: usize, base: usize, vsindex: bool, twice: bool) -> Vec<u8> {
    let mut out = vec![];
    if vsindex {
        cs_num(&mut out, 1);
        out.push(15);
    }
    cs_num(&mut out, 0);
    cs_num(&mut out, 0);
    out.push(21);
    for i in 0..base {
        cs_num(&mut out, 1 - 2 * ((i / 2) % 2) as i32);
    }
    for i in 0..n * (k + 1) {
        cs_num(&mut out, if i < n { 3 } else { (i % 5) as i32 - 2 });
    }
    cs_num(&mut out, n as i32);
    out.push(16);
    if twice {
        // blend the results again, one at a time, with the stack still deep
        for _ in 0..k + 1 {
            cs_num(&mut out, 1);
        }
        cs_num(&mut out, 1);
        out.push(16);
    }
    out.push(6); // hlineto takes any count
    finish_glyph(&mut out, acc.cff2);
    out
}

/// Private DICT for the directed fonts. kind 0: nothing but Subrs; 1: LanguageGroup 1, no blues (two
/// synthetic em-box edges in every hint map); 2: ordinary blue zones (capture + locking); 3:
/// LanguageGroup 1 with two blues outside the ideographic em box (the other em-box branch).
fn private_dict_directed(kind: usize, subrs_off: i32) -> Vec<u8> {
    let mut d = vec![];
    let arr = |d: &mut Vec<u8>, vals: &[i32], op: &[u8]| {
        for v in vals {
            d.extend(int5(*v));
        }
        d.extend_from_slice(op);
    };
    match kind {
        1 => arr(&mut d, &[1], &[12, 17]),
        2 => {
            arr(&mut d, &[-15, 15, 500, 15, 185, 15], &[6]); // BlueValues -15 0 500 515 700 715
            arr(&mut d, &[-250, 10], &[7]); // OtherBlues
            arr(&mut d, &[80], &[10]); // StdHW
        }
        3 => {
            arr(&mut d, &[-200, 10, 1100, 10], &[6]); // -200 -190 910 920
            arr(&mut d, &[1], &[12, 17]);
        }
        _ => {}
    }
    d.extend(int5(subrs_off));
    d.push(19);
    d
}

/// A VALID variation store: `k` regions (0, 1, 1) on axis i % axis_count, ItemVariationData 0 with all
/// `k` regions, ItemVariationData 1 with the first region only.
fn var_store_directed(axis_count: u16, k: usize) -> Vec<u8> {
    let mut ivs = vec![];
    let datas: Vec<Vec<u16>> = vec![(0..k as u16).collect(), (0..k.min(1) as u16).collect()];
    ivs.extend_from_slice(&1u16.to_be_bytes());
    let header = 8 + 4 * datas.len();
    ivs.extend_from_slice(&(header as u32).to_be_bytes());
    ivs.extend_from_slice(&(datas.len() as u16).to_be_bytes());
    let region_list_len = 4 + k * axis_count as usize * 6;
    let mut off = header + region_list_len;
    for d in &datas {
        ivs.extend_from_slice(&(off as u32).to_be_bytes());
        off += 6 + 2 * d.len();
    }
    ivs.extend_from_slice(&axis_count.to_be_bytes());
    ivs.extend_from_slice(&(k as u16).to_be_bytes());
    for r in 0..k {
        for a in 0..axis_count as usize {
            let t: [i16; 3] = if a == r % axis_count.max(1) as usize { [0, 0x4000, 0x4000] } else { [0, 0, 0] };
            for v in t {
                ivs.extend_from_slice(&v.to_be_bytes());
            }
        }
    }
    for d in &datas {
        ivs.extend_from_slice(&0u16.to_be_bytes());
        ivs.extend_from_slice(&0u16.to_be_bytes());
        ivs.extend_from_slice(&(d.len() as u16).to_be_bytes());
        for r in d {
            ivs.extend_from_slice(&r.to_be_bytes());
        }
    }
    let mut out = vec![];
    out.extend_from_slice(&(ivs.len() as u16).to_be_bytes());
    out.extend(ivs);
    out
}

/// Assemble a well-formed CFF / CFF2 table around the given charstrings and subroutines.
pub fn assemble_directed(cff2: bool, charstrings: &[Vec<u8>], acc: &Acc, pd_kind: usize, axis_count: u16, n_regions: usize) -> CffOut {
    let os = |items: &[Vec<u8>]| -> u8 {
        let total: usize = items.iter().map(|i| i.len()).sum::<usize>() + 1;
        if total > 0xFFFF {
            4
        } else if total > 0xFF {
            2
        } else {
            1
        }
    };
    let gsubr_index = index(&acc.gsubrs, cff2, os(&acc.gsubrs));
    let cs_index = index(charstrings, cff2, os(charstrings));
    let lsubr_index = index(&acc.lsubrs, cff2, os(&acc.lsubrs));
    let pd0 = private_dict_directed(pd_kind, 0);
    let pd = private_dict_directed(pd_kind, pd0.len() as i32);
    let mut t = vec![];
    if !cff2 {
        t.extend_from_slice(&[1, 0, 4, 4]);
        t.extend(index(&[b"A".to_vec()], false, 1));
        let top_len = 17usize;
        let top_index_len = 2 + 1 + 2 + top_len;
        let string_index = index(&[], false, 1);
        let cs_off = t.len() + top_index_len + string_index.len() + gsubr_index.len();
        let priv_off = cs_off + cs_index.len();
        let mut top = vec![];
        top.extend(int5(cs_off as i32));
        top.push(17);
        top.extend(int5(pd.len() as i32));
        top.extend(int5(priv_off as i32));
        top.push(18);
        t.extend(index(&[top], false, 1));
        t.extend(string_index);
        t.extend(gsubr_index);
        t.extend(cs_index);
        t.extend(pd);
        t.extend(lsubr_index);
    } else {
        let top_len = 19usize;
        t.extend_from_slice(&[2, 0, 5]);
        t.extend_from_slice(&(top_len as u16).to_be_bytes());
        let cs_off = 5 + top_len + gsubr_index.len();
        let fd_off = cs_off + cs_index.len();
        let fd_index_len = 18usize;
        let priv_off = fd_off + fd_index_len;
        let vs_off = priv_off + pd.len() + lsubr_index.len();
        let mut top = vec![];
        top.extend(int5(cs_off as i32));
        top.push(17);
        top.extend(int5(fd_off as i32));
        top.extend_from_slice(&[12, 36]);
        top.extend(int5(vs_off as i32));
        top.push(24);
        t.extend(top);
        t.extend(gsubr_index);
        t.extend(cs_index);
        let mut fd = vec![];
        fd.extend(int5(pd.len() as i32));
        fd.extend(int5(priv_off as i32));
        fd.push(18);
        t.extend(index(&[fd], true, 1));
        t.extend(pd);
        t.extend(lsubr_index);
        t.extend(var_store_directed(axis_count, n_regions));
    }
    CffOut { table: t, n_glyphs: charstrings.len(), cff2, axis_count }
}

/// One enumerated glyph of the directed family.
#[derive(Clone, Debug)]
pub enum Directed {
    Edge(EdgeCfg),
    StemCount { h: usize, v: usize, pattern: u8, op_mode: usize, width: bool },
    Stack { n: usize, op: u8, split: bool },
    Nesting { depth: usize, kind: usize, with_stems: bool },
    Blend { n: usize, base: usize, vsindex: bool, twice: bool },
    Reserved { a: i32, b: i32, op2: u8, fill: usize },
}

/// Font-level parameters the glyph recipes depend on.
#[derive(Clone, Copy, Debug)]
pub struct Flavor {
    pub cff2: bool,
    pub pd_kind: usize,
    /// CFF2: regions of ItemVariationData 0
    pub n_regions: usize,
}

/// All glyph recipes of one flavor, in a fixed order.
pub fn directed_recipes(fl: &Flavor) -> Vec<Directed> {
    let mut v = vec![];
    let embox = if fl.pd_kind == 1 || fl.pd_kind == 3 { 2usize } else { 0 };
    let mut i = 0usize;
    // (A) edge totals 92..=100 (em-box edges included) with 0..=3 ghosts, every declaration order
    for total in 92..=100usize {
        for ghosts in 0..=3usize {
            let Some(rest) = total.checked_sub(ghosts + embox) else { continue };
            if rest % 2 != 0 {
                continue;
            }
            let pairs = rest / 2;
            for order in 0..7usize {
                if ghosts == 0 && !matches!(order, 0 | 3 | 5) {
                    continue; // the orders differ only in where the ghosts go
                }
                for ghost_kind in 0..(if ghosts == 0 { 1 } else { 3 }) {
                    // every stem-operator mode x mask mode; subroutine / extra-stem / width variants
                    // cycle with coprime periods
                    for op_mode in 0..3usize {
                        for mask_mode in 0..5usize {
                            let j = i * 15 + op_mode * 5 + mask_mode;
                            v.push(Directed::Edge(EdgeCfg {
                                pairs,
                                ghosts,
                                order,
                                ghost_kind,
                                op_mode,
                                mask_mode,
                                via_subr: if j % 7 == 3 { 1 } else if j % 7 == 5 { 2 } else { 0 },
                                extra: if j % 4 == 2 { 1 + (j / 4) % 3 } else { 0 },
                                width: j % 2 == 1,
                            }));
                        }
                    }
                    i += 1;
                }
            }
        }
    }
    // pairs sweeping 40..=56 with no / one ghost, every mask mode
    for pairs in 40..=56usize {
        for ghosts in 0..=1usize {
            for mask_mode in 0..5usize {
                i += 1;
                v.push(Directed::Edge(EdgeCfg { pairs, ghosts, order: [0, 1, 2, 3, 6][i % 5], ghost_kind: i % 3, op_mode: i % 3, mask_mode, via_subr: (i % 5 == 0) as usize, extra: 0, width: i % 2 == 0 }));
            }
        }
    }
    // (B) stem counts around the 48 / 96 limits and every multiple of 8 up to 13 bytes of mask
    let mut totals: Vec<usize> = vec![];
    for k in 1..=13usize {
        totals.extend([8 * k - 1, 8 * k, 8 * k + 1]);
    }
    totals.extend([46, 50, 94, 98, 127, 128, 129, 200, 255, 256, 257]);
    totals.sort_unstable();
    totals.dedup();
    for (q, t) in totals.iter().enumerate() {
        for (w, vst) in [0usize, 1, 8].iter().enumerate() {
            if *vst >= *t {
                continue;
            }
            let pattern = [0xFFu8, 0xAA, 0x00, 0x01, 0x80][(q + w) % 5];
            v.push(Directed::StemCount { h: t - vst, v: *vst, pattern, op_mode: (q + 2 * w) % 3, width: (q + w) % 2 == 0 });
        }
    }
    // vstem-heavy: 8 hstems and 32..=48 vstems (total 40..=56), explicit and implicit (mask operands)
    for t in 40..=56usize {
        v.push(Directed::StemCount { h: 8, v: t - 8, pattern: [0xFFu8, 0xAA, 0x55][t % 3], op_mode: t % 3, width: t % 2 == 0 });
    }
    // (C') reserved Type 2 operators that address the stack / the transient array by operand value
    // (put, get, index, roll, and friends) at and beyond their spec limits: must be error values
    for (q, (a, b)) in [(31, 0), (32, 0), (33, 1), (-1, 2), (0x7fff, 3), (47, 47), (48, 48), (512, 1), (513, -1), (-32768, 32767)].iter().enumerate() {
        for op2 in [20u8, 21, 29, 30, 28, 18, 27] {
            v.push(Directed::Reserved { a: *a, b: *b, op2, fill: [0usize, 46, 510][q % 3] });
        }
    }
    // (C) operand-stack depth at the Type 2 limit (48) and at the implementation limit (513)
    for n in [46usize, 47, 48, 49, 50, 95, 96, 97, 192, 193, 510, 511, 512, 513, 514, 515] {
        for (q, op) in [5u8, 8, 1, 18, 19, 20, 21, 6, 7, 24, 25, 26, 27, 30, 31, 10, 16].iter().enumerate() {
            if *op == 16 && !fl.cff2 {
                continue;
            }
            v.push(Directed::Stack { n, op: *op, split: (n + q) % 3 == 0 });
        }
    }
    // (D) subroutine nesting 8..=12 (limit 10), three chain kinds, with and without a full hint map
    for depth in 8..=12usize {
        for kind in 0..3usize {
            for with_stems in [false, true] {
                v.push(Directed::Nesting { depth, kind, with_stems });
            }
        }
    }
    // (E) CFF2 blend operand counts at the stack limit
    if fl.cff2 {
        let k = fl.n_regions;
        let n_max = 512 / (k + 1);
        for n in [0usize, 1, n_max.saturating_sub(1), n_max, n_max + 1] {
            for (vsindex, twice) in [(false, false), (false, true), (true, false)] {
                v.push(Directed::Blend { n, base: 0, vsindex, twice });
            }
        }
        // a single-value blend on top of a nearly full stack
        let fit = 513usize.saturating_sub(k + 2);
        for base in [fit.saturating_sub(2), fit.saturating_sub(1), fit, fit + 1] {
            v.push(Directed::Blend { n: 1, base, vsindex: false, twice: base % 2 == 0 });
            v.push(Directed::Blend { n: 1, base: base.min(510), vsindex: true, twice: false });
        }
    }
    v
}

pub fn directed_flavors() -> Vec<Flavor> {
    let mut v = vec![];
    for pd_kind in 0..4 {
        v.push(Flavor { cff2: false, pd_kind, n_regions: 0 });
    }
    for (pd_kind, n_regions) in [(0usize, 1usize), (1, 2), (2, 16), (3, 17), (0, 0)] {
        v.push(Flavor { cff2: true, pd_kind, n_regions });
    }
    v
}

pub const DIRECTED_GLYPHS_PER_FONT: usize = 16;

/// Build directed font number `chunk` of `fl` (glyph 0 = .notdef, then up to 16 recipes).
pub fn directed_font(fl: &Flavor, recipes: &[Directed], chunk: usize) -> (Vec<u8>, String) {
    let mut acc = Acc::new(fl.cff2);
    let mut charstrings = vec![if fl.cff2 { vec![] } else { vec![14] }];
    let lo = chunk * DIRECTED_GLYPHS_PER_FONT;
    let hi = (lo + DIRECTED_GLYPHS_PER_FONT).min(recipes.len());
    for (q, r) in recipes[lo..hi].iter().enumerate() {
        let salt = (lo + q) as u64;
        charstrings.push(match r {
            Directed::Edge(c) => edge_glyph(&mut acc, c, salt),
            Directed::StemCount { h, v, pattern, op_mode, width } => stemcount_glyph(&mut acc, *h, *v, *pattern, *op_mode, *width),
            Directed::Stack { n, op, split } => stack_glyph(&mut acc, *n, *op, *split, fl.n_regions),
            Directed::Nesting { depth, kind, with_stems } => nesting_glyph(&mut acc, *depth, *kind, *with_stems),
            Directed::Blend { n, base, vsindex, twice } => blend_glyph(&mut acc, *n, fl.n_regions, *base, *vsindex, *twice),
            Directed::Reserved { a, b, op2, fill } => {
                let mut out = vec![];
                cs_num(&mut out, 0);
                cs_num(&mut out, 0);
                out.push(21);
                for i in 0..*fill {
                    cs_num(&mut out, (i % 3) as i32);
                }
                cs_num(&mut out, *a);
                cs_num(&mut out, *b);
                out.push(12);
                out.push(*op2);
                out.push(6);
                finish_glyph(&mut out, fl.cff2);
                out
            }
        });
    }
    let axis_count = if fl.cff2 { [1u16, 2, 3][chunk % 3] } else { 0 };
    let c = assemble_directed(fl.cff2, &charstrings, &acc, fl.pd_kind, axis_count, fl.n_regions);
    let upem = [1000u16, 1000, 2048, 250][chunk % 4];
    let desc = format!("directed:{}:pd{}:regions{}:upem{}:glyphs{}..{}", if fl.cff2 { "cff2" } else { "cff1" }, fl.pd_kind, fl.n_regions, upem, lo, hi);
    (cff_font_upem(&c, upem), desc)
}

fn directed_kind(r: &Directed) -> &'static str {
    match r {
        Directed::Edge(_) => "hint-map-edges",
        Directed::StemCount { .. } => "stem-count/mask-length",
        Directed::Stack { .. } => "operand-stack",
        Directed::Nesting { .. } => "subr-nesting",
        Directed::Blend { .. } => "blend-operands",
        Directed::Reserved { .. } => "reserved-stack-operators",
    }
}

/// The capacity-directed section: every font of every flavor, one `cffcap` case each (split by size
/// when the glyphs are heavy).
pub fn sec_cff_directed(ctx: &mut Ctx, items: &mut Items) {
    let mut n_fonts = 0u64;
    let mut n_glyphs = 0u64;
    for (fi, fl) in directed_flavors().iter().enumerate() {
        let recipes = directed_recipes(fl);
        let chunks = recipes.len().div_ceil(DIRECTED_GLYPHS_PER_FONT);
        n_glyphs += recipes.len() as u64;
        for chunk in 0..chunks {
            n_fonts += 1;
            if !items.mine(ctx) {
                continue;
            }
            let (bytes, desc) = directed_font(fl, &recipes, chunk);
            let lo = chunk * DIRECTED_GLYPHS_PER_FONT;
            let hi = (lo + DIRECTED_GLYPHS_PER_FONT).min(recipes.len());
            for r in &recipes[lo..hi] {
                ctx.count(&format!("cffcap_glyphs:{}", directed_kind(r)), 1);
                if let Directed::Edge(c) = r {
                    let embox = if fl.pd_kind == 1 || fl.pd_kind == 3 { 2 } else { 0 };
                    ctx.distinct("cffcap_edge_totals_(edges,ghosts,order)", (((2 * c.pairs + c.ghosts + embox) * 8 + c.ghosts) * 8 + c.order) as u64);
                    ctx.label("cffcap_hint_map_edge_totals", &format!("{}", 2 * c.pairs + c.ghosts + embox));
                }
            }
            ctx.count("charstring_programs_generated", (hi - lo) as u64);
            ctx.distinct("cff_tables", fnv64(&bytes));
            let name = format!("cffcap#{}.{}", fi, chunk);
            let cat = if fl.cff2 { "cff2cap" } else { "cffcap" };
            let fc = FontCase { name: &name, mutation: &desc, category: cat, bytes: &bytes };
            let o = exec_case(ctx, &fc, &GroupSpec::new("open", 0, 0), None);
            if !o.opened {
                // a generator defect, not a finding: the directed fonts are meant to be well formed
                ctx.inconclusive(format!("directed CFF font {} ({}) does not open", name, desc));
                continue;
            }
            ctx.count(&format!("fonts_driven:{}", cat), 1);
            exec_case(ctx, &fc, &GroupSpec::new("cffcap", 0, 0), None);
        }
    }
    ctx.extra.insert(
        "cff_capacity_directed".into(),
        serde_json::json!({"flavors": directed_flavors().len(), "fonts": n_fonts, "glyph_programs": n_glyphs,
            "sizes": format!("{:?}", drive::CFFCAP_SIZES), "hinting": "Interpreter x {Mono, Smooth} + AutoFallback x Light, pedantic off/on",
            "note": "enumerated, independent of VERIF_SEED"}),
    );
}
