//! Program-level CFF / CFF2 generators: tables assembled from raw bytes whose
//! charstrings come from a Type 2 operator grammar biased to subroutine
//! recursion (callsubr / callgsubr depth), huge operand stacks, blend / vsindex,
//! hint-mask edge cases, seac-like endchar and extreme operands; private DICT
//! hint parameters at extremes.

use crate::drive::{self, exec_case, hint_group_name, FontCase, GroupSpec};
use crate::ttgen::TtFont;
use crate::Items;
use vf_core::gen::{split_tables, build_sfnt};
use vf_core::{fnv64, Ctx, Rng};

fn index(items: &[Vec<u8>], v2: bool, off_size: u8) -> Vec<u8> {
    let mut out = vec![];
    if v2 {
        out.extend_from_slice(&(items.len() as u32).to_be_bytes());
    } else {
        out.extend_from_slice(&(items.len() as u16).to_be_bytes());
    }
    if items.is_empty() {
        return out;
    }
    out.push(off_size);
    let mut off = 1u32;
    let put = |out: &mut Vec<u8>, v: u32| {
        let b = v.to_be_bytes();
        out.extend_from_slice(&b[4 - off_size as usize..]);
    };
    put(&mut out, off);
    for it in items {
        off += it.len() as u32;
        put(&mut out, off);
    }
    for it in items {
        out.extend_from_slice(it);
    }
    out
}

/// DICT integer, fixed 5-byte form.
fn int5(v: i32) -> Vec<u8> {
    let mut o = vec![29];
    o.extend_from_slice(&v.to_be_bytes());
    o
}

/// Charstring number encodings.
pub fn cs_num(out: &mut Vec<u8>, v: i32) {
    if (-107..=107).contains(&v) {
        out.push((v + 139) as u8);
    } else if (108..=1131).contains(&v) {
        let w = v - 108;
        out.push((w / 256 + 247) as u8);
        out.push((w % 256) as u8);
    } else if (-1131..=-108).contains(&v) {
        let w = -v - 108;
        out.push((w / 256 + 251) as u8);
        out.push((w % 256) as u8);
    } else if (-32768..=32767).contains(&v) {
        out.push(28);
        out.extend_from_slice(&(v as i16).to_be_bytes());
    } else {
        out.push(255);
        out.extend_from_slice(&v.to_be_bytes());
    }
}

pub fn cs_fixed(out: &mut Vec<u8>, bits: i32) {
    out.push(255);
    out.extend_from_slice(&bits.to_be_bytes());
}

fn bias(n: usize) -> i32 {
    if n < 1240 {
        107
    } else if n < 33900 {
        1131
    } else {
        32768
    }
}

pub struct CsEnv {
    pub n_local: usize,
    pub n_global: usize,
    pub cff2: bool,
    pub n_regions: usize,
}

fn operand(rng: &mut Rng) -> i32 {
    *rng.pick(&[0, 1, -1, 10, 50, 100, -100, 107, 108, -108, 1131, 1132, 32767, -32768, 500, 250, 3])
}

fn push_operands(out: &mut Vec<u8>, rng: &mut Rng, k: usize) {
    for _ in 0..k {
        if rng.chance(1, 12) {
            cs_fixed(out, *rng.pick(&[i32::MAX, i32::MIN, 0x7FFF_0000u32 as i32, 0x8000_0000u32 as i32, 1, -1, 0x0001_0000, 0xFFFF]));
        } else {
            cs_num(out, operand(rng));
        }
    }
}

/// One production of the Type 2 grammar.
pub fn cs_emit(out: &mut Vec<u8>, rng: &mut Rng, env: &CsEnv, used: &mut [u32; 64]) {
    let r = rng.usize(30);
    used[r.min(63)] += 1;
    match r {
        0 => {
            push_operands(out, rng, 2);
            out.push(21); // rmoveto
        }
        1 => {
            push_operands(out, rng, 1);
            out.push(if rng.bool() { 22 } else { 4 });
        }
        2 => {
            { let k = 2 * (1 + rng.usize(4)); push_operands(out, rng, k); }
            out.push(5); // rlineto
        }
        3 => {
            { let k = 1 + rng.usize(5); push_operands(out, rng, k); }
            out.push(if rng.bool() { 6 } else { 7 });
        }
        4 => {
            { let k = 6 * (1 + rng.usize(3)); push_operands(out, rng, k); }
            out.push(8); // rrcurveto
        }
        5 => {
            { let k = 4 + rng.usize(9); push_operands(out, rng, k); }
            out.push(*rng.pick(&[24u8, 25, 26, 27, 30, 31]));
        }
        6 => {
            // flex family
            let (n, op) = *rng.pick(&[(7usize, 34u8), (13, 35), (9, 36), (11, 37)]);
            let k = if rng.chance(1, 4) { rng.usize(14) } else { n };
            push_operands(out, rng, k);
            out.push(12);
            out.push(op);
        }
        7 => {
            // stems + hintmask / cntrmask with right / wrong mask length
            let pairs = *rng.pick(&[0usize, 1, 2, 4, 8, 48, 49, 96, 97, 200]);
            push_operands(out, rng, (2 * pairs).min(400));
            out.push(*rng.pick(&[1u8, 3, 18, 23]));
            if rng.bool() {
                out.push(if rng.bool() { 19 } else { 20 });
                let need = pairs.div_ceil(8);
                let k = *rng.pick(&[need, need, need.saturating_sub(1), need + 1, 0]);
                out.extend(rng.bytes(k.min(40)));
            }
        }
        8 => {
            // hintmask with operands on the stack (implicit vstem)
            { let k = 2 * rng.usize(5); push_operands(out, rng, k); }
            out.push(19);
            { let k = rng.usize(3); out.extend(rng.bytes(k)); }
        }
        9 => {
            // callsubr
            let n = env.n_local;
            let rnd = rng.below(n.max(1) as u64) as i32;
            let i = *rng.pick(&[0i32, 1, n as i32 - 1, n as i32, -1, 32767, rnd]);
            cs_num(out, i - bias(n));
            out.push(10);
        }
        10 => {
            let n = env.n_global;
            let rnd = rng.below(n.max(1) as u64) as i32;
            let i = *rng.pick(&[0i32, 1, n as i32 - 1, n as i32, -1, 32767, rnd]);
            cs_num(out, i - bias(n));
            out.push(29);
        }
        11 => {
            out.push(11); // return (out of place at top level / illegal in CFF2)
        }
        12 => {
            // huge operand stack
            let k = *rng.pick(&[48usize, 96, 192, 512, 513, 514, 600]);
            for i in 0..k {
                cs_num(out, (i % 200) as i32);
            }
            if rng.bool() {
                out.push(*rng.pick(&[5u8, 8, 1, 21, 16]));
            }
        }
        13 => {
            // blend (CFF2) / or in CFF1 an invalid operator
            let n = *rng.pick(&[0i32, 1, 2, 3, 100, 513, -1, 32767]);
            let k = env.n_regions;
            let cnt = (n.clamp(0, 6) as usize) * (k + 1);
            let cnt = if rng.chance(1, 4) { rng.usize(cnt + 2) } else { cnt };
            push_operands(out, rng, cnt);
            cs_num(out, n);
            out.push(16);
        }
        14 => {
            // vsindex
            cs_num(out, *rng.pick(&[0, 1, 2, 255, -1, 32767, 65535]));
            out.push(15);
        }
        15 => {
            // arithmetic / storage operators of CFF1 (reserved in CFF2)
            { let k = rng.usize(4); push_operands(out, rng, k); }
            out.push(12);
            out.push(*rng.pick(&[3u8, 4, 5, 9, 10, 11, 12, 14, 15, 18, 20, 21, 22, 23, 24, 26, 27, 28, 29, 30]));
        }
        16 => {
            // seac-like endchar: adx ady bchar achar endchar
            if rng.bool() {
                cs_num(out, operand(rng)); // width
            }
            cs_num(out, operand(rng));
            cs_num(out, operand(rng));
            cs_num(out, *rng.pick(&[0, 1, 65, 255, 256, -1]));
            cs_num(out, *rng.pick(&[0, 1, 66, 255, 256, -1]));
            out.push(14);
        }
        17 => {
            out.push(14); // endchar
        }
        18 => {
            // reserved operators and truncated number encodings
            match rng.usize(5) {
                0 => out.push(*rng.pick(&[0u8, 2, 9, 13, 17])),
                1 => out.push(28),
                2 => {
                    out.push(255);
                    { let k = rng.usize(4); out.extend(rng.bytes(k)); }
                }
                3 => {
                    out.push(12);
                }
                _ => {
                    out.push(12);
                    out.push(*rng.pick(&[0u8, 1, 2, 6, 7, 8, 13, 16, 17, 19, 25, 31, 33, 38, 255]));
                }
            }
        }
        19 => {
            // operator with too few operands
            out.push(*rng.pick(&[21u8, 22, 4, 5, 8, 24, 25, 26, 27, 30, 31, 10, 29, 16, 15]));
        }
        20 => {
            // extreme coordinates accumulate: repeated big moves
            for _ in 0..1 + rng.usize(6) {
                cs_fixed(out, *rng.pick(&[i32::MAX, i32::MIN, 0x7FFF_FFFF, 0x4000_0000]));
                cs_fixed(out, *rng.pick(&[i32::MAX, i32::MIN, 0x7FFF_FFFF, 0x4000_0000]));
                out.push(21);
            }
        }
        21 => {
            { let k = 1 + rng.usize(5); out.extend(rng.bytes(k)); }
        }
        _ => {
            // well-formed filler: a small closed box
            cs_num(out, 10);
            cs_num(out, 10);
            out.push(21);
            cs_num(out, 100);
            out.push(6);
            cs_num(out, 100);
            out.push(7);
            cs_num(out, -100);
            out.push(6);
        }
    }
}

pub fn gen_charstring(rng: &mut Rng, env: &CsEnv, items: usize, used: &mut [u32; 64], end: bool) -> Vec<u8> {
    let mut out = vec![];
    if !env.cff2 && rng.bool() {
        cs_num(&mut out, operand(rng)); // width
    }
    for _ in 0..rng.usize(items + 1) {
        cs_emit(&mut out, rng, env, used);
    }
    if end && !env.cff2 && !rng.chance(1, 10) {
        out.push(14);
    }
    out
}

/// Subroutine sets with recursion shapes.
fn gen_subrs(rng: &mut Rng, env: &CsEnv, n: usize, global: bool, used: &mut [u32; 64], shape: &mut String) -> Vec<Vec<u8>> {
    let style = rng.usize(5);
    shape.push_str(&format!("{}subrs:{};", if global { "g" } else { "l" }, ["random", "self-recursion", "mutual-recursion", "chain", "cross-local-global"][style]));
    let call = |out: &mut Vec<u8>, i: usize, to_global: bool, n_target: usize| {
        cs_num(out, i as i32 - bias(n_target));
        out.push(if to_global { 29 } else { 10 });
    };
    let mut v = vec![];
    for i in 0..n {
        let mut s = vec![];
        match style {
            1 if i == 0 => call(&mut s, 0, global, n),
            2 if i < 2 => call(&mut s, 1 - i, global, n),
            3 => {
                // i -> i+1 -> ... depth n (limit is 10)
                if i + 1 < n {
                    call(&mut s, i + 1, global, n);
                } else {
                    s.extend(gen_charstring(rng, env, 2, used, false));
                }
            }
            4 => {
                // local i calls global i and vice versa
                let other_n = if global { env.n_local } else { env.n_global };
                if other_n > 0 {
                    call(&mut s, i % other_n, !global, other_n);
                }
            }
            _ => s.extend(gen_charstring(rng, env, 3, used, false)),
        }
        if !env.cff2 && !rng.chance(1, 8) {
            s.push(11);
        }
        v.push(s);
    }
    v
}

fn private_dict(rng: &mut Rng, subrs_off: i32, cff2: bool, shape: &mut String) -> Vec<u8> {
    let mut d = vec![];
    let arr = |d: &mut Vec<u8>, rng: &mut Rng, n: usize, op: &[u8]| {
        for _ in 0..n {
            d.extend(int5(*rng.pick(&[0, 1, -1, 10, -10, 500, 700, 32767, -32768, i32::MAX, i32::MIN, 250])));
        }
        d.extend_from_slice(op);
    };
    if rng.chance(2, 3) {
        shape.push_str("private:hints;");
        { let k = *rng.pick(&[0usize, 2, 4, 14, 15, 16, 40]); arr(&mut d, rng, k, &[6]); } // BlueValues
        { let k = *rng.pick(&[0usize, 2, 10, 11, 12]); arr(&mut d, rng, k, &[7]); } // OtherBlues
        if rng.bool() {
            { let k = *rng.pick(&[0usize, 2, 14, 15]); arr(&mut d, rng, k, &[8]); }
            { let k = *rng.pick(&[0usize, 2, 10, 11]); arr(&mut d, rng, k, &[9]); }
        }
        // BlueScale (real), BlueShift, BlueFuzz
        if rng.bool() {
            // real number 0.039625 = 1e 0a 03 96 25 ff ; or extremes
            let reals: [Vec<u8>; 5] = [vec![30, 0x0a, 0x03, 0x96, 0x25, 0xff], vec![30, 0x9b, 0x99, 0xff], vec![30, 0xe9, 0xc9, 0x9f], vec![30, 0x0f], vec![30, 0x1c, 0x99, 0xff]];
            let ri = rng.usize(reals.len());
            d.extend_from_slice(&reals[ri]);
            d.extend_from_slice(&[12, 9]);
        }
        arr(&mut d, rng, 1, &[12, 10]);
        arr(&mut d, rng, 1, &[12, 11]);
        arr(&mut d, rng, 1, &[10]);
        arr(&mut d, rng, 1, &[11]);
        if rng.bool() {
            arr(&mut d, rng, 1, &[12, 17]);
        }
    }
    if cff2 && rng.bool() {
        d.extend(int5(*rng.pick(&[0, 1, 2, 65535, -1])));
        d.push(22); // vsindex
    }
    if cff2 && rng.chance(1, 3) {
        // blend inside the private dict
        for _ in 0..3 {
            d.extend(int5(10));
        }
        d.extend(int5(1));
        d.push(23);
        d.push(10);
    }
    d.extend(int5(subrs_off));
    d.push(19);
    d
}

fn var_store(rng: &mut Rng, axis_count: u16, n_regions: usize) -> Vec<u8> {
    let mut ivs = vec![];
    let n_data = 1 + rng.usize(2);
    ivs.extend_from_slice(&1u16.to_be_bytes());
    let header = 8 + 4 * n_data;
    ivs.extend_from_slice(&(header as u32).to_be_bytes());
    ivs.extend_from_slice(&(n_data as u16).to_be_bytes());
    let region_list_len = 4 + n_regions * axis_count as usize * 6;
    let mut data_off = header + region_list_len;
    let mut datas = vec![];
    for _ in 0..n_data {
        let mut d = vec![];
        d.extend_from_slice(&0u16.to_be_bytes());
        d.extend_from_slice(&0u16.to_be_bytes());
        let k = if rng.chance(1, 5) { rng.usize(n_regions + 3) } else { n_regions };
        d.extend_from_slice(&(k as u16).to_be_bytes());
        for i in 0..k {
            let ri = if rng.chance(1, 10) { 0xFFFF } else { (i % n_regions.max(1)) as u16 };
            d.extend_from_slice(&ri.to_be_bytes());
        }
        ivs.extend_from_slice(&(data_off as u32).to_be_bytes());
        data_off += d.len();
        datas.push(d);
    }
    ivs.extend_from_slice(&axis_count.to_be_bytes());
    ivs.extend_from_slice(&(n_regions as u16).to_be_bytes());
    for _ in 0..n_regions * axis_count as usize {
        for _ in 0..3 {
            let v: i16 = *rng.pick(&[0, 0x4000, -0x4000, 0x2000, i16::MAX, i16::MIN, 1]);
            ivs.extend_from_slice(&v.to_be_bytes());
        }
    }
    for d in datas {
        ivs.extend(d);
    }
    let mut out = vec![];
    out.extend_from_slice(&(ivs.len() as u16).to_be_bytes());
    out.extend(ivs);
    out
}

pub struct CffOut {
    pub table: Vec<u8>,
    pub n_glyphs: usize,
    pub cff2: bool,
    pub axis_count: u16,
}

pub fn gen_cff(rng: &mut Rng, cff2: bool, used: &mut [u32; 64], shape: &mut String) -> CffOut {
    let axis_count: u16 = if cff2 { *rng.pick(&[0u16, 1, 2, 3]) } else { 0 };
    let n_regions = if cff2 { *rng.pick(&[0usize, 1, 2, 3, 17]) } else { 0 };
    let n_local = *rng.pick(&[0usize, 1, 3, 12, 13]);
    let n_global = *rng.pick(&[0usize, 1, 3, 12]);
    let env = CsEnv { n_local, n_global, cff2, n_regions };
    let lsubrs = gen_subrs(rng, &env, n_local, false, used, shape);
    let gsubrs = gen_subrs(rng, &env, n_global, true, used, shape);
    let n_glyphs = 4 + rng.usize(3);
    let mut charstrings = vec![];
    for g in 0..n_glyphs {
        if g == 0 {
            charstrings.push(if cff2 { vec![] } else { vec![14] });
        } else {
            charstrings.push(gen_charstring(rng, &env, 6, used, true));
        }
    }
    let off_size = *rng.pick(&[1u8, 2, 3, 4]);
    let os = |items: &[Vec<u8>]| -> u8 {
        let total: usize = items.iter().map(|i| i.len()).sum::<usize>() + 1;
        if total > 0xFFFF {
            4
        } else if total > 0xFF {
            off_size.max(2)
        } else {
            off_size
        }
    };
    let gsubr_index = index(&gsubrs, cff2, os(&gsubrs));
    let cs_index = index(&charstrings, cff2, os(&charstrings));
    let lsubr_index = index(&lsubrs, cff2, os(&lsubrs));
    let mut t = vec![];
    if !cff2 {
        t.extend_from_slice(&[1, 0, 4, 4]);
        t.extend(index(&[b"A".to_vec()], false, 1));
        // top dict: charstrings(17) + private(18), fixed 17 bytes
        let top_len = 17usize;
        let top_index_len = 2 + 1 + 2 + top_len;
        let string_index = index(&[], false, 1);
        let cs_off = t.len() + top_index_len + string_index.len() + gsubr_index.len();
        let priv_off = cs_off + cs_index.len();
        // private dict length depends on content: build with placeholder, then fix subrs offset
        let mut sh = String::new();
        let mut rng2 = rng.clone();
        let pd0 = private_dict(&mut rng2, 0, false, &mut sh);
        let pd = private_dict(rng, pd0.len() as i32, false, shape);
        let mut top = vec![];
        top.extend(int5(cs_off as i32));
        top.push(17);
        top.extend(int5(pd.len() as i32));
        top.extend(int5(priv_off as i32));
        top.push(18);
        t.extend(index(&[top], false, 1));
        t.extend(string_index);
        t.extend(gsubr_index);
        t.extend(cs_index);
        t.extend(pd);
        t.extend(lsubr_index);
    } else {
        let top_len = 19usize;
        t.extend_from_slice(&[2, 0, 5]);
        t.extend_from_slice(&(top_len as u16).to_be_bytes());
        let cs_off = 5 + top_len + gsubr_index.len();
        let fd_off = cs_off + cs_index.len();
        // font dict: int5 size int5 off 18  = 11 bytes; FDArray INDEX (v2, offsize 1): 4 + 1 + 2 + 11 = 18
        let fd_index_len = 18usize;
        let priv_off = fd_off + fd_index_len;
        let mut sh = String::new();
        let mut rng2 = rng.clone();
        let pd0 = private_dict(&mut rng2, 0, true, &mut sh);
        let pd = private_dict(rng, pd0.len() as i32, true, shape);
        let vs_off = priv_off + pd.len() + lsubr_index.len();
        let mut top = vec![];
        top.extend(int5(cs_off as i32));
        top.push(17);
        top.extend(int5(fd_off as i32));
        top.extend_from_slice(&[12, 36]);
        top.extend(int5(if n_regions > 0 || rng.bool() { vs_off as i32 } else { 0 }));
        top.push(24);
        debug_assert_eq!(top.len(), top_len);
        t.extend(top);
        t.extend(gsubr_index);
        t.extend(cs_index);
        let mut fd = vec![];
        fd.extend(int5(pd.len() as i32));
        fd.extend(int5(priv_off as i32));
        fd.push(18);
        t.extend(index(&[fd], true, 1));
        t.extend(pd);
        t.extend(lsubr_index);
        t.extend(var_store(rng, axis_count, n_regions));
    }
    CffOut { table: t, n_glyphs, cff2, axis_count }
}

/// Wrap a CFF/CFF2 table into an OpenType font (head, maxp 0.5, hhea, hmtx, cmap, OS/2, post).
pub fn cff_font(c: &CffOut, rng: &mut Rng) -> Vec<u8> {
    let mut f = TtFont::default();
    f.upem = *rng.pick(&[1000u16, 1000, 2048, 1, 65535]);
    f.glyphs = vec![vec![]; c.n_glyphs];
    let base = f.build();
    let mut tables: Vec<([u8; 4], Vec<u8>)> = split_tables(&base).into_iter().filter(|(t, _)| !matches!(t, b"glyf" | b"loca")).collect();
    for (t, d) in tables.iter_mut() {
        if t == b"maxp" {
            let mut m = vec![];
            m.extend_from_slice(&0x00005000u32.to_be_bytes());
            m.extend_from_slice(&(c.n_glyphs as u16).to_be_bytes());
            *d = m;
        }
    }
    tables.push((if c.cff2 { *b"CFF2" } else { *b"CFF " }, c.table.clone()));
    build_sfnt(0x4F54544F, &tables)
}

pub fn sec_cff(ctx: &mut Ctx, items: &mut Items) {
    let n = ctx.budget(28_000, 224_000);
    let mut used = [0u32; 64];
    for j in 0..n {
        if !items.mine(ctx) {
            continue;
        }
        let mut rng = Rng::derive(ctx.seed, "cffgen", j as u64);
        let cff2 = j % 2 == 1;
        let mut shape = String::from(if cff2 { "cff2;" } else { "cff1;" });
        let c = gen_cff(&mut rng, cff2, &mut used, &mut shape);
        let mut bytes = cff_font(&c, &mut rng);
        ctx.count("charstring_programs_generated", c.n_glyphs as u64);
        ctx.distinct("cff_tables", fnv64(&c.table));
        ctx.label("cff_shapes", shape.trim_end_matches(';'));
        if rng.chance(1, 5) {
            let dir = vf_core::gen::parse_dir(&bytes, 0);
            let mut p = vf_core::gen::Patcher::new();
            let focus: &[u8; 4] = if cff2 { b"CFF2" } else { b"CFF " };
            vf_core::gen::mutate_random(&mut bytes, &dir, &mut rng, &mut p, Some(focus));
            shape.push_str(&format!("post-mutated{}", p.describe()));
        }
        let name = format!("cffgen#{}", j);
        let cfg = rng.u64();
        let cat = if cff2 { "cff2prog" } else { "cffprog" };
        let fc = FontCase { name: &name, mutation: &shape, category: cat, bytes: &bytes };
        let o = exec_case(ctx, &fc, &GroupSpec::new("open", 0, cfg), None);
        if !o.opened {
            ctx.count(&format!("fonts_failed_to_open:{}", cat), 1);
            continue;
        }
        ctx.count(&format!("fonts_driven:{}", cat), 1);
        let mut specs = vec![
            GroupSpec::new("unhinted", 1, cfg),
            GroupSpec::new(hint_group_name(0, rng.usize(drive::N_TARGETS)), 0, cfg),
            GroupSpec::new(hint_group_name(3, rng.usize(drive::N_TARGETS)), 0, cfg),
        ];
        if rng.chance(1, 3) {
            specs.push(GroupSpec::new(hint_group_name(1, rng.usize(drive::N_TARGETS)), 0, cfg));
            specs.push(GroupSpec::new("helpers", 0, cfg));
            specs.push(GroupSpec::new("meta", 0, cfg));
        }
        for spec in specs {
            exec_case(ctx, &fc, &spec, None);
        }
    }
    for (i, c) in used.iter().enumerate() {
        if *c > 0 {
            ctx.distinct("charstring_grammar_productions_used", i as u64);
        }
    }
}
