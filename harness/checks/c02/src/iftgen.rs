//! Constructive, boundary-directed generators of WELL-FORMED IFT mapping tables.
//!
//! Mutating the handful of font-test-data samples never reaches the width / size
//! boundaries of the mapping formats, so this module *builds* format-1 and
//! format-2 patch maps from a structural description:
//!
//! * format 1: `maxEntryIndex` around the u8/u16 field-width switch (254..257)
//!   and other sizes, glyph counts 1..257, `firstMappedGlyph` at 0 / 1 / count,
//!   feature map absent / empty / 1..n records with 0..m entry-map records each,
//!   feature map as the LAST bytes of the table, before the glyph map, or
//!   followed by padding; and the table truncated exactly at every field
//!   boundary;
//! * format 2: entry counts around 0 / 255 / 256 / 257 with the declared count
//!   off by one, entry-id deltas at the int24 limits, id-string lengths 0..65535
//!   with the string storage exact / one short / one over, code-point biases
//!   (none / u16 / u24) next to 0xFFFF, 0x10FFFF and 0xFFFFFF with sparse bit
//!   sets of every branch factor up to its maximum height, child-index counts up
//!   to 127, entries as the last bytes of the table, truncations at every field
//!   boundary;
//!
//! each placed in a small glyf font whose `maxp`/`cmap` agree with the map, and
//! queried with subset definitions that select every feature / code point that
//! is present (and `All`, single features, inverted sets, nothing) through
//! `intersecting_patches`, `PatchGroup::select_next_patches`, `has_uris`, `uris`.
//!
//! Item `i` is a pure function of `(i, seed)`: `i < N_ENUM` enumerates the
//! directed product (seed-independent), larger `i` draw the same dimensions (and
//! a few hostile twists) at random.

use crate::ift::{absorb, IStats};
use crate::ttgen::{simple_glyph, TtFont};
use crate::Items;
use incremental_font_transfer::{
    patch_group::PatchGroup,
    patchmap::{intersecting_patches, DesignSpace, FeatureSet, SubsetDefinition},
};
use read_fonts::{
    collections::{IntSet, RangeSet},
    types::{Fixed, Tag},
    FontRef,
};
use serde_json::json;
use std::cell::RefCell;
use std::collections::{BTreeSet, HashMap, VecDeque};
use vf_core::gen::{build_sfnt, split_tables};
use vf_core::{fnv64, Ctx, Digest, Rng};

fn w16(v: &mut Vec<u8>, x: u16) {
    v.extend_from_slice(&x.to_be_bytes());
}
fn w24(v: &mut Vec<u8>, x: u32) {
    v.extend_from_slice(&x.to_be_bytes()[1..]);
}
fn w32(v: &mut Vec<u8>, x: u32) {
    v.extend_from_slice(&x.to_be_bytes());
}

// ---------------------------------------------------------------- format 1

#[derive(Clone, Debug)]
pub struct FeatRec {
    pub tag: [u8; 4],
    pub first_new: u16,
    pub maps: Vec<(u16, u16)>,
    /// declared entryMapCount (normally maps.len())
    pub declared: Option<u16>,
}

#[derive(Clone, Debug)]
pub struct F1 {
    pub max_entry: u16,
    pub max_glyph_entry: u16,
    pub glyph_count: u32,
    pub first_mapped: u16,
    /// entry index of glyph `first_mapped + k`
    pub entry_index: Vec<u16>,
    pub feats: Option<Vec<FeatRec>>,
    /// 0 = feature map is the last sub-table, 1 = feature map before the glyph map, 2 = last + trailing padding
    pub placement: u8,
    pub applied: Vec<u16>,
    pub template: Vec<u8>,
    pub patch_format: u8,
    pub field_flags: u8,
    pub compat: u32,
}

impl F1 {
    fn wide(&self) -> bool {
        self.max_entry >= 256
    }
    fn wx(&self, v: &mut Vec<u8>, x: u16) {
        if self.wide() {
            w16(v, x)
        } else {
            v.push(x as u8)
        }
    }
    /// (table bytes, offsets of field boundaries inside the table)
    pub fn build(&self) -> (Vec<u8>, Vec<usize>) {
        let mut t = vec![1u8, 0, 0, 0, self.field_flags];
        let mut bounds = vec![1usize, 4, 5];
        for i in 0..4u32 {
            w32(&mut t, self.compat + i);
        }
        bounds.push(t.len());
        w16(&mut t, self.max_entry);
        bounds.push(t.len());
        w16(&mut t, self.max_glyph_entry);
        bounds.push(t.len());
        w24(&mut t, self.glyph_count);
        bounds.push(t.len());
        let gm_pos = t.len();
        w32(&mut t, 0);
        bounds.push(t.len());
        let fm_pos = t.len();
        w32(&mut t, 0);
        bounds.push(t.len());
        let mut bitmap = vec![0u8; self.max_entry as usize / 8 + 1];
        for a in &self.applied {
            if let Some(b) = bitmap.get_mut(*a as usize / 8) {
                *b |= 1 << (a % 8);
            }
        }
        t.extend(bitmap);
        bounds.push(t.len());
        w16(&mut t, self.template.len() as u16);
        bounds.push(t.len());
        t.extend_from_slice(&self.template);
        bounds.push(t.len());
        t.push(self.patch_format);
        bounds.push(t.len());
        if self.field_flags & 1 != 0 {
            w32(&mut t, 456);
            bounds.push(t.len());
        }
        if self.field_flags & 2 != 0 {
            w32(&mut t, 789);
            bounds.push(t.len());
        }
        let mut glyph_map = vec![];
        let mut gb = vec![];
        w16(&mut glyph_map, self.first_mapped);
        gb.push(glyph_map.len());
        for e in &self.entry_index {
            self.wx(&mut glyph_map, *e);
            if gb.len() < 6 {
                gb.push(glyph_map.len());
            }
        }
        gb.push(glyph_map.len());
        let mut feat = vec![];
        let mut fb = vec![];
        if let Some(fs) = &self.feats {
            w16(&mut feat, fs.len() as u16);
            fb.push(feat.len());
            for f in fs {
                feat.extend_from_slice(&f.tag);
                fb.push(feat.len());
                self.wx(&mut feat, f.first_new);
                fb.push(feat.len());
                self.wx(&mut feat, f.declared.unwrap_or(f.maps.len() as u16));
                fb.push(feat.len());
            }
            for f in fs {
                for (a, b) in &f.maps {
                    self.wx(&mut feat, *a);
                    fb.push(feat.len());
                    self.wx(&mut feat, *b);
                    fb.push(feat.len());
                }
            }
        }
        let put = |t: &mut Vec<u8>, bounds: &mut Vec<usize>, pos: usize, sub: &[u8], sb: &[usize]| {
            let off = t.len();
            t[pos..pos + 4].copy_from_slice(&(off as u32).to_be_bytes());
            t.extend_from_slice(sub);
            bounds.extend(sb.iter().map(|b| off + b));
        };
        if self.placement == 1 && self.feats.is_some() {
            put(&mut t, &mut bounds, fm_pos, &feat, &fb);
            put(&mut t, &mut bounds, gm_pos, &glyph_map, &gb);
        } else {
            put(&mut t, &mut bounds, gm_pos, &glyph_map, &gb);
            if self.feats.is_some() {
                put(&mut t, &mut bounds, fm_pos, &feat, &fb);
            }
        }
        if self.placement == 2 {
            t.push(0);
        }
        bounds.sort_unstable();
        bounds.dedup();
        (t, bounds)
    }

    pub fn shape(&self) -> String {
        let fs = match &self.feats {
            None => "none".to_string(),
            Some(f) => format!("{:?}", f.iter().map(|r| r.maps.len()).collect::<Vec<_>>()),
        };
        format!(
            "fmt1(M={},Mg={},G={},first={},feat={},place={},pf={},flags={})",
            self.max_entry, self.max_glyph_entry, self.glyph_count, self.first_mapped, fs, self.placement, self.patch_format, self.field_flags
        )
    }
}

pub const F1_M: [u16; 14] = [0, 1, 2, 7, 8, 254, 255, 256, 257, 511, 512, 1000, 65534, 65535];
pub const F1_FEATS: [&[usize]; 9] = [&[usize::MAX], &[], &[1], &[3], &[0, 3], &[2, 2], &[1, 0, 4], &[7], &[3, 3, 3]];
pub const F1_G: [u32; 4] = [1, 3, 16, 257];
const TAGS: [&[u8; 4]; 6] = [b"c2sc", b"dlig", b"liga", b"rlig", b"smcp", b"zzzz"];

/// A well-formed format-1 map for the given dimension indices.
pub fn f1_directed(m_i: usize, feat_i: usize, placement: u8, mg_mode: usize, g_i: usize, fm_mode: usize, salt: usize) -> F1 {
    let m = F1_M[m_i % F1_M.len()];
    let mg = match mg_mode % 3 {
        0 => m / 2,
        1 => m.saturating_sub(1),
        _ => m,
    };
    let g = F1_G[g_i % F1_G.len()];
    let first = match fm_mode % 3 {
        0 => 1u32.min(g),
        1 => 0,
        _ => g,
    } as u16;
    let entry_index: Vec<u16> = (first as u32..g).map(|gid| if gid % 5 == 4 { mg } else { (gid % (mg as u32 + 1)) as u16 }).collect();
    let shape = F1_FEATS[feat_i % F1_FEATS.len()];
    let feats = if shape.first() == Some(&usize::MAX) {
        None
    } else {
        let mut next_new = mg as u32 + 1;
        let mut k = 0u32;
        Some(
            shape
                .iter()
                .enumerate()
                .map(|(r, n)| {
                    let first_new = next_new.min(m as u32) as u16;
                    next_new += *n as u32;
                    let maps = (0..*n)
                        .map(|_| {
                            k += 1;
                            match k % 5 {
                                0 => (0, mg),
                                1 => (mg.min(1), mg.min(1)),
                                2 => (mg, mg),
                                3 => (0, 0),
                                _ => (mg.min(2), mg.min(3)),
                            }
                        })
                        .collect();
                    FeatRec { tag: *TAGS[r % TAGS.len()], first_new, maps, declared: None }
                })
                .collect(),
        )
    };
    F1 {
        max_entry: m,
        max_glyph_entry: mg,
        glyph_count: g,
        first_mapped: first,
        entry_index,
        feats,
        placement: placement % 3,
        applied: if salt % 4 == 1 { vec![1, mg, m] } else { vec![] },
        template: if salt % 3 == 0 { b"//x.y/{id}".to_vec() } else { b"ABCDEF\xc9\xa4".to_vec() },
        patch_format: [3u8, 1, 2][salt % 3],
        field_flags: if salt % 5 == 0 { (salt / 5 % 4) as u8 } else { 0 },
        compat: 1,
    }
}

// ---------------------------------------------------------------- sparse bit sets

/// Encode `vals` (< bf^height) as a sparse bit set of the given branch factor and height. Nodes at depth
/// `fill_depth` that contain a value are written as all-zero ("everything below is set").
pub fn sparse_encode(bf: u32, height: u32, vals: &[u64], fill_depth: Option<u32>) -> Vec<u8> {
    let code = match bf {
        2 => 0u32,
        4 => 1,
        8 => 2,
        _ => 3,
    };
    let mut out = vec![(code | (height.min(31) << 2)) as u8];
    if height == 0 {
        return out;
    }
    let mut cur = 0u32;
    let mut nbits = 0u32;
    let mut emit = |out: &mut Vec<u8>, mask: u32| match bf {
        2 | 4 => {
            cur |= mask << nbits;
            nbits += bf;
            if nbits == 8 {
                out.push(cur as u8);
                cur = 0;
                nbits = 0;
            }
        }
        8 => out.push(mask as u8),
        _ => out.extend_from_slice(&mask.to_le_bytes()),
    };
    let mut q: VecDeque<(u64, u32)> = VecDeque::new();
    q.push_back((0, 1));
    let mut nodes = 0;
    while let Some((start, depth)) = q.pop_front() {
        nodes += 1;
        if nodes > 20_000 {
            break;
        }
        let child = (bf as u64).saturating_pow(height - depth);
        if fill_depth == Some(depth) {
            emit(&mut out, 0);
            continue;
        }
        let mut mask = 0u32;
        for i in 0..bf as u64 {
            let lo = start.saturating_add(i.saturating_mul(child));
            let hi = lo.saturating_add(child);
            if vals.iter().any(|v| *v >= lo && *v < hi) {
                mask |= 1 << i;
                if depth < height {
                    q.push_back((lo, depth + 1));
                }
            }
        }
        emit(&mut out, mask);
    }
    if nbits > 0 {
        out.push(cur as u8);
    }
    out
}

// ---------------------------------------------------------------- format 2

#[derive(Clone, Debug)]
pub enum IdField {
    Delta(i32),
    StrLen(u16),
}

#[derive(Clone, Debug, Default)]
pub struct E2 {
    pub fds: Option<(Vec<[u8; 4]>, Vec<([u8; 4], i32, i32)>)>,
    pub children: Option<(bool, Vec<u32>)>,
    pub id: Option<IdField>,
    pub patch_format: Option<u8>,
    /// (bias mode 0 = none / 1 = u16 / 2 = u24, bias, encoded set)
    pub cps: Option<(u8, u32, Vec<u8>)>,
    pub ignored: bool,
}

#[derive(Clone, Debug)]
pub struct F2 {
    pub entries: Vec<E2>,
    pub declared_delta: i32,
    pub string_ids: bool,
    pub strings: Vec<u8>,
    /// 0 = entries last (after the id strings if any), 1 = id strings last, 2 = last + trailing byte
    pub placement: u8,
    pub template: Vec<u8>,
    pub default_format: u8,
    pub compat: u32,
    pub field_flags: u8,
}

impl F2 {
    pub fn build(&self) -> (Vec<u8>, Vec<usize>) {
        let mut t = vec![2u8, 0, 0, 0, self.field_flags];
        let mut bounds = vec![1usize, 4, 5];
        for i in 0..4u32 {
            w32(&mut t, self.compat + i);
        }
        bounds.push(t.len());
        t.push(self.default_format);
        bounds.push(t.len());
        w24(&mut t, (self.entries.len() as i64 + self.declared_delta as i64).clamp(0, 0xFFFFFF) as u32);
        bounds.push(t.len());
        let eo = t.len();
        w32(&mut t, 0);
        bounds.push(t.len());
        let so = t.len();
        w32(&mut t, 0);
        bounds.push(t.len());
        w16(&mut t, self.template.len() as u16);
        bounds.push(t.len());
        t.extend_from_slice(&self.template);
        bounds.push(t.len());
        if self.field_flags & 1 != 0 {
            w32(&mut t, 456);
            bounds.push(t.len());
        }
        if self.field_flags & 2 != 0 {
            w32(&mut t, 789);
            bounds.push(t.len());
        }
        let mut ent = vec![];
        let mut eb = vec![];
        for (k, e) in self.entries.iter().enumerate() {
            let mark = |eb: &mut Vec<usize>, ent: &Vec<u8>| {
                // field boundaries of the first and the last few entries only
                if k < 3 || k + 2 >= self.entries.len() {
                    eb.push(ent.len());
                }
            };
            let mut flags = 0u8;
            if e.fds.is_some() {
                flags |= 1;
            }
            if e.children.is_some() {
                flags |= 2;
            }
            if e.id.is_some() {
                flags |= 4;
            }
            if e.patch_format.is_some() {
                flags |= 8;
            }
            if let Some((mode, _, _)) = &e.cps {
                flags |= [0x10u8, 0x20, 0x30][*mode as usize % 3];
            }
            if e.ignored {
                flags |= 0x40;
            }
            ent.push(flags);
            mark(&mut eb, &ent);
            if let Some((tags, segs)) = &e.fds {
                ent.push(tags.len() as u8);
                for tg in tags {
                    ent.extend_from_slice(tg);
                }
                mark(&mut eb, &ent);
                w16(&mut ent, segs.len() as u16);
                for (tg, a, b) in segs {
                    ent.extend_from_slice(tg);
                    w32(&mut ent, *a as u32);
                    w32(&mut ent, *b as u32);
                }
                mark(&mut eb, &ent);
            }
            if let Some((conj, ch)) = &e.children {
                ent.push(((*conj as u8) << 7) | (ch.len() as u8 & 0x7F));
                mark(&mut eb, &ent);
                for c in ch {
                    w24(&mut ent, *c);
                }
                mark(&mut eb, &ent);
            }
            match &e.id {
                Some(IdField::Delta(d)) => w24(&mut ent, *d as u32 & 0xFFFFFF),
                Some(IdField::StrLen(l)) => w16(&mut ent, *l),
                None => {}
            }
            mark(&mut eb, &ent);
            if let Some(pf) = e.patch_format {
                ent.push(pf);
                mark(&mut eb, &ent);
            }
            if let Some((mode, bias, set)) = &e.cps {
                match mode % 3 {
                    1 => w16(&mut ent, *bias as u16),
                    2 => w24(&mut ent, *bias),
                    _ => {}
                }
                mark(&mut eb, &ent);
                ent.extend_from_slice(set);
                mark(&mut eb, &ent);
            }
        }
        let put = |t: &mut Vec<u8>, bounds: &mut Vec<usize>, pos: usize, sub: &[u8], sb: &[usize]| {
            let off = t.len();
            t[pos..pos + 4].copy_from_slice(&(off as u32).to_be_bytes());
            t.extend_from_slice(sub);
            bounds.extend(sb.iter().map(|b| off + b));
            bounds.push(t.len());
        };
        if self.placement == 1 && self.string_ids {
            put(&mut t, &mut bounds, eo, &ent, &eb);
            put(&mut t, &mut bounds, so, &self.strings, &[]);
        } else {
            if self.string_ids {
                put(&mut t, &mut bounds, so, &self.strings, &[]);
            }
            put(&mut t, &mut bounds, eo, &ent, &eb);
        }
        if self.placement == 2 {
            t.push(0);
        }
        bounds.sort_unstable();
        bounds.dedup();
        (t, bounds)
    }
}

pub const F2_N: [usize; 8] = [0, 1, 2, 3, 255, 256, 257, 1000];
const F2_DELTAS: [i32; 6] = [0, 1, -1, -2, 0x7FFFFF, -0x800000];
const F2_STRLENS: [u16; 6] = [0, 1, 2, 255, 256, 65535];
pub const F2_IDS: usize = 6 + 6 * 3;
pub const F2_CPS: usize = 16;

/// Code-point field `k`: (bias mode, bias, encoded set) and the code points it denotes (for the subset definitions).
fn f2_cps(k: usize) -> (Option<(u8, u32, Vec<u8>)>, Vec<u32>) {
    match k % F2_CPS {
        0 => (None, vec![]),
        1 => (Some((0, 0, sparse_encode(8, 2, &[0, 5, 63], None))), vec![0, 5, 63]),
        2 => (Some((0, 0, sparse_encode(32, 5, &[0x10FFFF, 0x110000, 0x41], None))), vec![0x41, 0x10FFFF]),
        // the whole range of the tree as one all-zero root node
        3 => (Some((0, 0, sparse_encode(32, 7, &[], Some(1)))), vec![0, 0x41, 0x10FFFF]),
        4 => (Some((1, 0xFFFF, sparse_encode(2, 2, &[0, 1, 3], None))), vec![0xFFFF, 0x10000, 0x10002]),
        5 => (Some((1, 0, sparse_encode(4, 8, &[0xFFFF, 0xFFFE], None))), vec![0xFFFE, 0xFFFF]),
        6 => (Some((2, 0x10FFFF, sparse_encode(2, 1, &[0, 1], None))), vec![0x10FFFF]),
        7 => (Some((2, 0x110000, sparse_encode(2, 1, &[0], None))), vec![0x10FFFF]),
        8 => (Some((2, 0xFFFFFF, sparse_encode(8, 1, &[0, 7], None))), vec![0x10FFFF]),
        9 => (Some((2, 0x10FFFD, sparse_encode(4, 1, &[0, 1, 2, 3], None))), vec![0x10FFFD, 0x10FFFE, 0x10FFFF]),
        // maximum heights of each branch factor, one value at the far end of the tree
        10 => (Some((0, 0, sparse_encode(2, 31, &[(1u64 << 31) - 1, 0x41], None))), vec![0x41]),
        11 => (Some((1, 0xFFFF, sparse_encode(4, 16, &[(1u64 << 32) - 1, 0], None))), vec![0xFFFF]),
        12 => (Some((2, 0xFFFFFF, sparse_encode(8, 11, &[(1u64 << 33) - 1, 1], None))), vec![]),
        13 => (Some((2, 1, sparse_encode(32, 7, &[(1u64 << 35) - 1, 0x10FFFE], Some(6)))), vec![0x10FFFF]),
        // empty set (height 0) and a filled node below the root
        14 => (Some((1, 5, sparse_encode(2, 0, &[], None))), vec![]),
        _ => (Some((0, 0, sparse_encode(4, 3, &[17, 40], Some(2)))), vec![16, 17, 31, 32, 47]),
    }
}

pub fn f2_directed(n_i: usize, decl: i32, id_i: usize, cp_i: usize, placement: u8, salt: usize) -> (F2, Vec<u32>) {
    let n = F2_N[n_i % F2_N.len()];
    let id_i = id_i % F2_IDS;
    let string_ids = id_i >= 6;
    let (cps, cp_vals) = f2_cps(cp_i);
    let mut strings = vec![];
    let mut entries = vec![];
    for k in 0..n {
        let mut e = E2::default();
        // the boundary value sits on entry 1 (or 0), the others stay ordinary
        let special = k == 1.min(n - 1);
        if string_ids {
            let l = if special { F2_STRLENS[(id_i - 6) / 3] } else { [1u16, 0, 2][k % 3] };
            if special || k % 4 != 3 {
                e.id = Some(IdField::StrLen(l));
                strings.extend((0..l as usize).map(|j| b'a' + ((j + k) % 26) as u8));
            }
        } else if special {
            e.id = Some(IdField::Delta(F2_DELTAS[id_i]));
        } else if k % 3 == 1 {
            e.id = Some(IdField::Delta([0, 1, 3][k % 3]));
        }
        if special || (k % 2 == 0 && n <= 3) {
            e.cps = cps.clone();
        } else {
            e.cps = Some((0, 0, sparse_encode(8, 1, &[(k % 8) as u64], None)));
        }
        if k % 4 == 2 || (k == 0 && salt % 2 == 1) {
            e.fds = Some((
                vec![*TAGS[k % TAGS.len()], *TAGS[(k + 2) % TAGS.len()]][..1 + k % 2].to_vec(),
                if k % 8 == 2 { vec![(*b"wght", 100 << 16, 900 << 16), (*b"wdth", i32::MIN, i32::MAX)] } else { vec![] },
            ));
        }
        if k % 5 == 3 {
            e.children = Some((k % 2 == 0, vec![0, (k - 1) as u32]));
        }
        if k + 1 == n && n > 130 {
            // the maximum child count
            e.children = Some((salt % 2 == 0, (0..127u32).map(|c| (c * 2) % (n as u32 - 1)).collect()));
        }
        if k % 7 == 5 {
            e.patch_format = Some([1u8, 2, 3][k % 3]);
        }
        e.ignored = k % 11 == 9;
        entries.push(e);
    }
    if string_ids {
        match (id_i - 6) % 3 {
            1 => {
                strings.pop();
            }
            2 => strings.push(b'!'),
            _ => {}
        }
    }
    let f2 = F2 {
        entries,
        declared_delta: decl,
        string_ids,
        strings,
        placement: placement % 3,
        template: if salt % 3 == 0 { b"{d1}/{d2}/{id}".to_vec() } else if string_ids { b"//a/{id64}/{id}".to_vec() } else { b"foo/{id}".to_vec() },
        default_format: [3u8, 1, 2][salt % 3],
        compat: 1,
        field_flags: if salt % 7 == 0 { (salt / 7 % 4) as u8 } else { 0 },
    };
    (f2, cp_vals)
}

// ---------------------------------------------------------------- items

pub struct Variant {
    pub name: String,
    pub font: Vec<u8>,
}

pub struct Directed {
    pub shape: String,
    pub variants: Vec<Variant>,
    pub defs: Vec<SubsetDefinition>,
}

fn base_font(glyphs: usize, ift: &[u8], iftx: Option<&[u8]>) -> Vec<u8> {
    let mut f = TtFont::default();
    for g in 0..glyphs.max(1) {
        if g < 3 {
            f.glyphs.push(simple_glyph(&[vec![(0, 0, true), (10, 0, true), (10, 10 + g as i16, true)]], &[]));
        } else {
            f.glyphs.push(vec![]);
        }
    }
    let mut t = split_tables(&f.build());
    t.push((*b"IFT ", ift.to_vec()));
    if let Some(x) = iftx {
        t.push((*b"IFTX", x.to_vec()));
    }
    build_sfnt(0x00010000, &t)
}

/// A non-inverted set with many members (the format-1 path maps each member through the cmap); the whole
/// Unicode range (1.1M lookups per call) only when `full`.
fn many_cps(full: bool) -> IntSet<u32> {
    let mut s = IntSet::empty();
    if full {
        s.insert_range(0..=0x10FFFF);
    } else {
        s.insert_range(0..=0x2FF);
        s.insert_range(0xFFF0..=0x1000F);
        s.insert_range(0x10FFF0..=0x10FFFF);
    }
    s
}

fn tag_set(tags: &[[u8; 4]]) -> FeatureSet {
    FeatureSet::Set(tags.iter().map(|t| Tag::new(t)).collect::<BTreeSet<_>>())
}

fn wide_design_space() -> DesignSpace {
    let mut m: HashMap<Tag, RangeSet<Fixed>> = HashMap::new();
    let mut r = RangeSet::default();
    r.insert(Fixed::MIN..=Fixed::MAX);
    m.insert(Tag::new(b"wght"), r.clone());
    m.insert(Tag::new(b"wdth"), r);
    DesignSpace::Ranges(m)
}

/// Subset definitions that select every feature / code point present (and more, and less).
/// The first `CORE_DEFS` are also run on the truncated variants.
pub const CORE_DEFS: usize = 4;
fn defs_for(tags: &[[u8; 4]], cps: &[u32], mapped: std::ops::RangeInclusive<u32>, full_range: bool) -> Vec<SubsetDefinition> {
    let mut v = vec![];
    let mut present: IntSet<u32> = IntSet::empty();
    present.extend_unsorted(cps.iter().copied());
    present.insert_range(mapped.clone());
    v.push(SubsetDefinition::new(present.clone(), tag_set(tags), wide_design_space()));
    v.push(SubsetDefinition::new(IntSet::all(), FeatureSet::All, DesignSpace::All));
    v.push(SubsetDefinition::new(many_cps(full_range), tag_set(tags), DesignSpace::All));
    // the LAST feature alone (all earlier records are skipped over), then the others
    for t in tags.iter().rev().take(4) {
        v.push(SubsetDefinition::new(present.clone(), tag_set(&[*t]), DesignSpace::All));
    }
    // every feature, no code point; a single code point; everything but the mapped code points
    v.push(SubsetDefinition::new(IntSet::empty(), tag_set(tags), DesignSpace::All));
    let mut one = IntSet::empty();
    one.insert(*mapped.start());
    v.push(SubsetDefinition::new(one, tag_set(tags), DesignSpace::Ranges(HashMap::new())));
    let mut inv = IntSet::empty();
    inv.insert_range(mapped);
    inv.invert();
    v.push(SubsetDefinition::new(inv, FeatureSet::All, wide_design_space()));
    // tags below / between / above the present ones
    v.push(SubsetDefinition::new(present, tag_set(&[*b"aaaa", *b"dlih", *b"zzzz", *b"\xff\xff\xff\xff"]), DesignSpace::All));
    v.push(SubsetDefinition::default());
    v
}

pub const N_F1: usize = 14 * 9 * 3 * 3 * 4 * 3;
pub const N_F2: usize = 8 * 3 * F2_IDS * F2_CPS * 2;
pub const N_ENUM: usize = N_F1 + N_F2;

fn truncations(table: &[u8], bounds: &[usize], glyphs: usize, iftx: Option<&[u8]>, out: &mut Vec<Variant>) {
    for b in bounds {
        for cut in [*b, b + 1] {
            if cut < table.len() && cut > 0 {
                out.push(Variant { name: format!("trunc@{}", cut), font: base_font(glyphs, &table[..cut], iftx) });
            }
        }
    }
}

fn directed_f1(f: &F1, with_truncations: bool, iftx: Option<Vec<u8>>, extra: &str, full_range: bool) -> Directed {
    let (table, bounds) = f.build();
    let glyphs = f.glyph_count as usize;
    let mut variants = vec![Variant { name: "whole".into(), font: base_font(glyphs, &table, iftx.as_deref()) }];
    if with_truncations {
        truncations(&table, &bounds, glyphs, iftx.as_deref(), &mut variants);
    }
    let tags: Vec<[u8; 4]> = f.feats.iter().flatten().map(|r| r.tag).collect();
    let last_cp = 0x41 + (glyphs.saturating_sub(1).clamp(1, 200) as u32) - 1;
    Directed { shape: format!("{}{}", f.shape(), extra), variants, defs: defs_for(&tags, &[], 0x41..=last_cp, full_range) }
}

#[allow(clippy::too_many_arguments)]
fn directed_f2(f: &F2, cps: &[u32], with_truncations: bool, as_iftx_too: bool, extra: &str, n_i: usize, id_i: usize, cp_i: usize, full_range: bool) -> Directed {
    let (table, bounds) = f.build();
    let iftx = as_iftx_too.then(|| {
        let mut t = table.clone();
        if t.len() > 9 {
            t[8] = 6;
        }
        t
    });
    let mut variants = vec![Variant { name: "whole".into(), font: base_font(3, &table, iftx.as_deref()) }];
    if with_truncations {
        truncations(&table, &bounds, 3, None, &mut variants);
    }
    let mut tags: Vec<[u8; 4]> = f.entries.iter().filter_map(|e| e.fds.as_ref()).flat_map(|(t, _)| t.iter().copied()).collect();
    tags.sort();
    tags.dedup();
    Directed {
        shape: format!("fmt2(n={},decl={:+},id={},cp={},place={},strids={}){}", F2_N[n_i % F2_N.len()], f.declared_delta, id_i, cp_i, f.placement, f.string_ids, extra),
        variants,
        defs: defs_for(&tags, cps, 0x41..=0x42, full_range),
    }
}

/// Item `i` of the directed space (pure in `(i, seed)`).
pub fn gen_item(i: usize, seed: u64) -> Directed {
    if i < N_F1 {
        let mut k = i;
        let mut dim = |n: usize| {
            let r = k % n;
            k /= n;
            r
        };
        let (m_i, feat_i, place, mg, g_i, fm) = (dim(14), dim(9), dim(3), dim(3), dim(4), dim(3));
        let f = f1_directed(m_i, feat_i, place as u8, mg, g_i, fm, i);
        // truncations for the small fonts: always next to the field-width switch, a quarter of the rest
        let near_switch = (254..=257).contains(&f.max_entry);
        let trunc = f.glyph_count <= 16 && f.max_entry <= 1000 && (near_switch || i % 4 == 0);
        // sometimes a format-2 extension table next to it
        let iftx = (i % 6 == 5).then(|| {
            let (mut x, _) = f2_directed(2, 0, 0, 1, 0, i);
            x.compat = 6;
            x.build().0
        });
        return directed_f1(&f, trunc, iftx, "", i % 64 == 7);
    }
    if i < N_ENUM {
        let mut k = i - N_F1;
        let mut dim = |n: usize| {
            let r = k % n;
            k /= n;
            r
        };
        let (n_i, decl, id_i, cp_i, place) = (dim(8), dim(3), dim(F2_IDS), dim(F2_CPS), dim(2));
        // placement 2 (trailing byte) replaces 0 on every third item
        let place = if place == 0 && i % 3 == 2 { 2 } else { place };
        let (f, cps) = f2_directed(n_i, [0, 1, -1][decl], id_i, cp_i, place as u8, i);
        let small = f.entries.len() <= 3;
        return directed_f2(&f, &cps, small && i % 3 == 0, i % 5 == 4, "", n_i, id_i, cp_i, i % 64 == 7);
    }
    // ---- random draws over the same dimensions, plus hostile twists on otherwise well-formed tables
    let mut rng = Rng::derive(seed, "iftd", i as u64);
    if rng.chance(3, 5) {
        let m_i = if rng.chance(2, 3) { 5 + rng.usize(4) } else { rng.usize(14) };
        let mut f = f1_directed(m_i, rng.usize(9), rng.usize(3) as u8, rng.usize(3), rng.usize(4), rng.usize(3), rng.usize(1000));
        let mut twist = String::new();
        if rng.chance(1, 3) {
            // any maxEntryIndex / glyph count, not only the listed ones
            let cands = [rng.range(0, 600) as u16, rng.range(250, 260) as u16, rng.u32() as u16];
            f.max_entry = *rng.pick(&cands);
            f.max_glyph_entry = f.max_glyph_entry.min(f.max_entry);
            twist.push_str(";anyM");
        }
        if let Some(fs) = f.feats.as_mut() {
            match rng.usize(10) {
                0 => {
                    fs.reverse();
                    twist.push_str(";tags-unsorted");
                }
                1 if fs.len() > 1 => {
                    fs[1].tag = fs[0].tag;
                    twist.push_str(";tag-duplicate");
                }
                2 if !fs.is_empty() => {
                    let r = rng.usize(fs.len());
                    fs[r].declared = Some(fs[r].maps.len() as u16 + *rng.pick(&[1u16, 2, 200]));
                    twist.push_str(";count-over");
                }
                3 if !fs.is_empty() => {
                    let r = rng.usize(fs.len());
                    fs[r].first_new = *rng.pick(&[0u16, f.max_glyph_entry, f.max_entry, f.max_entry.wrapping_add(1), 0xFFFF]);
                    twist.push_str(";first-new-odd");
                }
                4 if !fs.is_empty() => {
                    let r = rng.usize(fs.len());
                    let n = rng.usize(12);
                    fs[r].maps = (0..n).map(|_| (rng.range(0, f.max_entry as i64) as u16, rng.range(0, f.max_entry as i64) as u16)).collect();
                    twist.push_str(";maps-random");
                }
                _ => {}
            }
        }
        match rng.usize(10) {
            0 => {
                f.max_glyph_entry = f.max_entry.saturating_add(1);
                twist.push_str(";Mg>M");
            }
            1 => {
                f.first_mapped = f.first_mapped.saturating_add(*rng.pick(&[1u16, 2, 0xFF00]));
                twist.push_str(";first>count");
            }
            2 => {
                for e in f.entry_index.iter_mut() {
                    *e = rng.range(0, f.max_entry as i64 + 1) as u16;
                }
                twist.push_str(";entries-random");
            }
            3 => {
                f.patch_format = *rng.pick(&[0u8, 4, 255]);
                twist.push_str(";bad-format");
            }
            4 => {
                f.template = crate::ift::template_for(&mut rng);
                twist.push_str(";template");
            }
            _ => {}
        }
        let iftx = rng.chance(1, 4).then(|| {
            let (mut x, _) = f2_directed(rng.usize(4), 0, rng.usize(F2_IDS), rng.usize(F2_CPS), 0, rng.usize(100));
            x.compat = if rng.chance(1, 6) { 1 } else { 6 };
            x.build().0
        });
        let trunc = f.glyph_count <= 16 && f.max_entry <= 1000 && rng.chance(1, 2);
        return directed_f1(&f, trunc, iftx, &twist, rng.chance(1, 64));
    }
    let (n_i, id_i, cp_i) = (rng.usize(8), rng.usize(F2_IDS), rng.usize(F2_CPS));
    let (mut f, cps) = f2_directed(n_i, *rng.pick(&[0, 0, 1, -1, 2, -2, 1000]), id_i, cp_i, rng.usize(3) as u8, rng.usize(1000));
    let mut twist = String::new();
    if !f.entries.is_empty() {
        let k = rng.usize(f.entries.len());
        match rng.usize(8) {
            0 => {
                f.entries[k].children = Some((rng.bool(), (0..rng.usize(128)).map(|_| rng.below(k as u64 + 2) as u32).collect()));
                twist.push_str(";children-random");
            }
            1 => {
                let vals: Vec<u64> = (0..rng.usize(6)).map(|_| rng.below(1 << 22)).collect();
                let bf = *rng.pick(&[2u32, 4, 8, 32]);
                let h = rng.range(0, 12) as u32;
                f.entries[k].cps = Some((rng.usize(3) as u8, *rng.pick(&[0u32, 0xFFFF, 0x10FFFF, 0xFFFFFF, 0x10FF00]), sparse_encode(bf, h, &vals, rng.chance(1, 4).then(|| rng.range(1, h.max(1) as i64) as u32))));
                twist.push_str(";set-random");
            }
            2 => {
                f.entries[k].id = Some(if f.string_ids { IdField::StrLen(*rng.pick(&[0u16, 1, 255, 256, 0x7FFF, 0xFFFF])) } else { IdField::Delta(*rng.pick(&[-1i32, -2, 0x7FFFFF, -0x800000, 0x400000])) });
                twist.push_str(";id-random");
            }
            3 => {
                f.entries[k].patch_format = Some(*rng.pick(&[0u8, 1, 2, 3, 4, 255]));
                twist.push_str(";format-random");
            }
            4 => {
                f.template = crate::ift::template_for(&mut rng);
                twist.push_str(";template");
            }
            _ => {}
        }
    }
    let trunc = f.entries.len() <= 3 && rng.chance(1, 2);
    let (as_iftx, full) = (rng.chance(1, 4), rng.chance(1, 64));
    directed_f2(&f, &cps, trunc, as_iftx, &twist, n_i, id_i, cp_i, full)
}

fn run_variant(font_bytes: &[u8], defs: &[SubsetDefinition], s: &mut IStats) {
    // (the truncated variants get the first CORE_DEFS definitions only)
    let Ok(font) = FontRef::new(font_bytes) else { return };
    s.opened = true;
    for d in defs {
        let r = intersecting_patches(&font, d);
        s.res("iftd_intersect_errors", &r);
        if let Ok(v) = r {
            s.count("iftd_patch_uris", v.len() as u64);
            for pu in v.iter().take(300) {
                let us = pu.uri_string();
                s.res("iftd_uri_template_errors", &us);
                let _ = (pu.encoding(), pu.expected_compatibility_id());
            }
        }
        let g = PatchGroup::select_next_patches(font.clone(), d);
        s.res("iftd_select_errors", &g);
        if let Ok(g) = g {
            let has = g.has_uris();
            let n = g.uris().map(|u| u.len()).count();
            s.calls += 2;
            s.ok += 2;
            s.count("iftd_uris_listed", n as u64);
            if has != (n > 0) {
                s.count("ift_has_uris_disagrees_with_uris(C19)", 1);
            }
        }
    }
}

pub fn run_item(ctx: &mut Ctx, i: usize, seed: u64) {
    let d = gen_item(i, seed);
    ctx.count(if i < N_F1 { "iftd_items:format1-enumerated" } else if i < N_ENUM { "iftd_items:format2-enumerated" } else { "iftd_items:random" }, 1);
    let mut answered = false;
    for v in &d.variants {
        ctx.eval();
        let st = RefCell::new(IStats::default());
        let label = || format!("iftd#{}|{}|{}|{}|0|0|", i, v.name, "directed", seed);
        // one monitored case per subset definition: the cpu-time bound of `run_case` is meant per
        // operation group on the input, not for (>= 10 definitions x 3 APIs) on a 200 KB table
        let defs = if v.name == "whole" { &d.defs[..] } else { &d.defs[..CORE_DEFS.min(d.defs.len())] };
        let mut r: Result<(), vf_core::PanicInfo> = Ok(());
        for one in defs.chunks(1) {
            let rr = ctx.run_case(&label, Some(&v.font), &|| {
                let mut s = st.borrow_mut();
                run_variant(&v.font, one, &mut s);
            });
            if rr.is_err() && r.is_ok() {
                r = rr;
            }
        }
        let s = st.into_inner();
        if let Err(p) = &r {
            ctx.count(&format!("panics_at:{}:{}:{}", p.file, p.line, p.class.as_str()), 1);
            ctx.judge_panic(
                p,
                "IFT intersecting_patches / select_next_patches / uris on a constructed mapping table",
                json!({"iftd_item": i, "iftd_seed": seed.to_string(), "variant": v.name, "shape": d.shape}),
                Some(&v.font),
            );
        }
        ctx.count(if v.name == "whole" { "iftd_cases:whole-table" } else { "iftd_cases:truncated-at-field-boundary" }, 1);
        if s.opened && s.ok + s.err > 0 {
            answered = true;
            if s.ok > 0 && v.name == "whole" {
                ctx.count("iftd_whole_tables_answering_ok", 1);
            }
        }
        absorb(ctx, &s);
    }
    if answered {
        let mut dg = Digest::new();
        dg.str("iftd");
        dg.str(&d.shape);
        dg.u64(d.variants.first().map(|v| fnv64(&v.font)).unwrap_or(0));
        ctx.nontrivial(dg.finish());
        ctx.distinct("iftd_table_shapes", fnv64(d.shape.as_bytes()));
    }
    ctx.sample_by_kind(if i < N_F1 { "iftd-format1" } else if i < N_ENUM { "iftd-format2" } else { "iftd-random" }, json!({"item": i, "shape": d.shape, "variants": d.variants.len(), "subset_definitions": d.defs.len()}));
}

/// The directed enumeration (complete in both tiers) + budget-sized random draws.
pub fn sec_directed(ctx: &mut Ctx, items: &mut Items) {
    let n = N_ENUM + ctx.budget(8_000, 120_000);
    let seed = ctx.seed;
    let timing = std::env::var("VF_C02_TIMING").is_ok();
    for i in 0..n {
        if !items.mine(ctx) {
            continue;
        }
        // spread the enumeration over the shards (the dimension indices are periodic in i)
        let i = if i < N_ENUM { (i * 7919) % N_ENUM } else { i };
        let t0 = vf_core::thread_cpu_ns();
        run_item(ctx, i, seed);
        if timing {
            let dt = (vf_core::thread_cpu_ns() - t0) / 1_000_000;
            if dt > 20 {
                eprintln!("iftd item {} cpu_ms={} shape={}", i, dt, gen_item(i, seed).shape);
            }
        }
    }
}
