//! Byte-level mutants of the corpus fonts: random structure-aware edits,
//! boundary sweeps over the tables skrifa reads, truncations, and
//! extreme-value substitution in header / metric / variation fields.

use crate::drive::{self, exec_case, hint_group_name, FontCase, GroupSpec};
use crate::Items;
use vf_core::gen::{self, be16, parse_dir, Patcher, TableRec};
use vf_core::{CorpusFont, Ctx, Rng};

/// Tables skrifa reads (bitmap tables are mutated too although this skrifa
/// revision has no bitmap API: they must at least not disturb anything else).
pub const FOCUS: [&[u8; 4]; 27] = [
    b"maxp", b"head", b"hhea", b"hmtx", b"glyf", b"loca", b"fpgm", b"prep", b"cvt ", b"gvar", b"fvar", b"avar", b"HVAR", b"MVAR", b"CFF ", b"CFF2", b"COLR", b"CPAL",
    b"cmap", b"post", b"name", b"OS/2", b"GSUB", b"cvar", b"hdmx", b"EBLC", b"CBLC",
];

fn big(f: &CorpusFont) -> bool {
    f.data.len() > 100_000
}

pub fn sec_random(ctx: &mut Ctx, fonts: &[CorpusFont], items: &mut Items) {
    let per_small = ctx.budget(1050, 9600);
    let per_big = ctx.budget(100, 800);
    for (fi, f) in fonts.iter().enumerate() {
        let n = if big(f) { per_big } else { per_small };
        let mut buf: Option<Vec<u8>> = None;
        let dir = parse_dir(&f.data, 0);
        let present: Vec<&[u8; 4]> = FOCUS.iter().copied().filter(|t| dir.iter().any(|r| &r.tag == *t)).collect();
        for j in 0..n {
            if !items.mine(ctx) {
                continue;
            }
            let buf = buf.get_or_insert_with(|| f.data.to_vec());
            let mut rng = Rng::derive(ctx.seed, "mut-random", (fi * 1_000_000 + j) as u64);
            let mut p = Patcher::new();
            let focus = if !present.is_empty() && rng.chance(4, 5) { Some(*rng.pick(&present)) } else { None };
            let kinds = gen::mutate_random(buf, &dir, &mut rng, &mut p, focus);
            for k in &kinds {
                ctx.count(&format!("mutation_kind:{}", k), 1);
            }
            let desc = format!("random[{}]{}", focus.map(|t| String::from_utf8_lossy(t).to_string()).unwrap_or_default(), p.describe());
            let fc = FontCase { name: &f.name, mutation: &desc, category: "mutant-random", bytes: buf };
            drive::drive_sampled(ctx, &fc, rng.u64());
            p.undo(buf);
        }
    }
}

pub fn sec_sweeps(ctx: &mut Ctx, fonts: &[CorpusFont], items: &mut Items) {
    // deterministic boundary sweep, sampled 1/keep by enumeration index
    let keep = (2300 / ctx.budget(420, 2300)).max(1);
    let window = ctx.budget(48, 96);
    for (fi, f) in fonts.iter().enumerate() {
        if big(f) && !ctx.tier.is_thorough() {
            // the large fonts get the extreme-value treatment instead (cost)
            continue;
        }
        let dir = parse_dir(&f.data, 0);
        let mut buf = f.data.to_vec();
        for (ti, tag) in FOCUS.iter().enumerate() {
            let Some(rec) = dir.iter().find(|r| &r.tag == *tag) else { continue };
            let range = rec.range(buf.len());
            let tagname = String::from_utf8_lossy(*tag).to_string();
            let salt = (fi * 131 + ti * 17 + ctx.seed as usize) % keep;
            // collect the selected patched buffers first (sweep_region hands out a borrow)
            let seed = ctx.seed;
            let name = f.name.clone();
            let mut todo: Vec<String> = vec![];
            {
                let mut select = |i: usize| -> bool {
                    if (i + salt) % keep != 0 {
                        return false;
                    }
                    items.mine(ctx)
                };
                // first pass only enumerates which descriptions are ours
                let mut f2 = |_b: &[u8], d: &str| {
                    todo.push(d.to_string());
                };
                gen::sweep_region(&mut buf, range.start, range.end, window, &mut select, &mut f2);
            }
            // second pass: apply each selected edit and drive
            for d in todo {
                let mut p = Patcher::new();
                if !apply_desc(&mut buf, &d, &mut p) {
                    continue;
                }
                let desc = format!("sweep[{}]{}", tagname, d);
                let fc = FontCase { name: &name, mutation: &desc, category: "mutant-sweep", bytes: &buf };
                let cfg = seed ^ vf_core::fnv64(desc.as_bytes()) ^ (fi as u64) << 32;
                drive::drive_sampled(ctx, &fc, cfg);
                p.undo(&mut buf);
            }
        }
    }
}

/// Apply a description produced by `gen::sweep_region` ("u16@pos=0x..", "u32@pos=0x..").
fn apply_desc(buf: &mut [u8], d: &str, p: &mut Patcher) -> bool {
    let (kind, rest) = match d.split_once('@') {
        Some(x) => x,
        None => return false,
    };
    let Some((pos, val)) = rest.split_once('=') else { return false };
    let Ok(pos) = pos.parse::<usize>() else { return false };
    let Ok(val) = u32::from_str_radix(val.trim_start_matches("0x"), 16) else { return false };
    match kind {
        "u16" => p.set16(buf, pos, val as u16),
        "u32" => p.set32(buf, pos, val),
        _ => return false,
    }
    true
}

pub fn sec_truncate(ctx: &mut Ctx, fonts: &[CorpusFont], items: &mut Items) {
    let dense = ctx.budget(0, 64);
    for (fi, f) in fonts.iter().enumerate() {
        if big(f) {
            continue;
        }
        // whole-file truncations
        let pts = gen::truncation_points(f.data.len(), dense);
        for (k, len) in pts.iter().enumerate() {
            if !items.mine(ctx) {
                continue;
            }
            if !ctx.tier.is_thorough() && k % 3 != (fi % 3) {
                continue;
            }
            let desc = format!("truncate-file@{}", len);
            let fc = FontCase { name: &f.name, mutation: &desc, category: "mutant-truncate", bytes: &f.data[..*len] };
            drive::drive_sampled(ctx, &fc, ctx.seed ^ (*len as u64) << 8 ^ fi as u64);
        }
        // per-table truncation: shrink the directory length of one focus table
        let dir = parse_dir(&f.data, 0);
        let mut buf = f.data.to_vec();
        for rec in dir.iter().filter(|r| FOCUS.iter().any(|t| **t == r.tag)) {
            let pts = gen::truncation_points(rec.len as usize, 0);
            for (k, len) in pts.iter().enumerate() {
                if !items.mine(ctx) {
                    continue;
                }
                if !ctx.tier.is_thorough() && k % 4 != (fi % 4) {
                    continue;
                }
                let mut p = Patcher::new();
                p.set32(&mut buf, rec.rec_pos + 12, *len as u32);
                let desc = format!("truncate[{}]len={}", rec.tag_str(), len);
                let fc = FontCase { name: &f.name, mutation: &desc, category: "mutant-truncate", bytes: &buf };
                drive::drive_sampled(ctx, &fc, ctx.seed ^ (*len as u64) << 8 ^ (fi as u64) << 40);
                p.undo(&mut buf);
            }
        }
    }
}

// ---------------------------------------------------------------- extreme values

pub const EXTREME16: [u16; 9] = [0x8000, 0x8001, 0xFFFF, 0x7FFE, 0x7FFF, 0, 1, 16, 0xFFFE];

fn table<'a>(dir: &'a [TableRec], tag: &[u8; 4]) -> Option<&'a TableRec> {
    dir.iter().find(|r| &r.tag == tag)
}

/// One extreme-value edit; returns its description.
pub fn extreme_edit(buf: &mut [u8], dir: &[TableRec], rng: &mut Rng, p: &mut Patcher) -> String {
    let n_glyphs = table(dir, b"maxp").and_then(|r| be16(buf, r.offset as usize + 4)).unwrap_or(0);
    let set = |buf: &mut [u8], p: &mut Patcher, tag: &[u8; 4], off: usize, v: u16| -> String {
        match table(dir, tag) {
            Some(r) if off + 2 <= r.len as usize => {
                p.set16(buf, r.offset as usize + off, v);
                format!("{}+{}={:#x};", String::from_utf8_lossy(tag), off, v)
            }
            _ => String::new(),
        }
    };
    match rng.usize(14) {
        0 => {
            let v = *rng.pick(&[0u16, 1, 16, 65535, 15, 17, 0x8000]);
            set(buf, p, b"head", 18, v)
        }
        1 => {
            let v = *rng.pick(&[0u16, 1, 2, 0xFFFF, 0x8000]);
            set(buf, p, b"head", 50, v)
        }
        2 => {
            let off = 36 + 2 * rng.usize(4);
            set(buf, p, b"head", off, *rng.pick(&EXTREME16))
        }
        3 => {
            let v = *rng.pick(&[0u16, 1, 2, 3, n_glyphs.wrapping_sub(1), n_glyphs.wrapping_add(1), n_glyphs / 2, 0xFFFF, 0x8000]);
            set(buf, p, b"maxp", 4, v)
        }
        4 => {
            let off = 6 + 2 * rng.usize(13);
            set(buf, p, b"maxp", off, *rng.pick(&[0u16, 1, 0xFFFF, 0x7FFF, 0x8000]))
        }
        5 => {
            let v = *rng.pick(&[0u16, 1, n_glyphs.wrapping_sub(1), n_glyphs.wrapping_add(1), 0xFFFF, n_glyphs / 2]);
            set(buf, p, b"hhea", 34, v)
        }
        6 => {
            let off = 4 + 2 * rng.usize(12);
            set(buf, p, b"hhea", off, *rng.pick(&EXTREME16))
        }
        7 => {
            let len = table(dir, b"OS/2").map(|r| r.len as usize).unwrap_or(0);
            if len < 4 {
                return String::new();
            }
            let off = 2 * rng.usize(len / 2);
            set(buf, p, b"OS/2", off, *rng.pick(&EXTREME16))
        }
        8 => {
            let len = table(dir, b"hmtx").map(|r| r.len as usize).unwrap_or(0);
            if len < 4 {
                return String::new();
            }
            let off = 2 * rng.usize((len / 2).min(64));
            set(buf, p, b"hmtx", off, *rng.pick(&EXTREME16))
        }
        9 => {
            // a glyph header (numberOfContours / bbox) or early glyph data
            let len = table(dir, b"glyf").map(|r| r.len as usize).unwrap_or(0);
            if len < 12 {
                return String::new();
            }
            let off = if rng.bool() { 2 * rng.usize(5) } else { 2 * rng.usize((len / 2).min(2048)) };
            set(buf, p, b"glyf", off, *rng.pick(&EXTREME16))
        }
        10 => {
            let tag = *rng.pick(&[b"fvar", b"avar", b"HVAR", b"MVAR", b"gvar", b"cvar"]);
            let len = table(dir, tag).map(|r| r.len as usize).unwrap_or(0);
            if len < 4 {
                return String::new();
            }
            let off = 2 * rng.usize((len / 2).min(256));
            set(buf, p, tag, off, *rng.pick(&EXTREME16))
        }
        11 => {
            let tag = *rng.pick(&[b"cvt ", b"post", b"hdmx", b"loca"]);
            let len = table(dir, tag).map(|r| r.len as usize).unwrap_or(0);
            if len < 4 {
                return String::new();
            }
            let off = 2 * rng.usize((len / 2).min(512));
            set(buf, p, tag, off, *rng.pick(&EXTREME16))
        }
        12 => {
            let tag = *rng.pick(&[b"CFF ", b"CFF2", b"COLR", b"GSUB", b"cmap"]);
            let len = table(dir, tag).map(|r| r.len as usize).unwrap_or(0);
            if len < 4 {
                return String::new();
            }
            let off = 2 * rng.usize((len / 2).min(512));
            set(buf, p, tag, off, *rng.pick(&EXTREME16))
        }
        _ => {
            // 32-bit extreme in a variation / layout table
            let tag = *rng.pick(&[b"fvar", b"avar", b"HVAR", b"MVAR", b"gvar", b"COLR", b"head"]);
            match table(dir, tag) {
                Some(r) if r.len >= 8 => {
                    let off = 4 * rng.usize((r.len as usize / 4).min(64));
                    let v = *rng.pick(&[0x80000000u32, 0x7FFFFFFF, 0xFFFFFFFF, 0x80000001, 0x00010000, 0xFFFF0000]);
                    p.set32(buf, r.offset as usize + off, v);
                    format!("{}+{}={:#x};", String::from_utf8_lossy(tag), off, v)
                }
                _ => String::new(),
            }
        }
    }
}

/// Groups for extreme-value mutants: arithmetic-heavy paths forced (every
/// engine incl. the auto-hinter, metrics, unhinted at extreme sizes).
pub fn extreme_groups(cfg_seed: u64, rng: &mut Rng, has_colr: bool) -> Vec<GroupSpec> {
    let mut v = vec![GroupSpec::new("metrics", 0, cfg_seed), GroupSpec::new("unhinted", 0, cfg_seed)];
    let t = rng.usize(drive::N_TARGETS);
    v.push(GroupSpec::new(hint_group_name(0, t), 0, cfg_seed));
    v.push(GroupSpec::new(hint_group_name(1, rng.usize(drive::N_TARGETS)), 0, cfg_seed));
    v.push(GroupSpec::new(hint_group_name(2 + rng.usize(2), rng.usize(drive::N_TARGETS)), 0, cfg_seed));
    if rng.chance(1, 4) {
        v.push(GroupSpec::new("memory", 0, cfg_seed));
    }
    if has_colr {
        v.push(GroupSpec::new("color", 0, cfg_seed));
    }
    v
}

pub fn sec_extreme(ctx: &mut Ctx, fonts: &[CorpusFont], items: &mut Items) {
    let per_small = ctx.budget(1400, 11000);
    let per_big = ctx.budget(350, 2800);
    for (fi, f) in fonts.iter().enumerate() {
        let has_outlines = drive::has_table(&f.data, b"glyf") || drive::has_table(&f.data, b"CFF ") || drive::has_table(&f.data, b"CFF2");
        if !has_outlines {
            continue;
        }
        let n = if big(f) { per_big } else { per_small };
        let dir = parse_dir(&f.data, 0);
        let has_colr = drive::has_table(&f.data, b"COLR");
        let mut buf: Option<Vec<u8>> = None;
        for j in 0..n {
            if !items.mine(ctx) {
                continue;
            }
            let buf = buf.get_or_insert_with(|| f.data.to_vec());
            let mut rng = Rng::derive(ctx.seed, "mut-extreme", (fi * 1_000_000 + j) as u64);
            let mut p = Patcher::new();
            let mut desc = String::from("extreme:");
            for _ in 0..1 + rng.usize(3) {
                desc.push_str(&extreme_edit(buf, &dir, &mut rng, &mut p));
            }
            let cfg = rng.u64();
            let fc = FontCase { name: &f.name, mutation: &desc, category: "mutant-extreme", bytes: buf };
            let o = exec_case(ctx, &fc, &GroupSpec::new("open", 0, cfg), None);
            if o.opened {
                ctx.count("fonts_driven:mutant-extreme", 1);
                for spec in extreme_groups(cfg, &mut rng, has_colr) {
                    exec_case(ctx, &fc, &spec, None);
                }
                // misuse variant: instance of the pristine font used on the mutated one
                if rng.chance(1, 6) {
                    let mut spec = GroupSpec::new(format!("misuse:{}:{}", *rng.pick(&[0usize, 1, 3]), rng.usize(drive::N_TARGETS)), 0, cfg);
                    spec.partner = Some(f.name.clone());
                    spec.index = rng.usize(3) as u32;
                    let m2 = format!("{}|instance-of-pristine", desc).replace('|', "/");
                    let fc2 = FontCase { name: &f.name, mutation: &m2, category: "misuse-mutant", bytes: buf };
                    exec_case(ctx, &fc2, &spec, Some(&f.data));
                }
            }
            p.undo(buf);
        }
    }
}
