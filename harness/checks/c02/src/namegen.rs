//! Metadata-string totality at buffer-size boundaries: constructive generators of
//! `name` tables (versions 0 and 1, raw bytes) and of `post` version-2 glyph-name
//! tables, placed into small real fonts (variable glyf, static glyf, CFF) and
//! driven through every string API of skrifa by the `strings` group of `drive`.
//!
//! * language-tag records of every length 0..=64 UTF-16 code units: ASCII,
//!   non-ASCII at the first / last / 31st position, astral (surrogate pair), lone
//!   surrogates, odd byte lengths, the tag ending exactly at / one past the end
//!   of the string storage; referenced by records with languageID 0x8000+k of
//!   every platform, in version-1 AND (ignored) version-0 tables;
//! * records of every platform x encoding x language class, MacRoman high bytes,
//!   unknown encodings, every byte value, surrogates, strings of 0..65535 bytes;
//! * string / tag offsets and lengths at and beyond the storage end, hostile
//!   storage offsets and counts, truncation at every field boundary;
//! * `post` names of 0..255 bytes (ASCII / high bytes / NUL), indices at the
//!   standard-name / custom-name switch (257/258) and out of range, glyph counts
//!   that disagree with `maxp`, string data cut at every name boundary.
//!
//! Font `i` is a pure function of `(i, seed)`; `i < N_ENUM` is the
//! seed-independent directed enumeration.

use crate::drive::{exec_case, FontCase, GroupSpec};
use crate::Items;
use vf_core::gen::{build_sfnt, parse_dir, split_tables};
use vf_core::{Ctx, Rng};

fn w16(v: &mut Vec<u8>, x: u16) {
    v.extend_from_slice(&x.to_be_bytes());
}

#[derive(Clone, Debug)]
pub struct NRec {
    pub platform: u16,
    pub encoding: u16,
    pub language: u16,
    pub name_id: u16,
    pub length: u16,
    pub offset: u16,
}

#[derive(Clone, Debug, Default)]
pub struct NameT {
    pub version: u16,
    pub recs: Vec<NRec>,
    pub declared_count: Option<u16>,
    pub storage_offset: Option<u16>,
    pub lang: Vec<(u16, u16)>,
    pub declared_lang_count: Option<u16>,
    pub storage: Vec<u8>,
}

impl NameT {
    pub fn add(&mut self, bytes: &[u8]) -> (u16, u16) {
        let off = self.storage.len();
        self.storage.extend_from_slice(bytes);
        (bytes.len().min(0xFFFF) as u16, off.min(0xFFFF) as u16)
    }
    pub fn rec(&mut self, platform: u16, encoding: u16, language: u16, name_id: u16, s: (u16, u16)) {
        self.recs.push(NRec { platform, encoding, language, name_id, length: s.0, offset: s.1 });
    }
    pub fn header_len(&self) -> usize {
        6 + 12 * self.recs.len() + if self.version >= 1 { 2 + 4 * self.lang.len() } else { 0 }
    }
    /// (table, field boundaries)
    pub fn build(&self) -> (Vec<u8>, Vec<usize>) {
        let mut t = vec![];
        let mut b = vec![];
        w16(&mut t, self.version);
        b.push(t.len());
        w16(&mut t, self.declared_count.unwrap_or(self.recs.len() as u16));
        b.push(t.len());
        w16(&mut t, self.storage_offset.unwrap_or(self.header_len().min(0xFFFF) as u16));
        b.push(t.len());
        for r in &self.recs {
            for v in [r.platform, r.encoding, r.language, r.name_id, r.length, r.offset] {
                w16(&mut t, v);
                if b.len() < 40 {
                    b.push(t.len());
                }
            }
        }
        b.push(t.len());
        if self.version >= 1 {
            w16(&mut t, self.declared_lang_count.unwrap_or(self.lang.len() as u16));
            b.push(t.len());
            for (l, o) in &self.lang {
                w16(&mut t, *l);
                b.push(t.len());
                w16(&mut t, *o);
                b.push(t.len());
            }
        }
        t.extend_from_slice(&self.storage);
        if !self.storage.is_empty() {
            b.push(t.len() - 1);
        }
        b.sort_unstable();
        b.dedup();
        (t, b)
    }
}

fn utf16(units: &[u16]) -> Vec<u8> {
    units.iter().flat_map(|u| u.to_be_bytes()).collect()
}

fn ascii_tag(len: usize, salt: usize) -> Vec<u16> {
    // "en-Latn-US-x-aaaa..." style: letters, digits and hyphens
    let alphabet = b"en-Latn-US-x-abcdefghij-0123456789-klmnopqrstuvwxyz";
    (0..len).map(|k| alphabet[(k + salt) % alphabet.len()] as u16).collect()
}

/// Name ids every generated table serves (the predefined ones and those `fvar` tables commonly use).
pub const IDS: [u16; 12] = [1, 2, 4, 6, 0, 16, 17, 25, 256, 257, 258, 259];

pub const TAG_KINDS: usize = 8;
pub const N_TAG: usize = 65 * TAG_KINDS * 2;
pub const N_REC: usize = 13 * 2;
pub const OFF_PATTERNS: usize = 12;
pub const STORAGE_MODES: usize = 6;
pub const N_OFF: usize = 2 * OFF_PATTERNS * STORAGE_MODES * 2;
pub const N_POST: usize = 8 * 3 * 4 + 5;
pub const N_ENUM: usize = N_TAG + N_REC + N_OFF + N_POST;

/// Family A: one language tag of `len` code units of the given kind.
pub fn name_langtag(len: usize, kind: usize, version: u16) -> NameT {
    let mut t = NameT { version, ..Default::default() };
    let mut units = ascii_tag(len, kind);
    let mut extra_byte = false;
    match kind % TAG_KINDS {
        0 => {}
        1 => {
            if let Some(u) = units.first_mut() {
                *u = 0x00E9
            }
        }
        2 => {
            if let Some(u) = units.last_mut() {
                *u = 0x4E2D
            }
        }
        3 => {
            let p = if len > 30 { 30 } else { len / 2 };
            if let Some(u) = units.get_mut(p) {
                *u = 0x0100
            }
        }
        4 => {
            // an astral character as the last two units
            if len >= 2 {
                units[len - 2] = 0xD83D;
                units[len - 1] = 0xDE00;
            }
        }
        5 => {
            if let Some(u) = units.last_mut() {
                *u = 0xD800
            }
        }
        6 => extra_byte = true,
        _ => {}
    }
    // some names first so that the tags are not at storage offset 0
    let fam = t.add(&utf16(&ascii_tag(6, 3)));
    let mac = t.add(b"Mac\xA5\xFF name");
    let mut tag_bytes = utf16(&units);
    if extra_byte {
        tag_bytes.push(b'x');
    }
    if kind % TAG_KINDS == 7 {
        // tag 0 is the last bytes of the storage, tag 1 ends one byte past it
        let _ = t.add(&utf16(&ascii_tag(len + 1, 1)));
        let tag0 = t.add(&tag_bytes);
        t.lang.push(tag0);
        t.lang.push((tag0.0 + 1, tag0.1));
    } else {
        let tag0 = t.add(&tag_bytes);
        let tag1 = t.add(&utf16(&ascii_tag(len + 1, 1)));
        t.lang.push(tag0);
        t.lang.push(tag1);
    }
    for (k, id) in IDS.iter().enumerate() {
        // every platform with a tag-referencing language id, in record order of (platform, encoding, language)
        t.rec(0, 3, 0x8000, *id, fam);
        t.rec(0, 4, 0x8001, *id, fam);
        t.rec(1, 0, 0, *id, mac);
        t.rec(1, 0, 0x8000, *id, mac);
        t.rec(3, 1, 0x0409, *id, fam);
        t.rec(3, 1, 0x8000 + (k as u16 % 2), *id, fam);
        t.rec(3, 1, 0x8002, *id, fam); // beyond the lang tag records
        t.rec(3, 10, 0xFFFF, *id, fam);
        t.rec(4, 0, 0x8000, *id, fam);
    }
    t
}

const PLATFORMS: [u16; 7] = [0, 1, 2, 3, 4, 5, 0xFFFF];
const ENCODINGS: [u16; 9] = [0, 1, 2, 3, 4, 5, 6, 10, 0xFFFF];
const LANGS: [u16; 4] = [0, 0x0409, 0x8000, 0x0C0A];

/// Family B: every platform x encoding x language class; string content `variant`.
pub fn name_records(variant: usize, version: u16) -> NameT {
    let mut t = NameT { version, ..Default::default() };
    let content: Vec<u8> = match variant % 13 {
        0 => vec![],
        1 => vec![b'A'],
        2 => vec![0, b'A'],
        3 => vec![0, b'A', 0],
        4 => (0x80..=0xFFu8).collect(),
        5 => (0..=0xFFu8).collect(),
        6 => utf16(&[0x41, 0xD83D, 0xDE00, 0x42, 0xDBFF, 0xDFFF]),
        7 => utf16(&[0xDC00, 0x41, 0xDFFF]),
        8 => utf16(&[0x41, 0xD800]),
        9 => utf16(&[0xFFFF, 0xFFFE, 0, 0xD7FF, 0xE000]),
        10 => (0..4000).map(|k| (k % 251) as u8).collect(),
        11 => vec![0xD8; 65535],
        _ => utf16(&[0xD800, 0xD800, 0xDC00, 0xDC00]),
    };
    let s = t.add(&content);
    let tag = t.add(&utf16(&ascii_tag(5, 0)));
    t.lang.push(tag);
    let mut k = 0;
    for p in PLATFORMS {
        for e in ENCODINGS {
            for l in LANGS {
                let id = if k % 3 == 0 { IDS[(k / 3) % IDS.len()] } else { (k % 26) as u16 };
                t.rec(p, e, l, id, s);
                k += 1;
            }
        }
    }
    t
}

/// Family C: offsets / lengths / counts at and beyond the ends.
pub fn name_offsets(on_tag: bool, pattern: usize, storage_mode: usize, version: u16) -> NameT {
    let mut t = NameT { version, ..Default::default() };
    let a = t.add(&utf16(&ascii_tag(8, 0)));
    let b = t.add(&utf16(&ascii_tag(4, 2)));
    let s = t.storage.len() as u16;
    let (len, off) = match pattern % OFF_PATTERNS {
        0 => (2, s - 2),
        1 => (2, s - 1),
        2 => (0, s),
        3 => (2, s),
        4 => (0, s + 1),
        5 => (0xFFFF, 0xFFFF),
        6 => (s, 0),
        7 => (s + 1, 0),
        8 => (1, s - 1),
        9 => (0xFFFF, 0),
        10 => (3, 1),
        _ => (0x8000, 0x8000),
    };
    t.lang.push(if on_tag { (len, off) } else { b });
    t.lang.push(a);
    for id in IDS {
        t.rec(3, 1, 0x8000, id, if on_tag { a } else { (len, off) });
        t.rec(3, 1, 0x8001, id, a);
        t.rec(1, 0, 0, id, if on_tag { b } else { (len, off) });
        t.rec(0, 3, 0, id, (len, off));
    }
    let h = t.header_len() as u16;
    let total = h + s;
    match storage_mode % STORAGE_MODES {
        0 => {}
        1 => t.storage_offset = Some(total),
        2 => t.storage_offset = Some(total + 1),
        3 => t.storage_offset = Some(0),
        4 => t.storage_offset = Some(0xFFFF),
        _ => {
            t.storage_offset = Some(5);
            t.declared_count = Some(t.recs.len() as u16 + 1);
            t.declared_lang_count = Some(0xFFFF);
        }
    }
    t
}

// ---------------------------------------------------------------- post

/// `post` version 2 with custom names. `num_glyphs` of the base font.
pub fn post_v2(num_glyphs: u16, name_len: usize, content: usize, index_mode: usize, count_mode: usize, cut_names: Option<usize>) -> Vec<u8> {
    let mut p = vec![];
    p.extend_from_slice(&0x00020000u32.to_be_bytes());
    p.extend_from_slice(&[0; 28]);
    let declared = match count_mode % 5 {
        0 => num_glyphs,
        1 => num_glyphs.saturating_sub(1),
        2 => num_glyphs.saturating_add(1),
        3 => 0,
        _ => 0xFFFF,
    };
    w16(&mut p, declared);
    let n = num_glyphs as usize;
    // custom names: n of them, lengths cycling around `name_len`
    let lens: Vec<usize> = (0..n).map(|k| if k % 3 == 0 { name_len } else { [1usize, 63, 64][k % 3] }.min(255)).collect();
    for k in 0..n {
        let idx: u16 = match index_mode % 4 {
            0 => 258 + k as u16,
            1 => {
                if k % 2 == 0 {
                    257
                } else {
                    258 + k as u16
                }
            }
            2 => 258 + n as u16 + k as u16,
            _ => {
                if k == 1 {
                    0xFFFF
                } else {
                    258 + (n - 1 - k) as u16
                }
            }
        };
        w16(&mut p, idx);
    }
    let names_start = p.len();
    for (k, l) in lens.iter().enumerate() {
        p.push(*l as u8);
        for j in 0..*l {
            p.push(match content % 3 {
                0 => b'a' + ((j + k) % 26) as u8,
                1 => 0x80 + ((j * 7 + k) % 0x80) as u8,
                _ => {
                    if j % 5 == 2 {
                        0
                    } else {
                        b'.'
                    }
                }
            });
        }
    }
    if let Some(c) = cut_names {
        p.truncate(names_start + c.min(p.len() - names_start));
    }
    p
}

// ---------------------------------------------------------------- fonts

fn base(kind: usize) -> (&'static str, &'static [u8]) {
    match kind % 3 {
        0 => ("vazirmatn_var", font_test_data::VAZIRMATN_VAR),
        1 => ("autohint_cmap", font_test_data::AUTOHINT_CMAP),
        _ => ("noto_serif_display_cff", font_test_data::NOTO_SERIF_DISPLAY_TRIMMED),
    }
}

fn num_glyphs(bytes: &[u8]) -> u16 {
    let dir = parse_dir(bytes, 0);
    dir.iter().find(|r| &r.tag == b"maxp").and_then(|r| vf_core::gen::be16(bytes, r.offset as usize + 4)).unwrap_or(0)
}

fn with_tables(base: &[u8], repl: &[([u8; 4], Vec<u8>)]) -> Vec<u8> {
    let mut t = split_tables(base);
    for (tag, data) in repl {
        t.retain(|(g, _)| g != tag);
        t.push((*tag, data.clone()));
    }
    let version = u32::from_be_bytes([base[0], base[1], base[2], base[3]]);
    build_sfnt(version, &t)
}

pub struct Gen {
    pub base: &'static str,
    pub desc: String,
    /// the whole font + truncated variants (name, bytes)
    pub fonts: Vec<(String, Vec<u8>)>,
}

fn name_font(kind: usize, t: &NameT, desc: String, truncate: bool) -> Gen {
    let (bn, bb) = base(kind);
    let (table, bounds) = t.build();
    let mut fonts = vec![(String::new(), with_tables(bb, &[(*b"name", table.clone())]))];
    if truncate {
        for b in bounds {
            if b > 0 && b < table.len() {
                fonts.push((format!(";trunc@{}", b), with_tables(bb, &[(*b"name", table[..b].to_vec())])));
            }
        }
    }
    Gen { base: bn, desc, fonts }
}

pub fn gen_font(i: usize, seed: u64) -> Gen {
    if i < N_TAG {
        let (len, kind, v) = (i % 65, (i / 65) % TAG_KINDS, 1 - (i / (65 * TAG_KINDS)) as u16 % 2);
        let t = name_langtag(len, kind, v);
        // every field boundary of the reference shapes (30/31-unit ASCII tags)
        let trunc = kind == 0 && (len == 30 || len == 31);
        return name_font(i, &t, format!("name:langtag(len={},kind={},v={})", len, kind, v), trunc);
    }
    let j = i - N_TAG;
    if j < N_REC {
        let t = name_records(j % 13, 1 - (j / 13) as u16 % 2);
        return name_font(i, &t, format!("name:records(content={},v={})", j % 13, 1 - (j / 13) % 2), false);
    }
    let j = j - N_REC;
    if j < N_OFF {
        let (on_tag, pat, sm, v) = (j % 2 == 0, (j / 2) % OFF_PATTERNS, (j / (2 * OFF_PATTERNS)) % STORAGE_MODES, 1 - (j / (2 * OFF_PATTERNS * STORAGE_MODES)) as u16 % 2);
        let t = name_offsets(on_tag, pat, sm, v);
        return name_font(i, &t, format!("name:offsets(tag={},pattern={},storage={},v={})", on_tag, pat, sm, v), false);
    }
    let j = j - N_OFF;
    if j < N_POST {
        // the static glyf font (5 glyphs) and the variable one: glyph names come from post
        let (bn, bb) = base(j % 2);
        let n = num_glyphs(bb);
        if j < 96 {
            let (li, content, im) = (j % 8, (j / 8) % 3, (j / 24) % 4);
            let len = [0usize, 1, 62, 63, 64, 65, 127, 255][li];
            let p = post_v2(n, len, content, im, 0, None);
            return Gen { base: bn, desc: format!("post:v2(len={},content={},index={})", len, content, im), fonts: vec![(String::new(), with_tables(bb, &[(*b"post", p)]))] };
        }
        let cm = j - 96;
        let whole = post_v2(n, 63, 0, 0, cm, None);
        let mut fonts = vec![(String::new(), with_tables(bb, &[(*b"post", whole)]))];
        if cm == 0 {
            // string data cut inside / at each of the first names
            for cut in [0usize, 1, 2, 63, 64, 65, 66, 127, 128, 129, 130] {
                fonts.push((format!(";names-cut@{}", cut), with_tables(bb, &[(*b"post", post_v2(n, 63, 0, 0, 0, Some(cut)))])));
            }
        }
        return Gen { base: bn, desc: format!("post:v2(count-mode={})", cm), fonts };
    }
    // ---- random combinations
    let mut rng = Rng::derive(seed, "namegen", i as u64);
    let v = if rng.chance(3, 4) { 1 } else { *rng.pick(&[0u16, 2, 0xFFFF]) };
    let mut t = match rng.usize(3) {
        0 => name_langtag(*rng.pick(&[0usize, 1, 15, 29, 30, 31, 32, 33, 63, 64, 100, 1000]), rng.usize(TAG_KINDS), v),
        1 => name_records(rng.usize(13), v),
        _ => name_offsets(rng.bool(), rng.usize(OFF_PATTERNS), rng.usize(STORAGE_MODES), v),
    };
    let mut desc = format!("name:random(v={},recs={},tags={})", v, t.recs.len(), t.lang.len());
    for _ in 0..rng.usize(4) {
        match rng.usize(6) {
            0 if !t.lang.is_empty() => {
                // more tags of boundary lengths, ASCII or not, and records that use them
                let l = *rng.pick(&[29usize, 30, 31, 32, 62, 64]);
                let mut u = ascii_tag(l, rng.usize(9));
                if rng.chance(1, 3) {
                    let p = rng.usize(l);
                    u[p] = *rng.pick(&[0x80u16, 0xFF, 0x100, 0xD800, 0xDC00, 0xFFFF]);
                }
                let s = t.add(&utf16(&u));
                t.lang.push(s);
                let idx = 0x8000 + t.lang.len() as u16 - 1;
                let r0 = t.recs[rng.usize(t.recs.len())].clone();
                for id in IDS {
                    t.recs.push(NRec { language: idx, name_id: id, ..r0.clone() });
                }
                desc.push_str(&format!(";+tag{}", l));
            }
            1 if !t.recs.is_empty() => {
                let k = rng.usize(t.recs.len());
                t.recs[k].language = *rng.pick(&[0x7FFFu16, 0x8000, 0x8001, 0x80FF, 0xFFFF]);
                desc.push_str(";lang");
            }
            2 if !t.recs.is_empty() => {
                let k = rng.usize(t.recs.len());
                t.recs[k].length = *rng.pick(&[0u16, 1, 0x7FFF, 0xFFFF, t.storage.len() as u16]);
                desc.push_str(";len");
            }
            3 if !t.lang.is_empty() => {
                let k = rng.usize(t.lang.len());
                t.lang[k] = (*rng.pick(&[0u16, 1, 59, 60, 61, 62, 63, 64, 0xFFFF]), *rng.pick(&[0u16, 1, t.storage.len() as u16, 0xFFFF]));
                desc.push_str(";taglen");
            }
            4 => {
                t.recs.sort_by_key(|r| (r.name_id, r.platform, r.encoding, r.language));
                desc.push_str(";sorted-by-id");
            }
            _ => {
                t.declared_lang_count = Some(*rng.pick(&[0u16, 1, t.lang.len() as u16 + 1, 0xFFFF]));
                desc.push_str(";tagcount");
            }
        }
    }
    let mut g = name_font(rng.usize(3), &t, desc, rng.chance(1, 24));
    if rng.chance(1, 3) {
        // hostile glyph names in the same font
        let n = num_glyphs(&g.fonts[0].1);
        let p = post_v2(n, *rng.pick(&[0usize, 62, 63, 64, 255]), rng.usize(3), rng.usize(4), rng.usize(5), rng.chance(1, 3).then(|| rng.usize(300)));
        g.fonts[0].1 = with_tables(&g.fonts[0].1, &[(*b"post", p)]);
        g.desc.push_str(";+post");
    }
    g
}

pub fn run_font(ctx: &mut Ctx, i: usize, seed: u64) {
    let g = gen_font(i, seed);
    let name = format!("namegen#{}:{}", i, g.base);
    ctx.count(if i < N_ENUM { "namegen_fonts:enumerated" } else { "namegen_fonts:random" }, g.fonts.len() as u64);
    for (suffix, bytes) in &g.fonts {
        let m = format!("{}{}", g.desc, suffix);
        let fc = FontCase { name: &name, mutation: &m, category: "namegen", bytes };
        let cfg = seed ^ (i as u64) << 8;
        let o = exec_case(ctx, &fc, &GroupSpec::new("strings", 1, cfg), None);
        if !o.opened {
            ctx.count("fonts_failed_to_open:namegen", 1);
            continue;
        }
        // the ordinary metadata group as well (english_or_first over the predefined ids, named instances, axes)
        exec_case(ctx, &fc, &GroupSpec::new("meta", 1, cfg), None);
    }
}

pub fn sec_strings(ctx: &mut Ctx, items: &mut Items) {
    let n = N_ENUM + ctx.budget(6_000, 60_000);
    let seed = ctx.seed;
    for i in 0..n {
        if !items.mine(ctx) {
            continue;
        }
        // spread the enumeration over the shards (the dimension indices are periodic in i)
        let i = if i < N_ENUM { (i * 7919) % N_ENUM } else { i };
        run_font(ctx, i, seed);
    }
}
