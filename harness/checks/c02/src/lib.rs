//! C02 — skrifa and the IFT client are total on hostile fonts and arguments.
//! See /verif/DESIGN.md §3 "C02" (and "C20", which re-runs `workload` with
//! `PanicPolicy::StrictOnly` + `panics_only`).
//!
//! Oracle: the panic monitor + the cpu-time progress monitor of vf-core around
//! every public operation; the only acceptable results are `Ok`/`Err`/`None`.
//! Every library call runs inside `Ctx::run_case`, every caught panic is judged
//! through `Ctx::judge_panic` only.

pub mod cffgen;
pub mod drive;
pub mod enc;
pub mod ift;
pub mod iftgen;
pub mod mutants;
pub mod namegen;
pub mod ttgen;

use drive::{exec_case, groups_for, has_table, FontCase, GroupSpec};
use serde_json::{json, Value};
use vf_core::{Args, CorpusFont, Ctx, PanicPolicy, Rng};

pub const REPLAY: Option<fn(&mut Ctx, &Args, &Value, Option<&[u8]>)> = Some(replay);

pub fn run(ctx: &mut Ctx, args: &Args) {
    ctx.policy = PanicPolicy::Totality;
    if args.profile == "asan" {
        return asan_slice(ctx, args);
    }
    workload(ctx, args)
}

/// Profile "asan" (extra stage "asan", /verif/tools/stage_asan.sh): the binary, the IFT client and the C brotli
/// library are built with AddressSanitizer. Only the part of the workload that reaches the REAL C decoder runs:
/// IFT tuples (hostile fonts / mapping tables / subset definitions) whose patches carry genuinely compressed
/// brotli streams (C encoder; a third of them damaged afterwards; hostile max_uncompressed_length capped at
/// 16 MiB) applied through `apply_next_patches` and `apply_next_patches_with_decoder(BuiltInBrotliDecoder)`.
/// A memory error ends the process with an ASan report (exit 77) that the driver turns into a violation; the
/// totality oracle (panic + cpu-time monitors) stays on.
fn asan_slice(ctx: &mut Ctx, _args: &Args) {
    ctx.rule = "asan slice: an IFT (font, subset definition, patch map, patch bytes) tuple whose font opened and for which selection or application                 through the real C brotli decoder returned a value; digest = font + tuple shape + patch seed"
        .into();
    ctx.level = "exploration".into();
    ctx.assumptions = vec![
        "asan slice: binary, IFT client and the C brotli library (brotlic-sys, CC=clang -fsanitize=address) are ASan-instrumented; a report ends the process (exit 77) and the driver turns it into a violation".into(),
        "patch streams are produced by the C brotli encoder of the same library (qualities 0-11, windows 2^10-2^24, raw shared dictionary for diff entries against the small test tables), 1 in 8 stored; 1 in 3 patches is damaged in the stream area afterwards".into(),
        "an uncapped (> 16 MiB) max_uncompressed_length request to the C brotli decoder is noted (counter ift_decode_requests_over_16MiB_not_executed), not executed".into(),
    ];
    let mut items = Items { next: 0 };
    ift::sec_ift_asan(ctx, &mut items);
}

/// Work-item counter shared by all sections so that items are spread over
/// the shards deterministically.
pub struct Items {
    next: usize,
}
impl Items {
    pub fn mine(&mut self, ctx: &Ctx) -> bool {
        let i = self.next;
        self.next += 1;
        ctx.mine(i)
    }
}

pub fn corpus() -> Vec<CorpusFont> {
    let mut v = vf_core::corpus_fonts();
    v.sort_by(|a, b| a.name.cmp(&b.name).then(a.data.len().cmp(&b.data.len())));
    v.dedup_by(|a, b| a.name == b.name && a.data == b.data);
    v
}

/// test hook: `--probe-dag=LEVELS,FANOUT` times one lookup+draw of the top glyph of a composite fan-out DAG
fn probe_dag(ctx: &mut Ctx, arg: &str) {
    let mut it = arg.split(',');
    let levels: usize = it.next().and_then(|s| s.parse().ok()).unwrap_or(10);
    let fanout: usize = it.next().and_then(|s| s.parse().ok()).unwrap_or(2);
    let f = ttgen::dag_font(levels, fanout);
    let bytes = f.build();
    let mut spec = GroupSpec::new("probe", 0, 0);
    spec.index = (f.glyphs.len() - 1) as u32;
    let name = format!("ttcomposite-dag(levels={},fanout={})", levels, fanout);
    let fc = FontCase { name: &name, mutation: "", category: "ttcomposite", bytes: &bytes };
    let t0 = vf_core::thread_cpu_ns();
    exec_case(ctx, &fc, &spec, None);
    eprintln!("probe {} bytes={} cpu_ms={}", name, bytes.len(), (vf_core::thread_cpu_ns() - t0) / 1_000_000);
}

pub fn workload(ctx: &mut Ctx, args: &Args) {
    if let Some(a) = args.extra.iter().find_map(|a| a.strip_prefix("--probe-dag=")) {
        probe_dag(ctx, a);
        return;
    }
    ctx.rule = "a (font bytes, mutation, configuration group) case in which the font opened and at least one public \
                operation returned Ok/Some or a domain error/None (not merely 'font failed to open'); for the IFT client a \
                (font, subset definition, patch map, patch bytes, decoder) tuple for which selection or application returned a value. \
                digest = font id + mutation + configuration group + configuration seed"
        .into();
    ctx.level = "exploration".into();
    ctx.assumptions = vec![
        "totality is decided per executed case only: panic monitor (catch_unwind + hook), cpu-time bound max(2 s, 50 us x input bytes) per case, subprocess shards for aborts/stack overflows".into(),
        "skrifa at this revision has no bitmap-strike API (no MetadataProvider::bitmap_strikes); bitmap tables are only mutated, not queried".into(),
        "an uncapped (> 16 MiB) max_uncompressed_length request to the C brotli decoder is noted (counter ift_decode_requests_over_16MiB_not_executed), not executed".into(),
        "under the strict profile overflow/debug-assert panics are counted (other_property_panic_sites) and belong to C20".into(),
    ];
    let fonts = corpus();
    ctx.count("corpus_fonts", if ctx.shard.0 == 0 { fonts.len() as u64 } else { 0 });
    let mut items = Items { next: 0 };
    // `--only=a,b` / VF_C02_ONLY=a,b restrict the sections (development / mutation self-test aid; the
    // set of work items of a section does not depend on which other sections run)
    let only: Option<String> = args.extra.iter().find_map(|a| a.strip_prefix("--only=").map(|s| s.to_string())).or(std::env::var("VF_C02_ONLY").ok());
    let want = |s: &str| only.as_deref().map(|o| o.split(',').any(|x| x == s)).unwrap_or(true);

    if want("regress") {
        sec_regressions(ctx, &fonts, &mut items);
    }
    if want("corpus") {
        sec_corpus(ctx, &fonts, &mut items);
    }
    if want("misuse") {
        sec_misuse(ctx, &fonts, &mut items);
    }
    if want("mutants") {
        mutants::sec_random(ctx, &fonts, &mut items);
        mutants::sec_sweeps(ctx, &fonts, &mut items);
        mutants::sec_truncate(ctx, &fonts, &mut items);
    }
    if want("extreme") {
        mutants::sec_extreme(ctx, &fonts, &mut items);
    }
    if want("ttprog") {
        ttgen::sec_dag_probes(ctx, &mut items);
        ttgen::sec_programs(ctx, &mut items);
    }
    if want("cff") {
        cffgen::sec_cff(ctx, &mut items);
    }
    if want("cffcap") {
        cffgen::sec_cff_directed(ctx, &mut items);
    }
    if want("ift") {
        ift::sec_ift(ctx, &mut items);
    }
    // boundary-directed constructive generators (see the module docs)
    if want("iftd") {
        iftgen::sec_directed(ctx, &mut items);
    }
    if want("strings") {
        namegen::sec_strings(ctx, &mut items);
    }
    if want("memsweep") {
        sec_memsweep(ctx, &fonts, &mut items);
    }
    ctx.extra.insert(
        "directed_generators".into(),
        json!({
            "cffcap": "capacity boundaries of the fixed-size tables of the CFF/CFF2 hinter and charstring evaluator (hint-map edges 92..=100 with ghost stems in every declaration order, stem counts / mask lengths, operand stack 48 / 513, subroutine nesting 8..=12, CFF2 blend operand counts), every glyph unhinted + CFF-hinted at fixed sizes; see cffgen.rs",
            "iftd": format!("{} enumerated format-1 + {} enumerated format-2 mapping tables (+ budgeted random draws), each whole and, for the small ones, truncated at every field boundary; see iftgen.rs", iftgen::N_F1, iftgen::N_F2),
            "strings": format!("{} enumerated name / post tables (language tags of 0..=64 units x 8 kinds x 2 versions, records of every platform x encoding, offsets at the storage end, post names of 0..255 bytes) + budgeted random draws; see namegen.rs", namegen::N_ENUM),
            "memsweep": format!("every buffer length 0..=advertised+8 x every start alignment 0..7 for up to {} small glyphs per glyf font (3 smallest + 1 mid-sized of simple / composite), unhinted FreeType + HarfBuzz, interpreter- and auto-hinted, default and non-default location; pristine fonts, budgeted random mutants, generated composite graphs", drive::MEMSWEEP_SLOTS),
        }),
    );
    ctx.extra.insert("profile_note".into(), json!("strict = overflow checks + debug assertions (fuzzing configuration); rel = shipping semantics"));
}

/// Run a cheap but broad subset of the per-font configuration product on ONE
/// font byte string (used by C20 for its own mutants): open, metadata, metrics,
/// charmap, unhinted outlines, colour paint and every hinting engine x target,
/// with a few sizes / locations / glyph ids. Deterministic in (label, bytes).
/// Every library call runs inside `ctx.run_case`; every panic is judged via
/// `ctx.judge_panic` (so `ctx.policy` decides).
pub fn exercise_font(ctx: &mut Ctx, label: &str, bytes: &[u8]) {
    let cfg = vf_core::fnv64(label.as_bytes()) ^ vf_core::fnv64(bytes).rotate_left(21);
    let fc = FontCase { name: label, mutation: "", category: "exercise", bytes };
    let o = exec_case(ctx, &fc, &GroupSpec::new("open", 0, cfg), None);
    if !o.opened {
        ctx.count("fonts_failed_to_open:exercise", 1);
        return;
    }
    ctx.count("fonts_driven:exercise", 1);
    let mut groups: Vec<String> = ["meta", "metrics", "charmap", "unhinted"].iter().map(|s| s.to_string()).collect();
    if has_table(bytes, b"COLR") {
        groups.push("color".into());
    }
    for e in 0..4 {
        groups.push(format!("hintall:{}", e));
    }
    for g in groups {
        exec_case(ctx, &fc, &GroupSpec::new(g, 0, cfg), None);
    }
}

/// Deterministic (seed-independent) regression inputs for defects this check isolated.
fn sec_regressions(ctx: &mut Ctx, fonts: &[CorpusFont], items: &mut Items) {
    // (font, file offset, new byte, group): auto-hinter "long" blue-zone search used to spin forever
    // (blues.rs: `continue` skipping the `last == segment_first` exit test), fixed in b26010c.
    let regs: [(&str, usize, u8, &str); 3] = [
        ("notoserifhebrew_autohint_metrics.ttf", 398, 0x14, "hintall:1"),
        ("notoserifhebrew_autohint_metrics.ttf", 398, 0x14, "hintall:2"),
        ("notoserifhebrew_autohint_metrics.ttf", 398, 0x14, "hint:3:0"),
    ];
    for (name, pos, val, group) in regs {
        if !items.mine(ctx) {
            continue;
        }
        let Some(f) = fonts.iter().find(|f| f.name == name) else {
            ctx.inconclusive(format!("regression font {} not in the corpus", name));
            continue;
        };
        let mut b = f.data.to_vec();
        if pos < b.len() {
            b[pos] = val;
        }
        let m = format!("byte@{}={:#x}", pos, val);
        let fc = FontCase { name, mutation: &m, category: "regression", bytes: &b };
        exec_case(ctx, &fc, &GroupSpec::new(group, 0, 0), None);
        ctx.count("regression_inputs", 1);
    }
}

/// Full configuration product on every pristine corpus font; one work item per
/// (font, group).
fn sec_corpus(ctx: &mut Ctx, fonts: &[CorpusFont], items: &mut Items) {
    for (fi, f) in fonts.iter().enumerate() {
        let cfg_seed = ctx.seed ^ (fi as u64) << 20;
        let mut rng = Rng::derive(ctx.seed, "corpus-groups", fi as u64);
        let specs = groups_for(1, cfg_seed, &mut rng, has_table(&f.data, b"COLR"));
        for spec in specs {
            if !items.mine(ctx) {
                continue;
            }
            let fc = FontCase { name: &f.name, mutation: "", category: "corpus", bytes: &f.data };
            exec_case(ctx, &fc, &spec, None);
        }
    }
}

/// Caller scratch memory of EVERY length 0..=advertised+8 at EVERY start alignment 0..7 (group `memsweep`
/// of `drive`) for a handful of small simple and composite glyphs of every glyf corpus font (static and
/// variable) and of a few generated composite-graph fonts; one work item per (font, candidate slot).
fn sec_memsweep(ctx: &mut Ctx, fonts: &[CorpusFont], items: &mut Items) {
    let slots = drive::MEMSWEEP_SLOTS as u32;
    for f in fonts.iter() {
        if !has_table(&f.data, b"glyf") {
            continue;
        }
        for slot in 0..slots {
            if !items.mine(ctx) {
                continue;
            }
            let mut spec = GroupSpec::new("memsweep", 1, 0);
            spec.index = slot;
            let fc = FontCase { name: &f.name, mutation: "", category: "memsweep", bytes: &f.data };
            exec_case(ctx, &fc, &spec, None);
        }
    }
    // hostile fonts x every buffer length: a few random mutants (outline-related tables) of every small glyf font
    let per_font = ctx.budget(24, 96);
    for (fi, f) in fonts.iter().enumerate() {
        if !has_table(&f.data, b"glyf") || f.data.len() > 100_000 {
            continue;
        }
        let dir = vf_core::gen::parse_dir(&f.data, 0);
        let present: Vec<&[u8; 4]> = [b"maxp", b"glyf", b"loca", b"gvar", b"head", b"fvar", b"cvt ", b"hmtx"].into_iter().filter(|t| dir.iter().any(|r| &r.tag == *t)).collect();
        let mut buf: Option<Vec<u8>> = None;
        for j in 0..per_font {
            if !items.mine(ctx) {
                continue;
            }
            let buf = buf.get_or_insert_with(|| f.data.to_vec());
            let mut rng = Rng::derive(ctx.seed, "memsweep-mutant", (fi * 10_000 + j) as u64);
            let mut p = vf_core::gen::Patcher::new();
            let focus = *rng.pick(&present);
            vf_core::gen::mutate_random(buf, &dir, &mut rng, &mut p, Some(focus));
            let desc = format!("random[{}]{}", String::from_utf8_lossy(focus), p.describe());
            for slot in [0u32, rng.below(slots as u64) as u32] {
                let mut spec = GroupSpec::new("memsweep", 1, 0);
                spec.index = slot;
                let fc = FontCase { name: &f.name, mutation: &desc, category: "memsweep-mutant", bytes: buf };
                exec_case(ctx, &fc, &spec, None);
            }
            p.undo(buf);
        }
    }
    for (j, (kind, param)) in [(1usize, 2usize), (1, 8), (1, 31), (2, 3), (3, 0), (0, 2), (4, 3)].iter().enumerate() {
        let mut rng = Rng::derive(1, "memsweep-composite", j as u64);
        let mut shape = String::new();
        let bytes = ttgen::gen_composite_font(*kind, *param, &mut rng, &mut shape).build();
        let name = format!("memsweep-composite#{}", j);
        for slot in 0..slots {
            if !items.mine(ctx) {
                continue;
            }
            let mut spec = GroupSpec::new("memsweep", 1, 0);
            spec.index = slot;
            let fc = FontCase { name: &name, mutation: &shape, category: "memsweep", bytes: &bytes };
            exec_case(ctx, &fc, &spec, None);
        }
    }
}

/// API misuse across fonts: hinting instance / glyph styles of font A with
/// glyphs of font B, reconfigure across fonts.
fn sec_misuse(ctx: &mut Ctx, fonts: &[CorpusFont], items: &mut Items) {
    // only fonts that have outlines are interesting partners
    let with_outlines: Vec<&CorpusFont> = fonts
        .iter()
        .filter(|f| has_table(&f.data, b"glyf") || has_table(&f.data, b"CFF ") || has_table(&f.data, b"CFF2"))
        .collect();
    let stride = if ctx.budget(100, 300) >= 300 { 1 } else if ctx.budget(100, 300) >= 100 { 2 } else { 6 };
    let mut k = 0usize;
    for (ai, a) in with_outlines.iter().enumerate() {
        for (bi, b) in with_outlines.iter().enumerate() {
            if ai == bi {
                continue;
            }
            let mut rng = Rng::derive(ctx.seed, "misuse", (ai * 1000 + bi) as u64);
            for (fam, e) in [("misuse", 0usize), ("misuse", 1), ("misuse", 3), ("reconf", 0), ("reconf", 1), ("reconf", 3), ("styles", 2)] {
                let t = rng.usize(drive::N_TARGETS);
                let cfg_seed = rng.u64();
                for index in 0..3u32 {
                    k += 1;
                    if !items.mine(ctx) {
                        continue;
                    }
                    // quick tier: a deterministic third of the (pair, config, glyph) triples
                    if (k + ai + bi) % stride != 0 {
                        continue;
                    }
                    let mut spec = GroupSpec::new(format!("{}:{}:{}", fam, e, t), 0, cfg_seed);
                    spec.partner = Some(a.name.clone());
                    spec.index = index;
                    let fc = FontCase { name: &b.name, mutation: &format!("instance-of:{}", a.name), category: "misuse", bytes: &b.data };
                    exec_case(ctx, &fc, &spec, Some(&a.data));
                }
            }
        }
    }
}

/// Re-run one recorded case on the recorded bytes.
fn replay(ctx: &mut Ctx, _args: &Args, rec: &Value, input: Option<&[u8]>) {
    ctx.policy = PanicPolicy::Totality;
    ctx.rule = "replay of one recorded case".into();
    let detail = &rec["detail"];
    let case = if detail["case"].is_object() { &detail["case"] } else { detail };
    if let Some(i) = case["iftd_item"].as_u64() {
        iftgen::run_item(ctx, i as usize, case["iftd_seed"].as_str().and_then(|s| s.parse().ok()).unwrap_or(ctx.seed));
        return;
    }
    if let Some(i) = case["ift_item"].as_u64() {
        ift::run_item(ctx, i as usize, case["ift_seed"].as_str().and_then(|s| s.parse().ok()).unwrap_or(ctx.seed));
        return;
    }
    // panic violations carry the spec; slow / abort / hang records carry the case label
    let from_label = [&detail["label"], &detail["case"], &rec["signature"]]
        .iter()
        .filter_map(|v| v.as_str())
        .filter_map(|s| GroupSpec::from_label(s.split_once(':').filter(|(k, _)| matches!(*k, "slow" | "hang") || k.starts_with("abort") || k.starts_with("exit")).map(|x| x.1).unwrap_or(s)))
        .next();
    if let Some((name, _, _)) = &from_label {
        if let Some(i) = name.strip_prefix("iftd#").and_then(|s| s.parse::<usize>().ok()) {
            iftgen::run_item(ctx, i, rec["seed"].as_u64().unwrap_or(ctx.seed));
            return;
        }
        if let Some(i) = name.strip_prefix("ift#").and_then(|s| s.parse::<usize>().ok()) {
            ift::run_item(ctx, i, rec["seed"].as_u64().unwrap_or(ctx.seed));
            return;
        }
    }
    let spec = GroupSpec::from_json(&case["spec"]).or(from_label.as_ref().map(|x| x.2.clone()));
    let (Some(spec), Some(bytes)) = (spec, input) else {
        ctx.inconclusive("replay record has no case spec / input bytes; nothing re-run");
        return;
    };
    let partner: Option<Vec<u8>> = spec.partner.as_ref().and_then(|n| corpus().into_iter().find(|f| &f.name == n).map(|f| f.data.to_vec()));
    let name = case["font"].as_str().map(|s| s.to_string()).or(from_label.as_ref().map(|x| x.0.clone())).unwrap_or("replay".into());
    let mutation = case["mutation"].as_str().map(|s| s.to_string()).or(from_label.as_ref().map(|x| x.1.clone())).unwrap_or_default();
    let fc = FontCase { name: &name, mutation: &mutation, category: "replay", bytes };
    let o = exec_case(ctx, &fc, &spec, partner.as_deref());
    ctx.extra.insert("replay".into(), json!({"panicked": o.panicked, "opened": o.opened, "answered": o.answered, "spec": spec.to_json()}));
    // a replay that answers is a non-trivial evaluation in its own right
    ctx.nontrivial(1);
    ctx.nontrivial(2);
}
