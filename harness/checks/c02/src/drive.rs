//! Per-font configuration-product driver: every public skrifa operation on one
//! font (bytes) under one *configuration group*. One group = one monitored case
//! (`Ctx::run_case`), so that an abort / hang / panic is attributed to a small
//! (font, group) pair and can be replayed from `(bytes, GroupSpec)` alone.

use serde_json::{json, Value};
use skrifa::{
    charmap::MappingIndex,
    color::{Brush, ColorGlyphFormat, ColorPainter, CompositeMode, PaintCachedColorGlyph, PaintError, Transform},
    instance::{Location, LocationRef, NormalizedCoord, Size},
    outline::{
        pen::{PathElement, PathStyle, SvgPen},
        DrawError, DrawSettings, Engine, GlyphStyles, Hinting, HintingInstance, HintingMode, HintingOptions, LcdLayout,
        OutlineGlyph, OutlineGlyphCollection, OutlineGlyphFormat, OutlinePen, SmoothMode, Target,
    },
    raw::{types::BoundingBox, FileRef, FontRef, TableProvider},
    setting::VariationSetting,
    string::StringId,
    GlyphId, MetadataProvider, Tag,
};
use std::cell::RefCell;
use std::collections::BTreeMap;
use vf_core::{fnv64, guard, Ctx, Digest, HarnessAbort, PanicClass, Rng};

// ---------------------------------------------------------------- stats

/// What one case observed; merged into the evidence counters afterwards
/// (survives a panic inside the case because it lives outside the closure).
#[derive(Default)]
pub struct Stats {
    pub calls: u64,
    pub ok: u64,
    pub err: u64,
    pub opened: bool,
    pub counts: BTreeMap<String, u64>,
    pub labels: Vec<(&'static str, String)>,
    pub distinct: Vec<(&'static str, u64)>,
    pub budget_exceeded: Option<String>,
    pub notes: Vec<String>,
}

impl Stats {
    #[inline]
    pub fn count(&mut self, k: &str, n: u64) {
        if let Some(c) = self.counts.get_mut(k) {
            *c += n;
        } else {
            self.counts.insert(k.to_string(), n);
        }
    }
    pub fn label(&mut self, k: &'static str, v: String) {
        if self.labels.len() < 64 && !self.labels.iter().any(|(a, b)| *a == k && *b == v) {
            self.labels.push((k, v));
        }
    }
    pub fn distinct(&mut self, k: &'static str, d: u64) {
        if self.distinct.len() < 4096 {
            self.distinct.push((k, d));
        }
    }
    #[inline]
    pub fn res<T, E: std::fmt::Debug>(&mut self, kind: &'static str, r: &Result<T, E>) {
        self.calls += 1;
        match r {
            Ok(_) => self.ok += 1,
            Err(e) => {
                self.err += 1;
                self.label(kind, variant_name(e));
            }
        }
    }
    #[inline]
    pub fn opt<T>(&mut self, r: &Option<T>) {
        self.calls += 1;
        if r.is_some() {
            self.ok += 1
        } else {
            self.err += 1
        }
    }
    #[inline]
    pub fn call(&mut self) {
        self.calls += 1;
        self.ok += 1;
    }
}

/// "HintingFailed(HintError { kind: InvalidJump, .. })" -> "HintingFailed/InvalidJump";
/// other values are cut at the first payload.
pub fn variant_name<E: std::fmt::Debug>(e: &E) -> String {
    let s = format!("{:?}", e);
    let head: String = s.chars().take_while(|c| c.is_alphanumeric() || *c == '_').collect();
    if let Some(p) = s.find("kind: ") {
        let k: String = s[p + 6..].chars().take_while(|c| c.is_alphanumeric() || *c == '_').collect();
        return format!("{}/{}", head, k);
    }
    if let Some(p) = s.find('(') {
        let inner: String = s[p + 1..].chars().take_while(|c| c.is_alphanumeric() || *c == '_').collect();
        if !inner.is_empty() && inner.chars().next().map(|c| c.is_alphabetic()).unwrap_or(false) {
            return format!("{}/{}", head, inner);
        }
    }
    head
}

thread_local! {
    static SEEN_SITES: RefCell<std::collections::HashSet<String>> = RefCell::new(Default::default());
}

// ---------------------------------------------------------------- case plumbing

/// Identity of the font a case runs on.
#[derive(Clone)]
pub struct FontCase<'a> {
    /// corpus name or generator name
    pub name: &'a str,
    /// description of the mutation / generator parameters ("" for pristine)
    pub mutation: &'a str,
    /// category for the evidence ("corpus", "mutant-random", "ttprog", ...)
    pub category: &'a str,
    pub bytes: &'a [u8],
}

/// Everything needed (besides the bytes) to re-run one case.
#[derive(Clone, Debug)]
pub struct GroupSpec {
    pub group: String,
    /// 0 = sampled (mutants / generated fonts), 1 = full product (corpus)
    pub level: u8,
    pub cfg_seed: u64,
    /// corpus font name of the *other* font for misuse groups
    pub partner: Option<String>,
    pub index: u32,
}

impl GroupSpec {
    pub fn new(group: impl Into<String>, level: u8, cfg_seed: u64) -> Self {
        GroupSpec { group: group.into(), level, cfg_seed, partner: None, index: 0 }
    }
    /// `name|mutation|group|cfg_seed|level|index|partner` (the case label: enough to re-run the case on the recorded bytes)
    pub fn label(&self, name: &str, mutation: &str) -> String {
        format!("{}|{}|{}|{}|{}|{}|{}", name, mutation.replace('|', "/"), self.group, self.cfg_seed, self.level, self.index, self.partner.as_deref().unwrap_or(""))
    }
    /// Inverse of `label`: (name, mutation, spec)
    pub fn from_label(l: &str) -> Option<(String, String, GroupSpec)> {
        let mut it = l.rsplitn(6, '|');
        let partner = it.next()?;
        let index = it.next()?.parse().ok()?;
        let level = it.next()?.parse().ok()?;
        let cfg_seed = it.next()?.parse().ok()?;
        let group = it.next()?.to_string();
        let rest = it.next()?;
        let (name, mutation) = rest.split_once('|').unwrap_or((rest, ""));
        Some((name.to_string(), mutation.to_string(), GroupSpec { group, level, cfg_seed, partner: if partner.is_empty() { None } else { Some(partner.to_string()) }, index }))
    }
    pub fn to_json(&self) -> Value {
        json!({"group": self.group, "level": self.level, "cfg_seed": self.cfg_seed.to_string(), "partner": self.partner, "index": self.index})
    }
    pub fn from_json(v: &Value) -> Option<Self> {
        Some(GroupSpec {
            group: v["group"].as_str()?.to_string(),
            level: v["level"].as_u64()? as u8,
            cfg_seed: v["cfg_seed"].as_str()?.parse().ok()?,
            partner: v["partner"].as_str().map(|s| s.to_string()),
            index: v["index"].as_u64().unwrap_or(0) as u32,
        })
    }
}

pub struct Outcome {
    pub panicked: bool,
    pub opened: bool,
    pub answered: u64,
}

/// Run one (font, group) case under the monitors, judge a panic through
/// `ctx.judge_panic` only, and merge what was observed into the evidence.
pub fn exec_case(ctx: &mut Ctx, fc: &FontCase, spec: &GroupSpec, partner: Option<&[u8]>) -> Outcome {
    ctx.eval();
    let st = RefCell::new(Stats::default());
    let label = || spec.label(fc.name, fc.mutation);
    let r = ctx.run_case(&label, Some(fc.bytes), &|| {
        let mut s = st.borrow_mut();
        run_group(fc.bytes, spec, partner, &mut s);
    });
    let st = st.into_inner();
    let mut out = Outcome { panicked: false, opened: st.opened, answered: st.ok + st.err };
    ctx.count(&format!("cases:{}:{}", fc.category, group_family(&spec.group)), 1);
    if let Err(p) = &r {
        out.panicked = true;
        if p.class == PanicClass::Harness && st.budget_exceeded.is_some() {
            // handled below
        } else {
            let site = format!("{}:{}:{}", p.file, p.line, p.class.as_str());
            ctx.count(&format!("panics_at:{}", site), 1);
            // one example input per panic site and shard (strict-only sites are C20's, listed for it)
            SEEN_SITES.with(|s| {
                if s.borrow_mut().insert(site.clone()) {
                    ctx.label(
                        "panic_site_examples",
                        &format!("{} [{}] <= {} ({} bytes) | {} | {}", site, p.msg.chars().take(60).collect::<String>(), fc.name, fc.bytes.len(), fc.mutation.chars().take(120).collect::<String>(), spec.group),
                    );
                }
            });
            ctx.judge_panic(
                p,
                &format!("skrifa {} on {}", spec.group, fc.name),
                json!({"font": fc.name, "mutation": fc.mutation, "category": fc.category, "spec": spec.to_json()}),
                Some(fc.bytes),
            );
        }
    }
    if let Some(what) = &st.budget_exceeded {
        // the painter's own callback budget was exceeded: runaway traversal
        ctx.violation(
            &format!("colr-budget:{}:{}", fc.name, fc.mutation),
            json!({"font": fc.name, "mutation": fc.mutation, "what": what, "spec": spec.to_json()}),
            Some(fc.bytes),
        );
    }
    absorb(ctx, &st, spec);
    if st.opened && st.ok + st.err > 0 {
        ctx.sample_by_kind(
            &format!("{}:{}", fc.category, group_family(&spec.group)),
            json!({"font": fc.name, "mutation": fc.mutation.chars().take(160).collect::<String>(), "group": spec.group, "font_len": fc.bytes.len(),
                   "library_calls": st.calls, "ok_or_some": st.ok, "err_or_none": st.err, "panicked": out.panicked}),
        );
        let mut d = Digest::new();
        d.str(fc.name);
        d.str(fc.mutation);
        d.u64(fnv64(fc.bytes));
        d.str(&spec.group);
        d.u64(spec.cfg_seed);
        ctx.nontrivial(d.finish());
    }
    out
}

pub fn group_family(g: &str) -> &str {
    g.split(':').next().unwrap_or(g)
}

pub fn absorb(ctx: &mut Ctx, st: &Stats, spec: &GroupSpec) {
    ctx.evals(st.calls);
    ctx.count("library_calls", st.calls);
    ctx.count("results_ok_or_some", st.ok);
    ctx.count("results_err_or_none", st.err);
    for (k, n) in &st.counts {
        ctx.count(k, *n);
    }
    for (k, v) in &st.labels {
        ctx.label(k, v);
    }
    for (k, d) in &st.distinct {
        ctx.distinct(k, *d);
    }
    for n in &st.notes {
        ctx.label("notes", n);
    }
    if spec.group.starts_with("hint:") || spec.group.starts_with("misuse") {
        // (family, engine, target) without the optional pair index
        let g: Vec<&str> = spec.group.split(':').take(3).collect();
        ctx.distinct("hinting_config_groups", fnv64(g.join(":").as_bytes()));
    }
}

// ---------------------------------------------------------------- configuration spaces

pub const SIZES: [Option<f32>; 13] = [
    None,
    Some(0.0),
    Some(1e-3),
    Some(f32::MIN_POSITIVE),
    Some(12.0),
    Some(16.0),
    Some(1e4),
    Some(1e9),
    Some(f32::NAN),
    Some(f32::INFINITY),
    Some(f32::NEG_INFINITY),
    Some(-16.0),
    Some(f32::MAX),
];

pub fn size_of(s: Option<f32>) -> Size {
    match s {
        None => Size::unscaled(),
        Some(v) => Size::new(v),
    }
}

pub fn sizes(level: u8, rng: &mut Rng, n_sampled: usize) -> Vec<Option<f32>> {
    if level >= 1 {
        SIZES.to_vec()
    } else {
        let mut v = vec![];
        for _ in 0..n_sampled {
            if rng.chance(1, 8) {
                // a random finite / odd float
                let x = match rng.usize(4) {
                    0 => rng.f64() as f32 * 200.0,
                    1 => f32::from_bits(rng.u32()),
                    2 => (rng.range(1, 3000) as f32) / 64.0,
                    _ => 65536.0 * (rng.range(1, 64) as f32),
                };
                v.push(Some(x));
            } else {
                v.push(*rng.pick(&SIZES));
            }
        }
        v
    }
}

fn c(bits: i16) -> NormalizedCoord {
    NormalizedCoord::from_bits(bits)
}

/// Coordinate vectors of length {0, ac-1, ac, ac+3} × value patterns
/// {0, +1, -1, +2 (max), -2 (min), random}.
pub fn coord_vectors(axis_count: usize, level: u8, rng: &mut Rng, n_sampled: usize) -> Vec<Vec<NormalizedCoord>> {
    let mut lens = vec![axis_count.saturating_sub(1), axis_count, axis_count + 3];
    lens.retain(|l| *l > 0);
    lens.dedup();
    let pat = |p: usize, len: usize, rng: &mut Rng| -> Vec<NormalizedCoord> {
        (0..len)
            .map(|i| match p {
                0 => c(0),
                1 => c(0x4000),
                2 => c(-0x4000),
                3 => c(i16::MAX),
                4 => c(i16::MIN),
                5 => c(rng.range(-0x4000, 0x4000) as i16),
                6 => c(rng.u32() as i16),
                _ => {
                    if i % 2 == 0 {
                        c(0x4000)
                    } else {
                        c(-0x2000)
                    }
                }
            })
            .collect()
    };
    let mut out: Vec<Vec<NormalizedCoord>> = vec![vec![]];
    if level >= 1 {
        for &l in &lens {
            for p in 0..8 {
                out.push(pat(p, l, rng));
            }
        }
    } else {
        for _ in 0..n_sampled {
            let l = *rng.pick(&lens);
            let p = rng.usize(8);
            out.push(pat(p, l, rng));
        }
    }
    out
}

pub fn glyph_ids(n: u32, level: u8, rng: &mut Rng) -> Vec<u32> {
    let mut v: Vec<u32> = vec![0, 1, n.wrapping_sub(1), n, 0xFFFF];
    if level >= 1 {
        if n <= 48 {
            v.extend(0..n);
        } else {
            for _ in 0..10 {
                v.push(rng.below(n as u64) as u32);
            }
            v.extend([2, 3, n / 2]);
        }
        v.extend([n + 1, 0x10000, u32::MAX, 0xFFFE]);
    } else {
        v.push(rng.below(n.max(1) as u64) as u32);
        v.push(rng.below(n.max(1) as u64) as u32);
        if rng.chance(1, 4) {
            v.push(rng.u32());
        }
    }
    let mut seen = std::collections::HashSet::new();
    v.retain(|g| seen.insert(*g));
    v
}

pub const N_TARGETS: usize = 17;
pub fn target(i: usize) -> Target {
    if i == 0 {
        return Target::Mono;
    }
    let i = i - 1;
    let mode = [SmoothMode::Normal, SmoothMode::Light, SmoothMode::Lcd, SmoothMode::VerticalLcd][(i / 4) % 4];
    Target::Smooth { mode, symmetric_rendering: i & 1 != 0, preserve_linear_metrics: i & 2 != 0 }
}

pub const N_ENGINES: usize = 5;
pub const ENGINE_NAMES: [&str; N_ENGINES] = ["Interpreter", "Auto(None)", "Auto(Some)", "AutoFallback", "LegacyMode"];

/// HintingOptions for (engine kind, target index).
pub fn options(engine: usize, t: usize, outlines: &OutlineGlyphCollection) -> HintingOptions {
    match engine {
        0 => HintingOptions { engine: Engine::Interpreter, target: target(t) },
        1 => HintingOptions { engine: Engine::Auto(None), target: target(t) },
        2 => HintingOptions { engine: Engine::Auto(Some(GlyphStyles::new(outlines))), target: target(t) },
        3 => target(t).into(),
        _ => {
            // the doc(hidden) legacy conversion HintingMode -> HintingOptions
            let m = match t % 7 {
                0 => HintingMode::Strong,
                1 => HintingMode::Smooth { lcd_subpixel: None, preserve_linear_metrics: false },
                2 => HintingMode::Smooth { lcd_subpixel: None, preserve_linear_metrics: true },
                3 => HintingMode::Smooth { lcd_subpixel: Some(LcdLayout::Horizontal), preserve_linear_metrics: false },
                4 => HintingMode::Smooth { lcd_subpixel: Some(LcdLayout::Vertical), preserve_linear_metrics: true },
                5 => HintingMode::Smooth { lcd_subpixel: Some(LcdLayout::Vertical), preserve_linear_metrics: false },
                _ => HintingMode::default(),
            };
            m.into()
        }
    }
}

pub fn hint_group_name(engine: usize, t: usize) -> String {
    format!("hint:{}:{}", engine, t)
}

// ---------------------------------------------------------------- pens / painters

#[derive(Default)]
pub struct CountPen {
    pub n: u64,
    pub nonfinite: u64,
}
impl CountPen {
    #[inline]
    fn see(&mut self, vals: &[f32]) {
        self.n += 1;
        if vals.iter().any(|v| !v.is_finite()) {
            self.nonfinite += 1;
        }
    }
}
impl OutlinePen for CountPen {
    fn move_to(&mut self, x: f32, y: f32) {
        self.see(&[x, y])
    }
    fn line_to(&mut self, x: f32, y: f32) {
        self.see(&[x, y])
    }
    fn quad_to(&mut self, a: f32, b: f32, x: f32, y: f32) {
        self.see(&[a, b, x, y])
    }
    fn curve_to(&mut self, a: f32, b: f32, c: f32, d: f32, x: f32, y: f32) {
        self.see(&[a, b, c, d, x, y])
    }
    fn close(&mut self) {
        self.n += 1
    }
}

pub const PAINT_BUDGET: u64 = 400_000;

/// Counting painter with its own callback budget (a runaway traversal is cut
/// by a harness panic that is never attributed to the library).
pub struct CountPainter {
    pub n: u64,
    pub budget: u64,
    /// 0 = Unimplemented, 1 = Ok, 2 = Err
    pub cached_mode: u8,
    pub depth: i64,
    pub brushes: [u64; 4],
}
impl CountPainter {
    pub fn new(cached_mode: u8) -> Self {
        CountPainter { n: 0, budget: PAINT_BUDGET, cached_mode, depth: 0, brushes: [0; 4] }
    }
    #[inline]
    fn tick(&mut self) {
        self.n += 1;
        if self.n > self.budget {
            std::panic::panic_any(HarnessAbort("budget"));
        }
    }
}
impl ColorPainter for CountPainter {
    fn push_transform(&mut self, _t: Transform) {
        self.depth += 1;
        self.tick()
    }
    fn pop_transform(&mut self) {
        self.depth -= 1;
        self.tick()
    }
    fn push_clip_glyph(&mut self, _g: GlyphId) {
        self.depth += 1;
        self.tick()
    }
    fn push_clip_box(&mut self, _b: BoundingBox<f32>) {
        self.depth += 1;
        self.tick()
    }
    fn pop_clip(&mut self) {
        self.depth -= 1;
        self.tick()
    }
    fn fill(&mut self, brush: Brush<'_>) {
        let (i, stops) = match &brush {
            Brush::Solid { .. } => (0, 0),
            Brush::LinearGradient { color_stops, .. } => (1, color_stops.len()),
            Brush::RadialGradient { color_stops, .. } => (2, color_stops.len()),
            Brush::SweepGradient { color_stops, .. } => (3, color_stops.len()),
        };
        self.brushes[i] += 1;
        self.n += stops as u64 / 64;
        self.tick()
    }
    fn paint_cached_color_glyph(&mut self, _glyph: GlyphId) -> Result<PaintCachedColorGlyph, PaintError> {
        self.tick();
        match self.cached_mode {
            0 => Ok(PaintCachedColorGlyph::Unimplemented),
            1 => Ok(PaintCachedColorGlyph::Ok),
            _ => Err(PaintError::GlyphNotFound(GlyphId::new(0))),
        }
    }
    fn push_layer(&mut self, _m: CompositeMode) {
        self.depth += 1;
        self.tick()
    }
    fn pop_layer(&mut self) {
        self.depth -= 1;
        self.tick()
    }
}

// ---------------------------------------------------------------- memory variants

/// A scratch buffer of exactly `len` bytes whose start address is ≡ `align`
/// (mod 8), filled with 0xAA.
pub struct Scratch {
    owner: Vec<u8>,
    off: usize,
    len: usize,
}
impl Scratch {
    pub fn new(len: usize, align: usize) -> Self {
        let owner = vec![0xAAu8; len + 24];
        let base = owner.as_ptr() as usize;
        let mut off = 0;
        while (base + off) % 8 != align % 8 {
            off += 1;
        }
        Scratch { owner, off, len }
    }
    pub fn slice(&mut self) -> &mut [u8] {
        &mut self.owner[self.off..self.off + self.len]
    }
    pub fn guard_intact(&self) -> bool {
        self.owner[..self.off].iter().all(|b| *b == 0xAA) && self.owner[self.off + self.len..].iter().all(|b| *b == 0xAA)
    }
}

pub fn memory_lens(advertised: usize, level: u8, rng: &mut Rng) -> Vec<usize> {
    let mut v = vec![0, 1, advertised.saturating_sub(1), advertised, advertised + 8];
    if level >= 1 {
        v.extend([advertised / 2, advertised.saturating_sub(8), advertised + 1, advertised * 2 + 3]);
    } else {
        v.push(rng.usize(advertised + 16));
    }
    v.sort_unstable();
    v.dedup();
    v
}

// ---------------------------------------------------------------- font info

pub struct Info {
    pub n_glyphs: u32,
    pub axis_count: usize,
    pub n_fonts: u32,
}

/// All fonts of a file: (index, FontRef).
pub fn open_all(bytes: &[u8]) -> Vec<FontRef<'_>> {
    match FileRef::new(bytes) {
        Ok(FileRef::Font(f)) => vec![f],
        Ok(FileRef::Collection(c)) => (0..c.len().min(4)).filter_map(|i| c.get(i).ok()).collect(),
        Err(_) => vec![],
    }
}

pub fn info(font: &FontRef) -> Info {
    let n = font.maxp().map(|m| m.num_glyphs() as u32).unwrap_or(0);
    let ac = font.axes().len();
    Info { n_glyphs: n, axis_count: ac, n_fonts: 1 }
}

// ---------------------------------------------------------------- groups

/// Run one configuration group on one font file. Pure function of its
/// arguments (replayable).
pub fn run_group(bytes: &[u8], spec: &GroupSpec, partner: Option<&[u8]>, st: &mut Stats) {
    let mut rng = Rng::derive(spec.cfg_seed, &spec.group, spec.index as u64);
    let fonts = open_all(bytes);
    st.calls += 1;
    if fonts.is_empty() {
        st.err += 1;
        st.count("font_open_failed", 1);
        return;
    }
    st.ok += 1;
    st.opened = true;
    let g = spec.group.as_str();
    for font in &fonts {
        let fam = group_family(g);
        match fam {
            "open" => group_open(font, spec, &mut rng, st),
            "meta" => group_meta(font, spec, &mut rng, st),
            "metrics" => group_metrics(font, spec, &mut rng, st),
            "charmap" => group_charmap(font, spec, &mut rng, st),
            "unhinted" => group_unhinted(font, spec, &mut rng, st),
            "memory" => group_memory(font, spec, &mut rng, st),
            "memsweep" => group_memsweep(font, spec, st),
            "strings" => group_strings(font, spec, &mut rng, st),
            "hint" => {
                let mut it = g.split(':').skip(1);
                let e: usize = it.next().and_then(|s| s.parse().ok()).unwrap_or(0);
                let t: usize = it.next().and_then(|s| s.parse().ok()).unwrap_or(0);
                // optional 4th component: only the k-th (size, location) pair of the product (keeps cases whose
                // every instance creation runs a near-budget prep program well inside the cpu progress bound)
                let pick: Option<usize> = it.next().and_then(|s| s.parse().ok());
                group_hint(font, e, t, pick, spec, &mut rng, st)
            }
            "hintall" => {
                let e: usize = g.split(':').nth(1).and_then(|s| s.parse().ok()).unwrap_or(0);
                group_hintall(font, e, spec, &mut rng, st)
            }
            "cffcap" => group_cffcap(font, spec, st),
            "color" => group_color(font, spec, &mut rng, st),
            "helpers" => group_helpers(font, spec, &mut rng, st),
            "probe" => group_probe(font, spec, st),
            "misuse" | "reconf" | "styles" => {
                let mut it = g.split(':').skip(1);
                let e: usize = it.next().and_then(|s| s.parse().ok()).unwrap_or(0);
                let t: usize = it.next().and_then(|s| s.parse().ok()).unwrap_or(0);
                if let Some(pb) = partner {
                    for a in open_all(pb) {
                        group_misuse(fam, &a, font, e, t, spec, &mut rng, st);
                    }
                }
            }
            _ => {}
        }
    }
}

fn group_open(font: &FontRef, _spec: &GroupSpec, _rng: &mut Rng, st: &mut Stats) {
    let i = info(font);
    st.call();
    st.count("fonts_opened", 1);
    let oc = font.outline_glyphs();
    st.call();
    st.label("outline_formats", format!("{:?}", oc.format()));
    let _ = i;
}

fn group_meta(font: &FontRef, spec: &GroupSpec, rng: &mut Rng, st: &mut Stats) {
    // attributes
    let a = font.attributes();
    st.call();
    let _ = (a.stretch.ratio(), a.stretch.percentage(), a.style, a.weight.value());
    // axes
    let axes = font.axes();
    st.call();
    let n = axes.len();
    let _ = axes.is_empty();
    for i in [0usize, 1, n.wrapping_sub(1), n, usize::MAX] {
        let ax = axes.get(i);
        st.opt(&ax);
        if let Some(ax) = ax {
            let _ = (ax.tag(), ax.index(), ax.name_id(), ax.is_hidden(), ax.min_value(), ax.default_value(), ax.max_value());
            for v in [0.0f32, ax.min_value(), ax.max_value(), ax.default_value(), -1e30, 1e30, f32::NAN, f32::INFINITY, f32::NEG_INFINITY, f32::MAX, f32::MIN] {
                let _ = ax.normalize(v);
                st.call();
            }
        }
    }
    for (k, ax) in axes.iter().enumerate() {
        if k > 70 {
            break;
        }
        let t = ax.tag();
        st.opt(&axes.get_by_tag(t));
    }
    st.opt(&axes.get_by_tag(Tag::new(b"wght")));
    st.opt(&axes.get_by_tag(Tag::new(b"\0\0\0\0")));
    // location from user settings
    let settings: Vec<Vec<(Tag, f32)>> = vec![
        vec![],
        vec![(Tag::new(b"wght"), 700.0), (Tag::new(b"wdth"), f32::NAN)],
        vec![(Tag::new(b"wght"), f32::INFINITY), (Tag::new(b"wght"), -1e30), (Tag::new(b"zzzz"), 1.0)],
        axes.iter().take(8).map(|a| (a.tag(), a.max_value())).collect(),
        axes.iter().take(8).map(|a| (a.tag(), a.min_value() - 1.0)).collect(),
        axes.iter().take(64).map(|a| (a.tag(), f32::from_bits(rng.u32()))).collect(),
    ];
    for s in &settings {
        let loc = axes.location(s.iter().copied());
        st.call();
        let _ = loc.coords().len();
        for len in [0usize, n.saturating_sub(1), n, n + 3] {
            let mut buf = vec![NormalizedCoord::from_bits(0x1234); len];
            axes.location_to_slice(s.iter().copied(), &mut buf);
            st.call();
        }
        let f: Vec<VariationSetting> = axes.filter(s.iter().copied()).collect();
        st.call();
        let _ = f.len();
    }
    // named instances
    let ni = font.named_instances();
    st.call();
    let nn = ni.len();
    let _ = ni.is_empty();
    for i in [0usize, 1, nn.wrapping_sub(1), nn, usize::MAX] {
        let inst = ni.get(i);
        st.opt(&inst);
        if let Some(inst) = inst {
            let _ = (inst.subfamily_name_id(), inst.postscript_name_id());
            let uc: Vec<f32> = inst.user_coords().take(4096).collect();
            st.call();
            let _ = uc.len();
            let l = inst.location();
            st.call();
            let _ = l.coords().len();
            for len in [0usize, n.saturating_sub(1), n, n + 3] {
                let mut buf = vec![NormalizedCoord::from_bits(0x1234); len];
                inst.location_to_slice(&mut buf);
                st.call();
            }
        }
    }
    let mut k = 0;
    for inst in ni.iter() {
        k += 1;
        if k > 300 {
            break;
        }
        let _ = inst.location();
        st.call();
    }
    // localized strings
    let mut ids: Vec<StringId> = vec![
        StringId::FAMILY_NAME,
        StringId::SUBFAMILY_NAME,
        StringId::FULL_NAME,
        StringId::POSTSCRIPT_NAME,
        StringId::COPYRIGHT_NOTICE,
        StringId::new(0xFFFF),
        StringId::new(256),
        StringId::new(rng.u32() as u16),
    ];
    if spec.level >= 1 {
        ids.extend((0..26).map(StringId::new));
    }
    for id in ids {
        let ls = font.localized_strings(id);
        st.call();
        let _ = ls.id();
        let e = ls.clone().english_or_first();
        st.opt(&e);
        if let Some(e) = e {
            let _ = e.language();
            let cnt = e.chars().take(100_000).count();
            st.call();
            let _ = cnt;
            let s = e.to_string();
            st.call();
            let _ = s.len();
        }
        let mut k = 0;
        for s in ls {
            k += 1;
            if k > 400 {
                break;
            }
            let _ = s.language();
            let _ = s.chars().take(10_000).count();
            st.call();
        }
    }
    // glyph names
    let gn = font.glyph_names();
    st.call();
    st.label("glyph_name_sources", format!("{:?}", gn.source()));
    let ng = gn.num_glyphs();
    for g in glyph_ids(ng, spec.level, rng) {
        let nm = gn.get(GlyphId::new(g));
        st.opt(&nm);
        if let Some(nm) = nm {
            let _ = (nm.as_str().len(), nm.is_synthesized(), format!("{}{:?}", nm, nm).len());
        }
    }
    let mut k = 0;
    for (_g, nm) in gn.iter() {
        k += 1;
        if k > 70_000 {
            st.notes.push("glyph_names.iter() yielded > 70000 items".into());
            break;
        }
        let _ = nm.as_str().len();
    }
    st.call();
    st.count("glyph_names_iterated", k);
}

fn group_metrics(font: &FontRef, spec: &GroupSpec, rng: &mut Rng, st: &mut Stats) {
    let i = info(font);
    let szs = sizes(spec.level, rng, 3);
    let cvs = coord_vectors(i.axis_count, spec.level, rng, 3);
    let gids = glyph_ids(i.n_glyphs, spec.level, rng);
    for s in &szs {
        for cv in &cvs {
            let m = font.metrics(size_of(*s), LocationRef::new(cv));
            st.call();
            let _ = (m.units_per_em, m.glyph_count, m.is_monospace, m.italic_angle, m.ascent, m.descent, m.leading, m.cap_height, m.x_height, m.average_width, m.max_width, m.underline.map(|d| d.offset), m.strikeout.map(|d| d.thickness), m.bounds.map(|b| b.x_min));
            let gm = font.glyph_metrics(size_of(*s), LocationRef::new(cv));
            st.call();
            let _ = gm.glyph_count();
            for g in &gids {
                let g = GlyphId::new(*g);
                st.opt(&gm.advance_width(g));
                st.opt(&gm.left_side_bearing(g));
                st.opt(&gm.bounds(g));
            }
        }
    }
}

fn group_charmap(font: &FontRef, spec: &GroupSpec, rng: &mut Rng, st: &mut Stats) {
    let cm = font.charmap();
    st.call();
    let _ = (cm.has_map(), cm.is_symbol(), cm.has_variant_map());
    let mut cps: Vec<u32> = vec![0, 0x20, 0x41, 0x7F, 0xFF, 0x100, 0xD7FF, 0xD800, 0xDFFF, 0xE000, 0xF000, 0xF020, 0xF0FF, 0xFFFE, 0xFFFF, 0x10000, 0x10FFFF, 0x110000, 0x7FFFFFFF, 0x80000000, u32::MAX, 0x5E9, 0x4E00, 0x1F600];
    for _ in 0..8 {
        cps.push(rng.u32() >> rng.usize(20));
    }
    for cp in &cps {
        st.opt(&cm.map(*cp));
    }
    let sels = [0xFE00u32, 0xFE0F, 0xE0100, 0xE01EF, 0, u32::MAX, 0x180B];
    for cp in cps.iter().take(12) {
        for s in sels {
            st.opt(&cm.map_variant(*cp, s));
        }
    }
    let cap: u64 = if spec.level >= 1 { 1_200_000 } else { 200_000 };
    let mut k = 0u64;
    let mut last = None;
    for (cp, g) in cm.mappings() {
        k += 1;
        last = Some((cp, g));
        if k >= cap {
            st.count("charmap_mappings_capped", 1);
            break;
        }
    }
    st.call();
    st.count("charmap_mappings_seen", k);
    let _ = last;
    let mut kv = 0u64;
    for (cp, sel, v) in cm.variant_mappings() {
        kv += 1;
        let _ = (cp, sel, v);
        if kv >= cap {
            st.count("charmap_variant_mappings_capped", 1);
            break;
        }
    }
    st.call();
    st.count("charmap_variant_mappings_seen", kv);
    // the cacheable index
    let mi = MappingIndex::new(font);
    st.call();
    let cm2 = mi.charmap(font);
    st.call();
    for cp in cps.iter().take(10) {
        st.opt(&cm2.map(*cp));
    }
}

fn draw_err_label(st: &mut Stats, r: &Result<skrifa::outline::AdjustedMetrics, DrawError>) {
    st.res("draw_errors", r);
    if let Ok(m) = r {
        let _ = (m.has_overlaps, m.lsb, m.advance_width);
    }
}

fn group_unhinted(font: &FontRef, spec: &GroupSpec, rng: &mut Rng, st: &mut Stats) {
    let i = info(font);
    let oc = font.outline_glyphs();
    st.call();
    let szs = sizes(spec.level, rng, 4);
    let cvs = coord_vectors(i.axis_count, spec.level, rng, 3);
    let gids = glyph_ids(i.n_glyphs, spec.level, rng);
    for g in &gids {
        let og = oc.get(GlyphId::new(*g));
        st.opt(&og);
        let Some(og) = og else { continue };
        let _ = (og.format(), og.glyph_id(), og.has_overlaps(), og.has_hinting());
        for s in &szs {
            for cv in &cvs {
                for style in [PathStyle::FreeType, PathStyle::HarfBuzz] {
                    let mut pen = CountPen::default();
                    let r = og.draw(DrawSettings::unhinted(size_of(*s), LocationRef::new(cv)).with_path_style(style), &mut pen);
                    draw_err_label(st, &r);
                    st.count("pen_callbacks", pen.n);
                    if pen.nonfinite > 0 {
                        st.count("draws_with_nonfinite_coordinates", 1);
                    }
                }
            }
        }
        // the From conversions and the other provided pens
        let mut svg = SvgPen::new();
        let r = og.draw(Size::new(16.0), &mut svg);
        draw_err_label(st, &r);
        let _ = svg.to_string().len();
        let mut svg = SvgPen::with_precision(rng.usize(12));
        let cv = cvs[rng.usize(cvs.len())].clone();
        let r = og.draw((size_of(*rng.pick(&SIZES)), LocationRef::new(&cv)), &mut svg);
        draw_err_label(st, &r);
        svg.clear();
        let mut pe: Vec<PathElement> = vec![];
        let r = og.draw((Size::unscaled(), LocationRef::new(&cv)), &mut pe);
        draw_err_label(st, &r);
    }
}

/// Caller-supplied scratch memory of every interesting size / alignment.
fn group_memory(font: &FontRef, spec: &GroupSpec, rng: &mut Rng, st: &mut Stats) {
    let i = info(font);
    let oc = font.outline_glyphs();
    let mut gids = glyph_ids(i.n_glyphs, 0, rng);
    // "memory:k": every third glyph id only (fonts whose glyph programs are expensive: three smaller cases)
    if let Some(k) = spec.group.split(':').nth(1).and_then(|s| s.parse::<usize>().ok()) {
        gids = gids.into_iter().enumerate().filter(|(j, _)| j % 3 == k % 3).map(|(_, g)| g).collect();
    }
    let cvs = coord_vectors(i.axis_count, 0, rng, 2);
    let aligns: &[usize] = if spec.level >= 1 { &[0, 1, 2, 3, 4, 5, 6, 7] } else { &[0, 1, 4, 7] };
    // one interpreter instance to exercise the hinted carving too
    let inst = HintingInstance::new(&oc, Size::new(16.0), LocationRef::default(), HintingOptions { engine: Engine::Interpreter, target: Target::default() });
    st.res("hint_instance_errors", &inst);
    for g in &gids {
        let Some(og) = oc.get(GlyphId::new(*g)) else { continue };
        for hinting in [Hinting::None, Hinting::Embedded] {
            let adv = og.draw_memory_size(hinting);
            st.call();
            st.distinct("advertised_memory_sizes", adv as u64);
            if adv > 64 << 20 {
                st.notes.push(format!("draw_memory_size advertised {} bytes", adv));
                continue;
            }
            for len in memory_lens(adv, spec.level, rng) {
                for &al in aligns {
                    let mut sc = Scratch::new(len, al);
                    let cv = &cvs[rng.usize(cvs.len())];
                    let mut pen = CountPen::default();
                    let size = if rng.bool() { Size::new(16.0) } else { size_of(*rng.pick(&SIZES)) };
                    let style = if rng.chance(1, 4) { PathStyle::HarfBuzz } else { PathStyle::FreeType };
                    let r = og.draw(DrawSettings::unhinted(size, LocationRef::new(cv)).with_memory(Some(sc.slice())).with_path_style(style), &mut pen);
                    draw_err_label(st, &r);
                    st.count(if r.is_ok() { "memory_draw_ok" } else { "memory_draw_err" }, 1);
                    if len >= adv && matches!(r, Err(DrawError::InsufficientMemory)) {
                        st.count("memory_insufficient_despite_advertised_len", 1);
                    }
                    if !sc.guard_intact() {
                        st.notes.push("scratch guard bytes modified".into());
                    }
                    if let Ok(inst) = &inst {
                        let mut sc = Scratch::new(len, al);
                        let mut pen = CountPen::default();
                        let r = og.draw(DrawSettings::hinted(inst, rng.bool()).with_memory(Some(sc.slice())), &mut pen);
                        draw_err_label(st, &r);
                        st.count(if r.is_ok() { "memory_hinted_draw_ok" } else { "memory_hinted_draw_err" }, 1);
                    }
                }
            }
        }
    }
}

/// Glyph ids of up to `want` cheapest-to-sweep glyphs of each kind (simple / composite) among the first
/// 600 glyphs: (gid, is_composite), ordered by advertised hinted memory size.
pub fn memsweep_candidates(font: &FontRef, want: usize) -> Vec<(u32, bool)> {
    let oc = font.outline_glyphs();
    let n = info(font).n_glyphs.min(600);
    let (loca, glyf) = match (font.loca(None), font.glyf()) {
        (Ok(l), Ok(g)) => (l, g),
        _ => return vec![],
    };
    let mut simple: Vec<(usize, u32)> = vec![];
    let mut comp: Vec<(usize, u32)> = vec![];
    for g in 0..n {
        let gid = GlyphId::new(g);
        let Some(og) = oc.get(gid) else { continue };
        let adv = og.draw_memory_size(Hinting::Embedded);
        if adv == 0 || adv > MEMSWEEP_MAX_ADVERTISED {
            continue;
        }
        match loca.get_glyf(gid, &glyf) {
            Ok(Some(skrifa::raw::tables::glyf::Glyph::Composite(_))) => comp.push((adv, g)),
            Ok(Some(_)) => simple.push((adv, g)),
            _ => {}
        }
    }
    simple.sort_unstable();
    comp.sort_unstable();
    let mut v: Vec<(u32, bool)> = vec![];
    // the smallest ones, and one mid-sized of each kind
    for (list, c) in [(&simple, false), (&comp, true)] {
        for (_, g) in list.iter().take(want) {
            v.push((*g, c));
        }
        if list.len() > want {
            v.push((list[want + (list.len() - want) / 2].1, c));
        }
    }
    v
}

pub const MEMSWEEP_MAX_ADVERTISED: usize = 6000;
/// 3 smallest + 1 mid-sized glyph of each kind (simple, composite)
pub const MEMSWEEP_SLOTS: usize = 8;

/// EVERY caller-buffer length 0..=advertised+8 at EVERY start alignment 0..7 for one small glyph
/// (`spec.index` = candidate slot): both path styles unhinted, interpreter- and auto-hinted, at the
/// default and at a non-default location. Every outcome must be `Ok` or an error value.
fn group_memsweep(font: &FontRef, spec: &GroupSpec, st: &mut Stats) {
    let cands = memsweep_candidates(font, 3);
    st.call();
    let Some(&(g, composite)) = cands.get(spec.index as usize) else {
        st.count("memsweep_no_candidate", 1);
        return;
    };
    let i = info(font);
    let oc = font.outline_glyphs();
    let Some(og) = oc.get(GlyphId::new(g)) else { return };
    let mut locs: Vec<Vec<NormalizedCoord>> = vec![vec![]];
    if i.axis_count > 0 {
        locs.push((0..i.axis_count).map(|k| c(if k % 2 == 0 { 0x2000 } else { -0x4000 })).collect());
    }
    st.count(if composite { "memsweep_glyphs:composite" } else { "memsweep_glyphs:simple" }, 1);
    st.count(if i.axis_count > 0 { "memsweep_glyphs:variable-font" } else { "memsweep_glyphs:static-font" }, 1);
    let mut owner = vec![0xAAu8; MEMSWEEP_MAX_ADVERTISED + 64];
    let base = owner.as_ptr() as usize;
    let base_off = (8 - base % 8) % 8;
    let mut sweep = |st: &mut Stats, what: &str, adv: usize, draw: &mut dyn FnMut(&mut [u8]) -> Result<skrifa::outline::AdjustedMetrics, DrawError>| {
        let adv = adv.min(MEMSWEEP_MAX_ADVERTISED);
        let (mut ok, mut insufficient, mut other) = (0u64, 0u64, 0u64);
        let mut min_ok = [usize::MAX; 8];
        for al in 0..8usize {
            for len in 0..=adv + 8 {
                let off = base_off + al;
                let r = draw(&mut owner[off..off + len]);
                st.calls += 1;
                match &r {
                    Ok(_) => {
                        ok += 1;
                        min_ok[al] = min_ok[al].min(len);
                    }
                    Err(DrawError::InsufficientMemory) => insufficient += 1,
                    Err(e) => {
                        other += 1;
                        st.label("draw_errors", variant_name(e));
                    }
                }
            }
        }
        st.ok += ok;
        st.err += insufficient + other;
        st.count("memsweep_draws", ok + insufficient + other);
        st.count("memsweep_draw_ok", ok);
        st.count("memsweep_draw_insufficient_memory", insufficient);
        st.count(&format!("memsweep_sweeps:{}", what), 1);
        // aligned buffers of the advertised size must do
        if min_ok[0] != usize::MAX && min_ok[0] > adv {
            st.count("memory_insufficient_despite_advertised_len", 1);
        }
        st.distinct("advertised_memory_sizes", adv as u64);
    };
    for (li, loc) in locs.iter().enumerate() {
        let lref = LocationRef::new(loc);
        let adv = og.draw_memory_size(Hinting::None);
        for style in [PathStyle::FreeType, PathStyle::HarfBuzz] {
            for size in [Size::new(16.0), Size::unscaled()] {
                if size.ppem().is_none() && li == 0 {
                    continue;
                }
                let what = format!("unhinted:{:?}:{}", style, if li == 0 { "default-location" } else { "non-default-location" });
                sweep(st, &what, adv, &mut |buf| {
                    let mut pen = CountPen::default();
                    og.draw(DrawSettings::unhinted(size, lref).with_memory(Some(buf)).with_path_style(style), &mut pen)
                });
            }
        }
        let adv = og.draw_memory_size(Hinting::Embedded);
        for (e, name) in [(0usize, "interpreter"), (1, "auto")] {
            let inst = HintingInstance::new(&oc, Size::new(16.0), lref, options(e, 1 + li, &oc));
            st.res("hint_instance_errors", &inst);
            let Ok(inst) = inst else { continue };
            let what = format!("hinted:{}:{}", name, if li == 0 { "default-location" } else { "non-default-location" });
            sweep(st, &what, adv, &mut |buf| {
                let mut pen = CountPen::default();
                og.draw(DrawSettings::hinted(&inst, li == 1).with_memory(Some(buf)), &mut pen)
            });
        }
    }
    if !(owner[..base_off].iter().all(|b| *b == 0xAA) && owner[base_off + 8 + MEMSWEEP_MAX_ADVERTISED + 8..].iter().all(|b| *b == 0xAA)) {
        st.notes.push("scratch guard bytes modified".into());
    }
}

/// Every string API on every name id the font mentions (name records, fvar axes and instances) and on
/// boundary ids; every glyph name.
fn group_strings(font: &FontRef, spec: &GroupSpec, rng: &mut Rng, st: &mut Stats) {
    let mut ids: Vec<u16> = (0..=25).collect();
    ids.extend([255u16, 256, 257, 258, 259, 0x7FFF, 0x8000, 0xFFFE, 0xFFFF, rng.u32() as u16]);
    if let Ok(name) = font.name() {
        st.call();
        for r in name.name_record().iter().take(2000) {
            ids.push(r.name_id().to_u16());
        }
    }
    let axes = font.axes();
    for ax in axes.iter().take(64) {
        ids.push(ax.name_id().to_u16());
    }
    let ni = font.named_instances();
    for inst in ni.iter().take(200) {
        ids.push(inst.subfamily_name_id().to_u16());
        if let Some(p) = inst.postscript_name_id() {
            ids.push(p.to_u16());
        }
    }
    st.call();
    ids.sort_unstable();
    ids.dedup();
    let cap = if spec.level >= 1 { 400 } else { 60 };
    let mut longest_lang = 0usize;
    for id in ids.into_iter().take(cap) {
        let id = StringId::new(id);
        let ls = font.localized_strings(id);
        st.call();
        let _ = ls.id();
        // first element alone (what a caller that only wants "a" name does)
        let first = ls.clone().next();
        st.opt(&first);
        if let Some(f) = &first {
            let _ = f.language().map(|l| l.len());
            let _ = format!("{:?}", f).len();
        }
        let e = ls.clone().english_or_first();
        st.opt(&e);
        if let Some(e) = e {
            longest_lang = longest_lang.max(e.language().map(|l| l.len()).unwrap_or(0));
            let _ = e.chars().take(200_000).count();
            let _ = e.to_string().len();
            st.call();
        }
        let mut k = 0u64;
        for s in ls {
            k += 1;
            if k > 3000 {
                break;
            }
            match s.language() {
                Some(l) => {
                    longest_lang = longest_lang.max(l.len());
                    st.count("strings_with_language", 1);
                    if !l.is_ascii() {
                        st.notes.push("non-ASCII language tag returned".into());
                    }
                }
                None => st.count("strings_without_language", 1),
            }
            let n = s.chars().take(200_000).count();
            let t = s.to_string();
            let _ = (n, t.len(), format!("{}", s).len());
            let s2 = s.clone();
            let _ = s2.chars().last();
            st.call();
        }
        st.count("localized_strings_seen", k.min(3000));
    }
    st.distinct("language_tag_lengths_returned", longest_lang as u64);
    // glyph names: every glyph (capped), and ids around the end
    let gn = font.glyph_names();
    st.call();
    st.label("glyph_name_sources", format!("{:?}", gn.source()));
    let ng = gn.num_glyphs();
    let mut longest = 0usize;
    for g in (0..ng.min(3000)).chain([ng, ng.wrapping_add(1), 0xFFFF, 0x10000, u32::MAX]) {
        let nm = gn.get(GlyphId::new(g));
        st.opt(&nm);
        if let Some(nm) = nm {
            longest = longest.max(nm.as_str().len());
            let _ = (nm.is_synthesized(), format!("{}{:?}", nm, nm).len(), nm == "a");
        }
    }
    st.distinct("glyph_name_lengths_returned", longest as u64);
    let mut k = 0u64;
    for (_g, nm) in gn.iter() {
        k += 1;
        if k > 70_000 {
            break;
        }
        let _ = nm.as_str().len();
    }
    st.call();
    st.count("glyph_names_iterated", k);
}

fn use_instance(inst: &HintingInstance, st: &mut Stats) {
    let _ = (inst.size(), inst.location().coords().len(), inst.target(), inst.is_enabled());
    st.call();
}

fn draw_hinted_all(og: &OutlineGlyph, inst: &HintingInstance, rng: &mut Rng, level: u8, st: &mut Stats) {
    for pedantic in [false, true] {
        let mut pen = CountPen::default();
        let r = og.draw(DrawSettings::hinted(inst, pedantic), &mut pen);
        draw_err_label(st, &r);
        st.count(if r.is_ok() { "hinted_draw_ok" } else { "hinted_draw_err" }, 1);
        st.count("pen_callbacks", pen.n);
    }
    // HarfBuzz style + hinting must be an error value
    let mut pen = CountPen::default();
    let r = og.draw(DrawSettings::hinted(inst, false).with_path_style(PathStyle::HarfBuzz), &mut pen);
    draw_err_label(st, &r);
    // From<&HintingInstance>
    if level >= 1 || rng.chance(1, 4) {
        let mut pen = CountPen::default();
        let r = og.draw(inst, &mut pen);
        draw_err_label(st, &r);
    }
    // scratch memory: advertised for Embedded, and the too-small "None" size
    if level >= 1 || rng.chance(1, 3) {
        for len in [og.draw_memory_size(Hinting::Embedded), og.draw_memory_size(Hinting::None), 0] {
            if len > 64 << 20 {
                continue;
            }
            let mut sc = Scratch::new(len, rng.usize(8));
            let mut pen = CountPen::default();
            let r = og.draw(DrawSettings::hinted(inst, rng.bool()).with_memory(Some(sc.slice())), &mut pen);
            draw_err_label(st, &r);
        }
    }
}

fn group_hint(font: &FontRef, e: usize, t: usize, pick: Option<usize>, spec: &GroupSpec, rng: &mut Rng, st: &mut Stats) {
    let i = info(font);
    let oc = font.outline_glyphs();
    let opts = options(e, t, &oc);
    st.call();
    let szs = sizes(spec.level, rng, 2);
    let mut cvs = coord_vectors(i.axis_count, 0, rng, if spec.level >= 1 { 6 } else { 2 });
    if spec.level >= 1 && i.axis_count > 0 {
        cvs.push(vec![c(0x4000); i.axis_count]);
        cvs.push(vec![c(i16::MIN); i.axis_count]);
        cvs.push(vec![c(i16::MAX); i.axis_count + 3]);
    }
    let gids = glyph_ids(i.n_glyphs, 0, rng);
    let mut d = Digest::new();
    d.str(ENGINE_NAMES[e.min(N_ENGINES - 1)]);
    d.dbg(&opts.target);
    st.distinct("hinting_configs", d.finish());
    let mut reuse: Option<HintingInstance> = None;
    let mut pairs: Vec<(Option<f32>, &Vec<NormalizedCoord>)> = vec![];
    for s in &szs {
        for cv in &cvs {
            pairs.push((*s, cv));
        }
    }
    if let Some(k) = pick {
        pairs = vec![pairs[k % pairs.len()]];
    }
    // reconfigure a long-lived instance (same font): history must not matter for totality
    let reconfigure = |h: &mut HintingInstance, s: Option<f32>, cv: &Vec<NormalizedCoord>, rng: &mut Rng, st: &mut Stats| {
        let e2 = if rng.chance(1, 3) { rng.usize(N_ENGINES) } else { e };
        let o2 = options(e2, rng.usize(N_TARGETS), &oc);
        let r = h.reconfigure(&oc, size_of(s), LocationRef::new(cv), o2);
        st.res("hint_instance_errors", &r);
        st.count("reconfigure_calls", 1);
        use_instance(h, st);
        if let Some(og) = oc.get(GlyphId::new(*rng.pick(&gids))) {
            draw_hinted_all(&og, h, rng, 0, st);
        }
    };
    for (s, cv) in &pairs {
        let r = HintingInstance::new(&oc, size_of(*s), LocationRef::new(cv), opts.clone());
        st.res("hint_instance_errors", &r);
        st.count(if r.is_ok() { "hint_instance_ok" } else { "hint_instance_err" }, 1);
        let Ok(inst) = r else { continue };
        use_instance(&inst, st);
        for g in &gids {
            let Some(og) = oc.get(GlyphId::new(*g)) else { continue };
            draw_hinted_all(&og, &inst, rng, spec.level, st);
        }
        match reuse.as_mut() {
            None => reuse = Some(inst.clone()),
            Some(h) => reconfigure(h, *s, cv, rng, st),
        }
    }
    if pick.is_some() {
        // a single pair: reconfigure the clone of its own instance once
        if let (Some(h), Some((s, cv))) = (reuse.as_mut(), pairs.first()) {
            reconfigure(h, *s, cv, rng, st);
        }
    }
}

/// Every target for one engine, one sampled size / location per target.
fn group_hintall(font: &FontRef, e: usize, spec: &GroupSpec, rng: &mut Rng, st: &mut Stats) {
    let i = info(font);
    let oc = font.outline_glyphs();
    let gids = glyph_ids(i.n_glyphs, 0, rng);
    let cvs = coord_vectors(i.axis_count, 0, rng, 2);
    for t in 0..N_TARGETS {
        let opts = options(e, t, &oc);
        let s = if t % 3 == 0 { Some(16.0) } else { sizes(0, rng, 1)[0] };
        let cv = &cvs[rng.usize(cvs.len())];
        let mut d = Digest::new();
        d.str(ENGINE_NAMES[e.min(N_ENGINES - 1)]);
        d.dbg(&opts.target);
        st.distinct("hinting_configs", d.finish());
        let r = HintingInstance::new(&oc, size_of(s), LocationRef::new(cv), opts);
        st.res("hint_instance_errors", &r);
        st.count(if r.is_ok() { "hint_instance_ok" } else { "hint_instance_err" }, 1);
        let Ok(inst) = r else { continue };
        use_instance(&inst, st);
        for g in gids.iter().skip(t % 2).step_by(2) {
            let Some(og) = oc.get(GlyphId::new(*g)) else { continue };
            draw_hinted_all(&og, &inst, rng, spec.level, st);
        }
    }
}

/// Sizes at which the capacity-directed CFF glyphs are drawn (unscaled first).
pub const CFFCAP_SIZES: [Option<f32>; 7] = [None, Some(8.0), Some(12.0), Some(16.0), Some(23.5), Some(64.0), Some(1000.0)];
/// (engine, target) pairs that select skrifa's CFF hinter for a CFF / CFF2 font.
pub const CFFCAP_HINT: [(usize, usize); 3] = [(0, 0), (0, 1), (3, 5)];

/// EVERY glyph of a (small, generated) CFF / CFF2 font, unhinted in both path styles and hinted (the
/// CFF hinter: Interpreter / AutoFallback engines, mono / smooth / light targets, pedantic off and
/// on) at a few fixed sizes, at the default location and - CFF2 - at two non-default ones.
/// `spec.index`: 0 = everything, k > 0 = only the k-th (size) slice (keeps big fonts inside the cpu bound).
fn group_cffcap(font: &FontRef, spec: &GroupSpec, st: &mut Stats) {
    let i = info(font);
    let oc = font.outline_glyphs();
    st.call();
    let n = i.n_glyphs.min(96);
    let is_cff2 = font.table_data(Tag::new(b"CFF2")).is_some();
    let mut cvs: Vec<Vec<NormalizedCoord>> = vec![vec![]];
    if is_cff2 {
        cvs.push(vec![c(0x2000)]);
        cvs.push(vec![c(0x4000), c(-0x4000), c(0x1000)]);
    }
    let sizes: Vec<Option<f32>> = if spec.index == 0 { CFFCAP_SIZES.to_vec() } else { vec![CFFCAP_SIZES[(spec.index as usize - 1) % CFFCAP_SIZES.len()]] };
    for cv in &cvs {
        for g in 0..n {
            let og = oc.get(GlyphId::new(g));
            st.opt(&og);
            let Some(og) = og else { continue };
            for s in &sizes {
                for style in [PathStyle::FreeType, PathStyle::HarfBuzz] {
                    let mut pen = CountPen::default();
                    let r = og.draw(DrawSettings::unhinted(size_of(*s), LocationRef::new(cv)).with_path_style(style), &mut pen);
                    draw_err_label(st, &r);
                    st.count(if r.is_ok() { "cffcap_unhinted_draw_ok" } else { "cffcap_unhinted_draw_err" }, 1);
                    st.count("pen_callbacks", pen.n);
                }
            }
        }
        for (e, t) in CFFCAP_HINT {
            for s in &sizes {
                let r = HintingInstance::new(&oc, size_of(*s), LocationRef::new(cv), options(e, t, &oc));
                st.res("hint_instance_errors", &r);
                st.count(if r.is_ok() { "hint_instance_ok" } else { "hint_instance_err" }, 1);
                let Ok(inst) = r else { continue };
                let mut d = Digest::new();
                d.str(ENGINE_NAMES[e]);
                d.dbg(&options(e, t, &oc).target);
                st.distinct("hinting_configs", d.finish());
                for g in 0..n {
                    let Some(og) = oc.get(GlyphId::new(g)) else { continue };
                    for pedantic in [false, true] {
                        let mut pen = CountPen::default();
                        let r = og.draw(DrawSettings::hinted(&inst, pedantic), &mut pen);
                        draw_err_label(st, &r);
                        st.count(if r.is_ok() { "cffcap_hinted_draw_ok" } else { "cffcap_hinted_draw_err" }, 1);
                        st.count(if r.is_ok() { "hinted_draw_ok" } else { "hinted_draw_err" }, 1);
                        st.count("pen_callbacks", pen.n);
                    }
                }
            }
        }
    }
}

fn group_color(font: &FontRef, spec: &GroupSpec, rng: &mut Rng, st: &mut Stats) {
    let i = info(font);
    let cg = font.color_glyphs();
    st.call();
    let mut gids = glyph_ids(i.n_glyphs, spec.level, rng);
    if spec.level >= 1 && i.n_glyphs <= 400 {
        gids = (0..i.n_glyphs + 2).collect();
        gids.push(0xFFFF);
    } else if let Ok(colr) = font.colr() {
        // make sure some base glyphs are hit even with sampled ids
        if let Some(Ok(recs)) = colr.base_glyph_records() {
            for r in recs.iter().take(6) {
                gids.push(r.glyph_id().to_u32());
            }
        }
        if let Some(Ok(list)) = colr.base_glyph_list() {
            for r in list.base_glyph_paint_records().iter().take(10) {
                gids.push(r.glyph_id().to_u32());
            }
        }
    }
    let cvs = coord_vectors(i.axis_count, 0, rng, if spec.level >= 1 { 4 } else { 1 });
    let szs = sizes(0, rng, 2);
    for g in gids {
        let gid = GlyphId::new(g);
        let a = cg.get(gid);
        st.opt(&a);
        for fmt in [ColorGlyphFormat::ColrV0, ColorGlyphFormat::ColrV1] {
            let x = cg.get_with_format(gid, fmt);
            st.opt(&x);
            let Some(x) = x else { continue };
            let _ = x.format();
            for (k, cv) in cvs.iter().enumerate() {
                for s in &szs {
                    let bb = x.bounding_box(LocationRef::new(cv), size_of(*s));
                    st.opt(&bb);
                }
                let mode = ((k as u64 + rng.below(3)) % 3) as u8;
                let mut p = CountPainter::new(mode);
                let r = guard(|| x.paint(LocationRef::new(cv), &mut p));
                match r {
                    Ok(r) => {
                        st.res("paint_errors", &r);
                        st.count(if r.is_ok() { "paint_ok" } else { "paint_err" }, 1);
                        st.count("painter_callbacks", p.n);
                        st.count(["paint_cached:unimplemented", "paint_cached:ok", "paint_cached:err"][mode as usize], 1);
                        if p.depth != 0 && r.is_ok() {
                            st.count("paint_unbalanced_ok(C13)", 1);
                        }
                    }
                    Err(pi) => {
                        if pi.class == PanicClass::Harness {
                            st.budget_exceeded = Some(format!("glyph {} format {:?}: more than {} painter callbacks", g, fmt as u8, PAINT_BUDGET));
                            st.count("paint_budget_exceeded", 1);
                        } else {
                            // re-raise for the case-level monitor (keeps file/line of the library site)
                            st.count("paint_panics", 1);
                            let _ = x.paint(LocationRef::new(cv), &mut CountPainter::new(mode));
                        }
                    }
                }
                #[cfg(googlefonts_fontations_verif)]
                {
                    let (visits, depth) = skrifa::color::verif_traversal_hooks::take_visits();
                    st.count("paint_nodes_visited", visits);
                    st.distinct("paint_max_depths", depth as u64);
                }
            }
        }
    }
}

/// Minimal case: look one glyph (spec.index) up and draw it once unhinted.
fn group_probe(font: &FontRef, spec: &GroupSpec, st: &mut Stats) {
    let oc = font.outline_glyphs();
    let og = oc.get(GlyphId::new(spec.index));
    st.opt(&og);
    if let Some(og) = og {
        let mut pen = CountPen::default();
        let r = og.draw(Size::new(16.0), &mut pen);
        draw_err_label(st, &r);
    }
}

fn group_helpers(font: &FontRef, spec: &GroupSpec, rng: &mut Rng, st: &mut Stats) {
    let i = info(font);
    for fmt in [OutlineGlyphFormat::Glyf, OutlineGlyphFormat::Cff, OutlineGlyphFormat::Cff2] {
        let oc = OutlineGlyphCollection::with_format(font, fmt);
        st.opt(&oc);
        let Some(oc) = oc else { continue };
        st.label("with_format_present", format!("{:?}", fmt));
        let _ = (oc.format(), oc.prefer_interpreter(), oc.require_interpreter());
        st.call();
        let cap = if spec.level >= 1 { 70_000 } else { 3_000 };
        let mut k = 0u64;
        for (g, og) in oc.iter() {
            k += 1;
            if k > cap {
                break;
            }
            let _ = (g, og.draw_memory_size(Hinting::Embedded), og.has_hinting());
        }
        st.call();
        st.count("outline_iter_items", k);
        // draw a few glyphs through the explicit-format collection
        for g in glyph_ids(i.n_glyphs, 0, rng).into_iter().take(4) {
            if let Some(og) = oc.get(GlyphId::new(g)) {
                let mut pen = CountPen::default();
                let r = og.draw(Size::new(24.0), &mut pen);
                draw_err_label(st, &r);
            }
        }
        let gs = GlyphStyles::new(&oc);
        st.call();
        let _ = format!("{:?}", gs).len().min(1);
    }
    let oc = font.outline_glyphs();
    let _ = format!("{:?}", oc).len();
    let _ = Location::new(i.axis_count + 3).coords().len();
    st.call();
}

/// API misuse: a hinting instance (or glyph styles) built from font A used with
/// glyphs / outlines of font B.
#[allow(clippy::too_many_arguments)]
fn group_misuse(fam: &str, a: &FontRef, b: &FontRef, e: usize, t: usize, spec: &GroupSpec, rng: &mut Rng, st: &mut Stats) {
    let ia = info(a);
    let ib = info(b);
    let oa = a.outline_glyphs();
    let ob = b.outline_glyphs();
    let size = size_of(*rng.pick(&[Some(16.0), Some(12.0), None, Some(1e4), Some(0.0)]));
    let cva = coord_vectors(ia.axis_count, 0, rng, 1);
    let cv = &cva[cva.len() - 1];
    let g = {
        let ids = glyph_ids(ib.n_glyphs, 0, rng);
        // spec.index selects which glyph so that each case draws exactly one
        ids[spec.index as usize % ids.len()]
    };
    match fam {
        "misuse" => {
            let r = HintingInstance::new(&oa, size, LocationRef::new(cv), options(e, t, &oa));
            st.res("hint_instance_errors", &r);
            let Ok(inst) = r else { return };
            let Some(og) = ob.get(GlyphId::new(g)) else { return };
            st.count("cross_font_draws", 1);
            let mut pen = CountPen::default();
            let r = og.draw(DrawSettings::hinted(&inst, spec.cfg_seed & 1 == 1), &mut pen);
            draw_err_label(st, &r);
            st.count(if r.is_ok() { "cross_font_draw_ok" } else { "cross_font_draw_err" }, 1);
        }
        "reconf" => {
            let r = HintingInstance::new(&oa, size, LocationRef::new(cv), options(e, t, &oa));
            st.res("hint_instance_errors", &r);
            let Ok(mut inst) = r else { return };
            let r = inst.reconfigure(&ob, size, LocationRef::new(cv), options(e, t, &ob));
            st.res("hint_instance_errors", &r);
            st.count("cross_font_reconfigures", 1);
            // after a reconfigure for B the instance must serve B's glyphs
            if r.is_ok() {
                if let Some(og) = ob.get(GlyphId::new(g)) {
                    let mut pen = CountPen::default();
                    let r = og.draw(DrawSettings::hinted(&inst, false), &mut pen);
                    draw_err_label(st, &r);
                }
            }
            // and a failed/successful reconfigure must not leave it panicking on A's
            let ga = glyph_ids(ia.n_glyphs, 0, rng);
            if let Some(og) = oa.get(GlyphId::new(ga[spec.index as usize % ga.len()])) {
                st.count("cross_font_draws", 1);
                let mut pen = CountPen::default();
                let r = og.draw(DrawSettings::hinted(&inst, true), &mut pen);
                draw_err_label(st, &r);
            }
        }
        _ => {
            // glyph styles computed for A handed to an instance for B
            let styles = GlyphStyles::new(&oa);
            st.call();
            let r = HintingInstance::new(&ob, size, LocationRef::new(cv), HintingOptions { engine: Engine::Auto(Some(styles)), target: target(t) });
            st.res("hint_instance_errors", &r);
            let Ok(inst) = r else { return };
            let Some(og) = ob.get(GlyphId::new(g)) else { return };
            st.count("cross_font_styles_draws", 1);
            let mut pen = CountPen::default();
            let r = og.draw(DrawSettings::hinted(&inst, false), &mut pen);
            draw_err_label(st, &r);
        }
    }
}

// ---------------------------------------------------------------- whole-font drivers

/// The list of group specs to run for one font at a given level.
pub fn groups_for(level: u8, cfg_seed: u64, rng: &mut Rng, has_colr: bool) -> Vec<GroupSpec> {
    let mut v = vec![];
    let s = |g: String| GroupSpec::new(g, level, cfg_seed);
    for g in ["open", "meta", "metrics", "charmap", "unhinted", "memory", "helpers"] {
        v.push(s(g.to_string()));
    }
    if has_colr || level >= 1 {
        v.push(s("color".into()));
    }
    if level >= 1 {
        for e in 0..N_ENGINES {
            for t in 0..N_TARGETS {
                if e == 4 && t >= 7 {
                    continue;
                }
                v.push(s(hint_group_name(e, t)));
            }
        }
    } else {
        // two random hinting configurations, always including the interpreter
        v.push(s(hint_group_name(0, rng.usize(N_TARGETS))));
        v.push(s(hint_group_name(1 + rng.usize(N_ENGINES - 1), rng.usize(N_TARGETS))));
    }
    v
}

pub fn has_table(bytes: &[u8], tag: &[u8; 4]) -> bool {
    vf_core::gen::parse_dir(bytes, 0).iter().any(|r| &r.tag == tag)
}

/// Drive a sampled product over one (mutant / generated) font. Returns true
/// if the font opened.
pub fn drive_sampled(ctx: &mut Ctx, fc: &FontCase, cfg_seed: u64) -> bool {
    let mut rng = Rng::derive(cfg_seed, "sampled-groups", 0);
    let o = exec_case(ctx, fc, &GroupSpec::new("open", 0, cfg_seed), None);
    if !o.opened {
        ctx.count(&format!("fonts_failed_to_open:{}", fc.category), 1);
        return false;
    }
    ctx.count(&format!("fonts_driven:{}", fc.category), 1);
    let has_colr = has_table(fc.bytes, b"COLR");
    for spec in groups_for(0, cfg_seed, &mut rng, has_colr).into_iter().skip(1) {
        exec_case(ctx, fc, &spec, None);
    }
    true
}
