//! C08 — character maps built from a mapping answer exactly that mapping.
//! See /verif/DESIGN.md §3 "C08".
//!
//! Model: the input `BTreeMap<u32 /*char*/, u16 /*gid*/>` itself.
//! Observed: `write_fonts::tables::cmap::Cmap::from_mappings` -> `dump_table`
//! -> read-fonts `Cmap::map_codepoint`, `Cmap4/12::map_codepoint`, `Cmap4/12::iter`,
//! skrifa `Charmap::map`, `Charmap::mappings`, `Cmap14/Charmap::map_variant`.
mod gen;
mod oracle;
mod variants;

use serde_json::{json, Value};
use std::collections::BTreeMap;
use vf_core::{Args, Ctx, Digest, PanicInfo, PanicPolicy, Rng};

pub type Map = BTreeMap<u32, u16>;

pub const REPLAY: Option<fn(&mut Ctx, &Args, &Value, Option<&[u8]>)> = Some(replay);

/// Which maxp the test font carries (bounds `Charmap::mappings` for format 12).
#[derive(Clone, Copy, Debug, PartialEq, Eq)]
pub enum MaxpOpt {
    /// no maxp table: skrifa assumes 65535 glyphs
    Absent,
    /// numGlyphs = max gid + 1 (the tightest glyph count satisfying the domain)
    Exact,
    /// numGlyphs = 0xFFFF
    Max,
}

impl MaxpOpt {
    pub fn from_ix(i: u64) -> Self {
        match i % 3 {
            0 => MaxpOpt::Absent,
            1 => MaxpOpt::Exact,
            _ => MaxpOpt::Max,
        }
    }
    pub fn ix(self) -> u8 {
        match self {
            MaxpOpt::Absent => 0,
            MaxpOpt::Exact => 1,
            MaxpOpt::Max => 2,
        }
    }
}

/// Main = inside the region where a format-4 subtable provably fits in 64 KiB
/// (upper bound computed by `gen::f4_upper_bound`); Probe = beyond it.
#[derive(Clone, Copy, Debug, PartialEq, Eq)]
pub enum Region {
    Main,
    Probe,
}

/// Normalise a panic location: Some(signature) if it is in the library under
/// test, None if it is in harness code / std internals.
pub fn lib_sig(p: &PanicInfo) -> Option<String> {
    let repo = vf_core::repo_dir();
    let repo = repo.trim_end_matches('/');
    let f: &str = p
        .file
        .strip_prefix(&format!("{}/", repo))
        .unwrap_or(&p.file);
    if !p.in_repo()
        || f.starts_with("checks/")
        || f.starts_with("core/")
        || f.contains("/harness/")
        || f.contains("/.vf/")
        || f.starts_with("/rustc/")
        || f.starts_with("library/")
    {
        return None;
    }
    Some(format!("panic:{}:{}:{}", f, p.line, p.class.as_str()))
}

pub fn map_digest(map: &Map, maxp: MaxpOpt) -> u64 {
    let mut d = Digest::new();
    d.u32(maxp.ix() as u32);
    for (c, g) in map {
        d.u32(*c);
        d.u32(*g as u32);
    }
    d.finish()
}

pub fn map_bytes(map: &Map, maxp: MaxpOpt, region: Region) -> Vec<u8> {
    let mut v = Vec::with_capacity(2 + map.len() * 6);
    v.push(maxp.ix());
    v.push((region == Region::Probe) as u8);
    for (c, g) in map {
        v.extend_from_slice(&c.to_le_bytes());
        v.extend_from_slice(&g.to_le_bytes());
    }
    v
}

pub fn map_json(map: &Map) -> Value {
    let v: Vec<Value> = map
        .iter()
        .take(64)
        .map(|(c, g)| json!([format!("U+{:04X}", c), g]))
        .collect();
    json!({"entries": map.len(), "first_pairs": v})
}

fn replay(ctx: &mut Ctx, _args: &Args, _rec: &Value, bytes: Option<&[u8]>) {
    setup(ctx);
    let Some(b) = bytes else {
        ctx.inconclusive("replay record has no input file");
        return;
    };
    if b.len() < 2 {
        ctx.inconclusive("replay input too short");
        return;
    }
    let maxp = MaxpOpt::from_ix(b[0] as u64);
    let region = if b[1] == 1 { Region::Probe } else { Region::Main };
    let mut map = Map::new();
    for c in b[2..].chunks_exact(6) {
        let cp = u32::from_le_bytes([c[0], c[1], c[2], c[3]]);
        let g = u16::from_le_bytes([c[4], c[5]]);
        map.insert(cp, g);
    }
    oracle::check_case(ctx, "replay", &map, maxp, region);
}

fn setup(ctx: &mut Ctx) {
    ctx.policy = PanicPolicy::Any;
    ctx.level = "exploration+exhaustive-small-space".into();
    ctx.rule = "a case is counted when Cmap::from_mappings + dump_table succeeded on a non-empty \
        conflict-free mapping (gid in 1..=0xFFFE, no U+FFFF) and the compiled bytes were swept: every BMP code \
        point + supplementary boundary set through Cmap::map_codepoint, every distinct subtable's map_codepoint, \
        Charmap::map, plus iter()/mappings() equality; digest = (mapping pairs, maxp option). Variant cases: digest \
        of the (selector, char) -> default/non-default model."
        .into();
    ctx.assumptions = vec![
        "domain per property: conflict-free, glyph ids 1..=0xFFFE and below the font's glyph count, U+FFFF never mapped, chars are Unicode scalar values (no surrogates)".into(),
        "table-level lookups may answer an unmapped char with None or glyph 0 (format-4 sentinel U+FFFF -> 0); Charmap must answer None".into(),
        "main claim restricted to mappings whose format-4 subtable fits 64 KiB (harness upper bound on the builder's segmentation); larger ones are probed separately (defect #10)".into(),
        "format-14 inputs are well-formed per spec: selectors ascending, default ranges ascending and disjoint, non-default mappings ascending, a (char, selector) pair never both default and non-default".into(),
    ];
}

pub fn run(ctx: &mut Ctx, _args: &Args) {
    setup(ctx);
    let mut item = 0usize;

    // ---- 1. exhaustive small space
    let alphabets: &[(&str, [u32; 8])] = &[
        ("A", [0x0, 0x1, 0x7FFF, 0x8000, 0xFFFD, 0xFFFE, 0x10000, 0x10FFFF]),
        ("B", [0x20, 0x21, 0x22, 0xD7FF, 0xE000, 0xFFFE, 0x10000, 0x10001]),
        ("C", [0x7FFE, 0x7FFF, 0x8000, 0x8001, 0xFFFC, 0xFFFD, 0x10FFFE, 0x10FFFF]),
    ];
    let n_alpha = ctx.tier.pick(1, 3);
    let gids: [u16; 5] = [1, 2, 0x7FFF, 0x8000, 0xFFFE];
    let mut exhaustive_total = 0u64;
    for (aname, alpha) in alphabets.iter().take(n_alpha) {
        for mask in 1u32..256 {
            let k = mask.count_ones() as usize;
            if k > 4 {
                continue;
            }
            let chars: Vec<u32> = (0..8).filter(|b| mask & (1 << b) != 0).map(|b| alpha[b]).collect();
            let n_assign = 5usize.pow(k as u32);
            for a in 0..n_assign {
                exhaustive_total += 1;
                item += 1;
                if !ctx.mine(item) {
                    continue;
                }
                let mut map = Map::new();
                let mut x = a;
                for c in &chars {
                    map.insert(*c, gids[x % 5]);
                    x /= 5;
                }
                let maxp = MaxpOpt::from_ix(item as u64);
                ctx.count(&format!("cases:exhaustive-{}", aname), 1);
                oracle::check_case(ctx, "exhaustive", &map, maxp, Region::Main);
            }
        }
    }
    ctx.exhaustive = Some(true);
    ctx.extra.insert(
        "exhaustive_space".into(),
        json!({"alphabets": alphabets.iter().take(n_alpha).map(|(n, a)| json!({"name": n, "chars": a.iter().map(|c| format!("U+{:04X}", c)).collect::<Vec<_>>()})).collect::<Vec<_>>(),
               "gids": gids, "max_chars": 4, "cases_total_all_shards": exhaustive_total}),
    );

    // ---- 2. directed + random mappings (main region)
    let n_random = ctx.tier.pick(2400usize, 90_000usize);
    for i in 0..n_random {
        item += 1;
        if !ctx.mine(item) {
            continue;
        }
        let mut rng = Rng::derive(ctx.seed, "c08-random", i as u64);
        let (kind, map) = gen::gen_case(&mut rng, i);
        let maxp = MaxpOpt::from_ix(rng.u64());
        ctx.count(&format!("cases:{}", kind), 1);
        oracle::check_case(ctx, kind, &map, maxp, Region::Main);
    }

    // ---- 3. fixed boundary cases (format-4 size boundary, delta boundaries)
    for (i, (kind, map)) in gen::fixed_cases().into_iter().enumerate() {
        item += 1;
        if !ctx.mine(item) {
            continue;
        }
        ctx.count(&format!("cases:{}", kind), 1);
        oracle::check_case(ctx, kind, &map, MaxpOpt::from_ix(i as u64), Region::Main);
    }

    // ---- 4. variation sequences (format 14)
    let n_var = ctx.tier.pick(1200usize, 40_000usize);
    for i in 0..n_var {
        item += 1;
        if !ctx.mine(item) {
            continue;
        }
        let mut rng = Rng::derive(ctx.seed, "c08-variants", i as u64);
        variants::check_variant_case(ctx, &mut rng, i);
    }

    // ---- 5. probes beyond the representable format-4 region (defect #10)
    for (i, (kind, map)) in gen::probe_cases(ctx.seed, ctx.tier.is_thorough()).into_iter().enumerate() {
        item += 1;
        if !ctx.mine(item) {
            continue;
        }
        ctx.count(&format!("cases:{}", kind), 1);
        oracle::check_case(ctx, kind, &map, MaxpOpt::from_ix(i as u64), Region::Probe);
    }
}
