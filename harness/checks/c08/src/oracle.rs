//! Build → dump → read back → sweep, for one mapping.
use crate::{gen, lib_sig, map_bytes, map_digest, map_json, Map, MaxpOpt, Region};
use font_types::{GlyphId, Tag};
use read_fonts::{tables::cmap as rcmap, FontData, FontRead, FontRef};
use serde_json::{json, Value};
use skrifa::{charmap::MappingIndex, MetadataProvider};
use std::cell::Cell;
use vf_core::{Ctx, Rng};
use write_fonts::{tables::cmap as wcmap, tables::maxp::Maxp, FontBuilder};

/// Supplementary / out-of-range code points looked up in every case.
pub const EXTRA_CPS: [u32; 17] = [
    0x10000, 0x10001, 0x1FFFF, 0x20000, 0x2FFFF, 0xE0000, 0xE0100, 0xE01EF, 0xFFFFF, 0x100000, 0x10FFFE, 0x10FFFF, 0x110000,
    0x7FFFFFFF, 0x80000000, 0xFFFF0041, 0xFFFFFFFF,
];

#[derive(Default)]
pub struct Outcome {
    pub mismatch: Option<(String, Value)>,
    pub notes: Vec<String>,
    pub lookups: u64,
    pub lookups_mapped: u64,
    pub f4_len: Option<usize>,
    pub f4_segments: u64,
    pub f4_range_offset_segments: u64,
    pub f4_wrapping_delta_segments: u64,
    pub f12_groups: u64,
    pub layout: String,
    pub charmap_format: &'static str,
    pub font_len: usize,
}

fn gid_opt(g: Option<GlyphId>) -> Option<u32> {
    g.map(|g| g.to_u32())
}

fn fmt_got(g: Option<u32>) -> Value {
    match g {
        Some(g) => json!(g),
        None => Value::Null,
    }
}

/// `exact`: unmapped must be None. Otherwise None or glyph 0 are both "no glyph".
fn judge(api: &str, cp: u32, got: Option<u32>, want: u16, exact: bool) -> Option<(String, Value)> {
    let ok = if want != 0 {
        got == Some(want as u32)
    } else if exact {
        got.is_none()
    } else {
        got.is_none() || got == Some(0)
    };
    if ok {
        return None;
    }
    let what = if want != 0 && (got.is_none() || got == Some(0)) {
        "missing"
    } else if want != 0 {
        "wrong-glyph"
    } else {
        "spurious"
    };
    Some((
        format!("{}:{}:U+{:04X}", api, what, cp),
        json!({"api": api, "codepoint": format!("U+{:04X}", cp), "got": fmt_got(got), "want": if want != 0 { json!(want) } else { Value::Null }}),
    ))
}

fn diff_pairs(api: &str, got: &[(u32, u32)], want: &[(u32, u32)]) -> Option<(String, Value)> {
    for w in got.windows(2) {
        if w[1].0 <= w[0].0 {
            return Some((
                format!("{}:not-ascending:U+{:04X}", api, w[1].0),
                json!({"api": api, "prev": w[0], "next": w[1]}),
            ));
        }
    }
    let (mut i, mut j) = (0, 0);
    while i < got.len() || j < want.len() {
        let g = got.get(i);
        let w = want.get(j);
        match (g, w) {
            (Some(g), Some(w)) if g == w => {
                i += 1;
                j += 1;
            }
            (Some(g), Some(w)) if g.0 == w.0 => {
                return Some((
                    format!("{}:wrong-glyph:U+{:04X}", api, g.0),
                    json!({"api": api, "codepoint": format!("U+{:04X}", g.0), "got": g.1, "want": w.1}),
                ))
            }
            (Some(g), Some(w)) if g.0 < w.0 => {
                return Some((
                    format!("{}:spurious:U+{:04X}", api, g.0),
                    json!({"api": api, "codepoint": format!("U+{:04X}", g.0), "got": g.1}),
                ))
            }
            (Some(g), None) => {
                return Some((
                    format!("{}:spurious:U+{:04X}", api, g.0),
                    json!({"api": api, "codepoint": format!("U+{:04X}", g.0), "got": g.1}),
                ))
            }
            (_, Some(w)) => {
                return Some((
                    format!("{}:missing:U+{:04X}", api, w.0),
                    json!({"api": api, "codepoint": format!("U+{:04X}", w.0), "want": w.1, "yielded": got.len(), "expected": want.len()}),
                ))
            }
            (None, None) => break,
        }
    }
    None
}

/// Assemble a font around compiled cmap bytes.
pub fn build_font(cmap_bytes: &[u8], num_glyphs: Option<u16>) -> Vec<u8> {
    let mut b = FontBuilder::new();
    b.add_raw(Tag::new(b"cmap"), cmap_bytes.to_vec());
    if let Some(n) = num_glyphs {
        // Maxp has no failing validation for the 0.5 version
        let _ = b.add_table(&Maxp::new(n));
    }
    b.build()
}

pub fn num_glyphs_for(map: &Map, maxp: MaxpOpt) -> Option<u16> {
    match maxp {
        MaxpOpt::Absent => None,
        MaxpOpt::Exact => Some(map.values().copied().max().unwrap_or(0).saturating_add(1)),
        MaxpOpt::Max => Some(0xFFFF),
    }
}

/// Sweep the compiled cmap (inside `font`) against the model.
pub fn sweep(map: &Map, cmap_bytes: &[u8], font_bytes: &[u8], out: &mut Outcome) {
    let mut bmp_expect = vec![0u16; 0x10000];
    for (c, g) in map.range(..0x10000) {
        bmp_expect[*c as usize] = *g;
    }
    let want_all: Vec<(u32, u32)> = map.iter().map(|(c, g)| (*c, *g as u32)).collect();
    let want_bmp: Vec<(u32, u32)> = map.range(..0x10000).map(|(c, g)| (*c, *g as u32)).collect();
    let has_bmp = !want_bmp.is_empty();
    let has_supp = want_all.len() > want_bmp.len();

    // extra code points: fixed boundary set + neighbourhood of every mapped supplementary char
    let mut extras: Vec<u32> = EXTRA_CPS.to_vec();
    for (c, _) in map.range(0x10000..) {
        extras.push(c - 1);
        extras.push(*c);
        extras.push(c + 1);
    }
    extras.sort_unstable();
    extras.dedup();
    let want_of = |cp: u32| -> u16 { map.get(&cp).copied().unwrap_or(0) };

    macro_rules! fail {
        ($m:expr) => {{
            out.mismatch = Some($m);
            return;
        }};
    }

    // ---- low-level table
    let cmap = match rcmap::Cmap::read(FontData::new(cmap_bytes)) {
        Ok(c) => c,
        Err(e) => fail!(("read:cmap-unreadable".to_string(), json!({"error": e.to_string()}))),
    };
    let records = cmap.encoding_records();
    let mut layout = vec![];
    let mut prev_key = None;
    let mut seen_offsets: Vec<u32> = vec![];
    for rec in records {
        let key = (rec.platform_id() as u16, rec.encoding_id());
        if let Some(p) = prev_key {
            if key <= p {
                out.notes.push(format!("encoding records not strictly ascending: {:?} after {:?}", key, p));
            }
        }
        prev_key = Some(key);
        let sub = match rec.subtable(cmap.offset_data()) {
            Ok(s) => s,
            Err(e) => fail!((
                format!("read:subtable-unreadable:{}-{}", key.0, key.1),
                json!({"error": e.to_string(), "record": [key.0, key.1]})
            )),
        };
        let off = rec.subtable_offset().to_u32();
        let first_time = !seen_offsets.contains(&off);
        if first_time {
            seen_offsets.push(off);
        }
        match sub {
            rcmap::CmapSubtable::Format4(f4) => {
                layout.push(format!("{}/{}:f4", key.0, key.1));
                if !first_time {
                    continue;
                }
                out.f4_len = Some(f4.length() as usize);
                let n = f4.seg_count_x2() as usize / 2;
                out.f4_segments += n as u64;
                for i in 0..n {
                    let ro = f4.id_range_offsets().get(i).map(|x| x.get()).unwrap_or(0);
                    if ro != 0 {
                        out.f4_range_offset_segments += 1;
                    } else {
                        let s = f4.start_code().get(i).map(|x| x.get()).unwrap_or(0) as i32;
                        let d = f4.id_delta().get(i).map(|x| x.get()).unwrap_or(0) as i32;
                        if !(0..=0xFFFF).contains(&(s + d)) {
                            out.f4_wrapping_delta_segments += 1;
                        }
                    }
                }
                for cp in 0..=0xFFFFu32 {
                    let got = gid_opt(f4.map_codepoint(cp));
                    out.lookups += 1;
                    if let Some(m) = judge("Cmap4::map_codepoint", cp, got, bmp_expect[cp as usize], false) {
                        fail!(m);
                    }
                }
                for &cp in extras.iter().filter(|c| **c > 0xFFFF) {
                    out.lookups += 1;
                    if let Some(g) = f4.map_codepoint(cp) {
                        fail!((
                            format!("Cmap4::map_codepoint:spurious:U+{:04X}", cp),
                            json!({"codepoint": format!("U+{:04X}", cp), "got": g.to_u32(), "note": "format 4 answered a code point beyond the BMP"})
                        ));
                    }
                }
                let mut got: Vec<(u32, u32)> = f4.iter().map(|(c, g)| (c, g.to_u32())).collect();
                if got.last() == Some(&(0xFFFF, 0)) {
                    got.pop();
                }
                if let Some(m) = diff_pairs("Cmap4::iter", &got, &want_bmp) {
                    fail!(m);
                }
            }
            rcmap::CmapSubtable::Format12(f12) => {
                layout.push(format!("{}/{}:f12", key.0, key.1));
                if !first_time {
                    continue;
                }
                out.f12_groups += f12.groups().len() as u64;
                for cp in 0..=0xFFFFu32 {
                    let got = gid_opt(f12.map_codepoint(cp));
                    out.lookups += 1;
                    if let Some(m) = judge("Cmap12::map_codepoint", cp, got, bmp_expect[cp as usize], false) {
                        fail!(m);
                    }
                }
                for &cp in &extras {
                    out.lookups += 1;
                    let got = gid_opt(f12.map_codepoint(cp));
                    if let Some(m) = judge("Cmap12::map_codepoint", cp, got, want_of(cp), false) {
                        fail!(m);
                    }
                }
                let got: Vec<(u32, u32)> = f12.iter().map(|(c, g)| (c, g.to_u32())).collect();
                if let Some(m) = diff_pairs("Cmap12::iter", &got, &want_all) {
                    fail!(m);
                }
            }
            other => {
                layout.push(format!("{}/{}:f{}", key.0, key.1, other.format()));
            }
        }
    }
    out.layout = layout.join(",");
    // every character must be reachable through some subtable
    let has_f4 = layout.iter().any(|l| l.ends_with(":f4"));
    let has_f12 = layout.iter().any(|l| l.ends_with(":f12"));
    if (has_bmp && !has_f4 && !has_f12) || (has_supp && !has_f12) {
        out.notes.push(format!("unexpected layout '{}' for bmp={} supp={}", out.layout, has_bmp, has_supp));
    }

    // table-level lookup
    for cp in 0..=0xFFFFu32 {
        let got = gid_opt(cmap.map_codepoint(cp));
        out.lookups += 1;
        out.lookups_mapped += (bmp_expect[cp as usize] != 0) as u64;
        if let Some(m) = judge("Cmap::map_codepoint", cp, got, bmp_expect[cp as usize], false) {
            fail!(m);
        }
    }
    for &cp in &extras {
        let got = gid_opt(cmap.map_codepoint(cp));
        out.lookups += 1;
        out.lookups_mapped += (want_of(cp) != 0) as u64;
        if let Some(m) = judge("Cmap::map_codepoint", cp, got, want_of(cp), false) {
            fail!(m);
        }
    }

    // ---- skrifa Charmap on the assembled font
    let font = match FontRef::new(font_bytes) {
        Ok(f) => f,
        Err(e) => {
            out.notes.push(format!("assembled font unreadable: {}", e));
            return;
        }
    };
    out.font_len = font_bytes.len();
    let charmap = font.charmap();
    if charmap.has_map() != !map.is_empty() {
        fail!((
            format!("Charmap::has_map:{}", charmap.has_map()),
            json!({"has_map": charmap.has_map(), "entries": map.len(), "layout": out.layout})
        ));
    }
    out.charmap_format = if !charmap.has_map() {
        "none"
    } else if has_supp {
        "expects-f12"
    } else {
        "expects-f4"
    };
    if charmap.is_symbol() {
        fail!(("Charmap::is_symbol:true".to_string(), json!({"layout": out.layout})));
    }
    for cp in 0..=0xFFFFu32 {
        let got = gid_opt(charmap.map(cp));
        out.lookups += 1;
        if let Some(m) = judge("Charmap::map", cp, got, bmp_expect[cp as usize], true) {
            fail!(m);
        }
    }
    for &cp in &extras {
        let got = gid_opt(charmap.map(cp));
        out.lookups += 1;
        if let Some(m) = judge("Charmap::map", cp, got, want_of(cp), true) {
            fail!(m);
        }
    }
    // the cached-index construction path must select the same subtable
    let charmap2 = MappingIndex::new(&font).charmap(&font);
    for (c, g) in map.iter().step_by((map.len() / 512).max(1)) {
        out.lookups += 1;
        if let Some(m) = judge("MappingIndex::charmap.map", *c, gid_opt(charmap2.map(*c)), *g, true) {
            fail!(m);
        }
    }
    for &cp in &extras {
        out.lookups += 1;
        if let Some(m) = judge("MappingIndex::charmap.map", cp, gid_opt(charmap2.map(cp)), want_of(cp), true) {
            fail!(m);
        }
    }
    let n1 = charmap.mappings().count();
    let n2 = charmap2.mappings().count();
    if n2 != n1 {
        fail!((
            "MappingIndex::charmap.mappings:count-differs-from-Charmap::new".to_string(),
            json!({"via_index": n2, "via_new": n1})
        ));
    }
    let got: Vec<(u32, u32)> = charmap.mappings().map(|(c, g)| (c, g.to_u32())).collect();
    if let Some(m) = diff_pairs("Charmap::mappings", &got, &want_all) {
        fail!(m);
    }
}

/// One full case. Panics are attributed to the phase that was running.
pub fn check_case(ctx: &mut Ctx, kind: &str, map: &Map, maxp: MaxpOpt, region: Region) {
    ctx.eval();
    let digest = map_digest(map, maxp);
    let ub = gen::f4_upper_bound(map);
    if region == Region::Main && ub > 0xFFFF {
        ctx.inconclusive(format!("generator produced a main-region case with f4 bound {} ({})", ub, kind));
        return;
    }
    // the input order is arbitrary and identical pairs may repeat
    let mut input: Vec<(char, GlyphId)> = map
        .iter()
        .filter_map(|(c, g)| char::from_u32(*c).map(|c| (c, GlyphId::new(*g as u32))))
        .collect();
    if input.len() != map.len() {
        ctx.inconclusive("generator produced a non-scalar code point");
        return;
    }
    let mut rng = Rng::new(digest);
    match rng.below(4) {
        0 => {}
        1 => input.reverse(),
        _ => rng.shuffle(&mut input),
    }
    if !input.is_empty() && rng.bool() {
        for _ in 0..rng.range(1, 4) {
            let d = input[rng.usize(input.len())];
            input.push(d);
        }
    }
    let n_pos_wrap = map.range(..0x10000).filter(|(c, g)| **g as i64 - **c as i64 > 32767).count();
    let n_neg_wrap = map.range(..0x10000).filter(|(c, g)| (**g as i64 - **c as i64) < -32768).count();

    let phase: Cell<&'static str> = Cell::new("from_mappings");
    let bytes_for_replay = if map.len() <= 200_000 { Some(map_bytes(map, maxp, region)) } else { None };
    let label_kind = kind.to_string();
    let res = ctx.run_case(
        &|| format!("{}:{:016x}", label_kind, digest),
        bytes_for_replay.as_deref(),
        &|| -> Result<Outcome, (String, Value)> {
            let mut out = Outcome::default();
            phase.set("from_mappings");
            let cmap = match wcmap::Cmap::from_mappings(input.iter().copied()) {
                Ok(c) => c,
                Err(e) => {
                    return Err((
                        "from_mappings:conflict-error-on-conflict-free-input".to_string(),
                        json!({"error": e.to_string()}),
                    ))
                }
            };
            phase.set("dump_table");
            let cmap_bytes = match write_fonts::dump_table(&cmap) {
                Ok(b) => b,
                Err(e) => return Err(("dump_table:error".to_string(), json!({"error": e.to_string()}))),
            };
            phase.set("build_font");
            let font_bytes = build_font(&cmap_bytes, num_glyphs_for(map, maxp));
            phase.set("read");
            sweep(map, &cmap_bytes, &font_bytes, &mut out);
            Ok(out)
        },
    );
    let case_json = |ctx: &Ctx| {
        let _ = ctx;
        json!({"kind": kind, "mapping": map_json(map), "maxp": format!("{:?}", maxp), "region": format!("{:?}", region),
               "f4_upper_bound": ub, "digest": format!("{:016x}", digest)})
    };
    match res {
        Err(p) => {
            let Some(sig) = lib_sig(&p) else {
                ctx.inconclusive(format!("harness panic {}:{} {}", p.file, p.line, p.msg));
                return;
            };
            ctx.count(&format!("panic_in:{}", phase.get()), 1);
            let full_sig = if region == Region::Probe && matches!(phase.get(), "from_mappings" | "dump_table") {
                format!("format4-too-large:{}-{}", phase.get(), sig)
            } else {
                format!("{}-{}", phase.get(), sig)
            };
            let d = json!({"phase": phase.get(), "panic": {"file": p.file, "line": p.line, "msg": p.msg, "class": p.class.as_str()},
                "chars_with_gid_minus_cp_gt_32767": n_pos_wrap, "case": case_json(ctx)});
            ctx.violation(&full_sig, d, bytes_for_replay.as_deref());
        }
        Ok(Err((sig, detail))) => {
            // the format-4 overflow probes have their own signature class (see the panic arm above):
            // since /repo a6684da an unrepresentable format-4 subtable is a validation error from
            // dump_table instead of a panic; from_mappings itself still has no error path.
            let sig = if region == Region::Probe && sig == "dump_table:error" {
                "format4-too-large:dump_table-error".to_string()
            } else {
                sig
            };
            let d = json!({"detail": detail, "case": case_json(ctx)});
            ctx.violation(&sig, d, bytes_for_replay.as_deref());
        }
        Ok(Ok(out)) => {
            for n in &out.notes {
                ctx.inconclusive(format!("{} [{} {:016x}]", n, kind, digest));
            }
            if let Some(l) = out.f4_len {
                if l > ub {
                    ctx.inconclusive(format!("harness f4 size bound {} below actual {} [{} {:016x}]", ub, l, kind, digest));
                }
                if l == ub {
                    ctx.count("f4_len_equals_harness_bound", 1);
                }
                if l > 0xFF00 {
                    ctx.count("f4_len_within_256_of_64k", 1);
                }
            }
            ctx.count("built_ok", 1);
            if region == Region::Probe {
                ctx.count("probe_built_ok", 1);
            }
            ctx.count("lookups", out.lookups);
            ctx.count("lookups_of_mapped_chars(table-level)", out.lookups_mapped);
            ctx.count("f4_segments", out.f4_segments);
            ctx.count("f4_range_offset_segments", out.f4_range_offset_segments);
            ctx.count("f4_wrapping_delta_segments", out.f4_wrapping_delta_segments);
            ctx.count("f12_groups", out.f12_groups);
            ctx.count("inputs_with_gid_minus_cp_gt_32767_built", (n_pos_wrap > 0) as u64);
            ctx.count("inputs_with_gid_minus_cp_lt_-32768_built", (n_neg_wrap > 0) as u64);
            if map.contains_key(&0xFFFE) {
                ctx.count("cases_mapping_U+FFFE", 1);
            }
            if map.contains_key(&0x10FFFF) {
                ctx.count("cases_mapping_U+10FFFF", 1);
            }
            ctx.label("record_layouts", &out.layout);
            ctx.label("charmap_subtable", out.charmap_format);
            let size_class = match map.len() {
                0 => "0",
                1..=4 => "1-4",
                5..=100 => "5-100",
                101..=5000 => "101-5000",
                5001..=30000 => "5001-30000",
                _ => "30001+",
            };
            ctx.label("mapping_sizes", size_class);
            ctx.count(&format!("size:{}", size_class), 1);
            if let Some((sig, detail)) = out.mismatch {
                let d = json!({"detail": detail, "layout": out.layout, "case": case_json(ctx)});
                ctx.violation(&sig, d, bytes_for_replay.as_deref());
                return;
            }
            if !map.is_empty() {
                ctx.nontrivial(digest);
                ctx.sample_by_kind(
                    kind,
                    json!({"mapping": map_json(map), "layout": out.layout, "f4_len": out.f4_len, "f4_segments": out.f4_segments,
                           "range_offset_segments": out.f4_range_offset_segments, "f12_groups": out.f12_groups, "lookups": out.lookups}),
                );
            }
        }
    }
}
