fn main() {
    vf_core::main_with("C08", vf_c08::run, vf_c08::REPLAY);
}
