//! Format-14 (Unicode variation sequences) built from write-fonts owned types.
use crate::{lib_sig, oracle, Map, MaxpOpt};
use font_types::{GlyphId, Uint24};
use read_fonts::{tables::cmap as rcmap, FontData, FontRead, FontRef};
use serde_json::{json, Value};
use skrifa::{charmap::MapVariant, MetadataProvider};
use std::collections::{BTreeMap, BTreeSet};
use vf_core::{Ctx, Digest, Rng};
use write_fonts::tables::cmap as wcmap;

/// (selector, char) -> None = default UVS, Some(gid) = non-default UVS
type VarModel = BTreeMap<(u32, u32), Option<u16>>;

const SELECTORS: [u32; 12] = [
    0xFE00, 0xFE01, 0xFE0E, 0xFE0F, 0x180B, 0xE0100, 0xE0101, 0xE01EE, 0xE01EF, 0x0, 0xFFFFFF, 0x10FFFF,
];

fn rand_selector(rng: &mut Rng) -> u32 {
    if rng.chance(3, 4) {
        *rng.pick(&SELECTORS)
    } else {
        rng.range(0, 0xFFFFFF) as u32
    }
}

fn rand_base(rng: &mut Rng) -> u32 {
    match rng.below(5) {
        0 => rng.range(0x4E00, 0x4E40) as u32,
        1 => rng.range(0, 0xFFFF) as u32,
        2 => rng.range(0x20000, 0x20040) as u32,
        3 => *rng.pick(&[0u32, 1, 0xFFFE, 0xFFFF, 0x10000, 0x10FFFF, 0xFFFFFE, 0xFFFFFF]),
        _ => rng.range(0, 0xFFFFFF) as u32,
    }
}

fn want_variant(m: Option<&Option<u16>>) -> Option<MapVariant> {
    match m {
        None => None,
        Some(None) => Some(MapVariant::UseDefault),
        Some(Some(g)) => Some(MapVariant::Variant(GlyphId::new(*g as u32))),
    }
}

fn vstr(v: Option<MapVariant>) -> String {
    match v {
        None => "none".into(),
        Some(MapVariant::UseDefault) => "default".into(),
        Some(MapVariant::Variant(g)) => format!("variant({})", g.to_u32()),
    }
}

pub fn check_variant_case(ctx: &mut Ctx, rng: &mut Rng, index: usize) {
    ctx.eval();
    // ---- model
    let mut model = VarModel::new();
    let mut selectors: BTreeSet<u32> = BTreeSet::new();
    let n_sel = if index % 7 == 0 { rng.range(1, 12) } else { rng.range(1, 4) };
    for _ in 0..n_sel {
        selectors.insert(rand_selector(rng));
    }
    let mut empty_selectors = 0;
    for &sel in &selectors {
        let shape = rng.below(6);
        if shape == 0 {
            empty_selectors += 1;
            continue; // selector record with neither table
        }
        // default ranges
        if shape != 1 {
            for _ in 0..rng.range(1, 4) {
                let start = rand_base(rng);
                let len = match rng.below(4) {
                    0 => 1,
                    1 => rng.range(1, 10) as u32,
                    2 => rng.range(250, 260) as u32,
                    _ => rng.range(1, 700) as u32,
                };
                for k in 0..len {
                    let cp = start + k;
                    if cp <= 0xFFFFFF {
                        model.entry((sel, cp)).or_insert(None);
                    }
                }
            }
        }
        // non-default mappings (never on a default char)
        if shape != 2 {
            for _ in 0..rng.range(1, 30) {
                let cp = if rng.bool() && !model.is_empty() {
                    // adjacent to an existing entry: boundary of a default range
                    let keys: Vec<&(u32, u32)> = model.keys().filter(|k| k.0 == sel).collect();
                    if keys.is_empty() {
                        rand_base(rng)
                    } else {
                        let k = keys[rng.usize(keys.len())];
                        (k.1 as i64 + *rng.pick(&[-1i64, 1])).clamp(0, 0xFFFFFF) as u32
                    }
                } else {
                    rand_base(rng)
                };
                let gid = *rng.pick(&[1u16, 2, 0xFF, 0x100, 0x7FFF, 0x8000, 0xFFFE, 0xFFFF, 25, 26]);
                model.entry((sel, cp)).or_insert(Some(gid));
            }
        }
    }

    // ---- owned tables
    let mut records = vec![];
    let mut total_len = 10 + 11 * selectors.len();
    let mut n_ranges_total = 0u64;
    let mut n_split_255 = 0u64;
    for &sel in &selectors {
        let defaults: Vec<u32> = model.range((sel, 0)..=(sel, u32::MAX)).filter(|(_, v)| v.is_none()).map(|(k, _)| k.1).collect();
        let nondef: Vec<(u32, u16)> = model
            .range((sel, 0)..=(sel, u32::MAX))
            .filter_map(|(k, v)| v.map(|g| (k.1, g)))
            .collect();
        let mut ranges = vec![];
        let mut i = 0;
        while i < defaults.len() {
            let mut j = i + 1;
            // a range holds at most 256 chars; sometimes cut earlier
            let cap = if rng.chance(1, 5) { rng.range(1, 256) as usize } else { 256 };
            while j < defaults.len() && defaults[j] == defaults[j - 1] + 1 && j - i < cap {
                j += 1;
            }
            if j - i == 256 {
                n_split_255 += 1;
            }
            ranges.push(wcmap::UnicodeRange::new(Uint24::new(defaults[i]), (j - i - 1) as u8));
            i = j;
        }
        n_ranges_total += ranges.len() as u64;
        let d = (!ranges.is_empty()).then(|| {
            total_len += 4 + 4 * ranges.len();
            wcmap::DefaultUvs::new(ranges.len() as u32, ranges)
        });
        let nd = (!nondef.is_empty()).then(|| {
            total_len += 4 + 5 * nondef.len();
            wcmap::NonDefaultUvs::new(
                nondef.len() as u32,
                nondef.iter().map(|(c, g)| wcmap::UvsMapping::new(Uint24::new(*c), *g)).collect(),
            )
        });
        records.push(wcmap::VariationSelector::new(Uint24::new(sel), d, nd));
    }
    let sub14 = wcmap::CmapSubtable::format_14(total_len as u32, selectors.len() as u32, records);

    // base mapping: a few nominal chars so that a codepoint subtable is present as well
    let mut base = Map::new();
    let base_shape = rng.below(3);
    if base_shape >= 1 {
        base.insert(0x4E00, 10);
        base.insert(0x41, 1);
    }
    if base_shape == 2 {
        base.insert(0x20000, 11);
    }

    let mut dg = Digest::new();
    for ((s, c), v) in &model {
        dg.u32(*s);
        dg.u32(*c);
        dg.u32(v.map(|g| g as u32 + 1).unwrap_or(0));
    }
    for s in &selectors {
        dg.u32(*s);
    }
    dg.u32(base_shape as u32);
    let digest = dg.finish();

    let case_json = json!({
        "selectors": selectors.iter().map(|s| format!("U+{:04X}", s)).collect::<Vec<_>>(),
        "pairs": model.len(),
        "first_pairs": model.iter().take(40).map(|((s, c), v)| json!([format!("U+{:04X}", s), format!("U+{:04X}", c), v])).collect::<Vec<_>>(),
        "base_shape": base_shape,
        "digest": format!("{:016x}", digest),
    });

    // ---- build
    let built = vf_core::guard(|| -> Result<(Vec<u8>, Vec<u8>), String> {
        let mut cmap = wcmap::Cmap::from_mappings(
            base.iter().map(|(c, g)| (char::from_u32(*c).unwrap_or('A'), GlyphId::new(*g as u32))),
        )
        .map_err(|e| e.to_string())?;
        // keep encoding records ordered by (platform, encoding): (0,3) (0,4) (0,5) (3,1) (3,10)
        let pos = cmap
            .encoding_records
            .iter()
            .position(|r| r.platform_id != wcmap::PlatformId::Unicode)
            .unwrap_or(cmap.encoding_records.len());
        cmap.encoding_records
            .insert(pos, wcmap::EncodingRecord::new(wcmap::PlatformId::Unicode, 5, sub14.clone()));
        let bytes = write_fonts::dump_table(&cmap).map_err(|e| e.to_string())?;
        let font = oracle::build_font(&bytes, oracle::num_glyphs_for(&base, MaxpOpt::Max));
        Ok((bytes, font))
    });
    let (cmap_bytes, font_bytes) = match built {
        Err(p) => {
            match lib_sig(&p) {
                Some(sig) => {
                    ctx.violation(
                        &format!("variants-build-{}", sig),
                        json!({"panic": {"file": p.file, "line": p.line, "msg": p.msg}, "case": case_json}),
                        None,
                    );
                }
                None => ctx.inconclusive(format!("harness panic {}:{} {}", p.file, p.line, p.msg)),
            }
            return;
        }
        Ok(Err(e)) => {
            ctx.violation("variants-build:error", json!({"error": e, "case": case_json}), None);
            return;
        }
        Ok(Ok(x)) => x,
    };

    // ---- queries
    let mut queries: Vec<(u32, u32)> = vec![];
    for (s, c) in model.keys() {
        queries.push((*s, *c));
        queries.push((*s, c.wrapping_sub(1)));
        queries.push((*s, c + 1));
        queries.push((s.wrapping_sub(1), *c));
        queries.push((s + 1, *c));
    }
    // every modelled char against every selector (a char default under one selector, absent under another)
    let chars: BTreeSet<u32> = model.keys().map(|k| k.1).collect();
    for &c in chars.iter().take(400) {
        for &s in &selectors {
            queries.push((s, c));
        }
    }
    for &s in &selectors {
        for c in [0u32, 0x41, 0x4E00, 0xFFFF, 0x10000, 0x10FFFF, 0xFFFFFF, 0x1000000, u32::MAX] {
            queries.push((s, c));
        }
    }
    for _ in 0..20 {
        queries.push((rand_selector(rng), rand_base(rng)));
    }
    queries.sort_unstable();
    queries.dedup();

    let want_iter: Vec<(u32, u32, String)> = {
        // per selector: defaults ascending first, then non-defaults ascending
        let mut v = vec![];
        for &s in &selectors {
            for ((_, c), m) in model.range((s, 0)..=(s, u32::MAX)) {
                if m.is_none() {
                    v.push((*c, s, "default".to_string()));
                }
            }
            for ((_, c), m) in model.range((s, 0)..=(s, u32::MAX)) {
                if let Some(g) = m {
                    v.push((*c, s, format!("variant({})", g)));
                }
            }
        }
        v
    };

    let res = vf_core::guard(|| -> Result<u64, (String, Value)> {
        let mut n = 0u64;
        let cmap = rcmap::Cmap::read(FontData::new(&cmap_bytes))
            .map_err(|e| ("variants-read:cmap-unreadable".to_string(), json!({"error": e.to_string()})))?;
        let mut c14 = None;
        for rec in cmap.encoding_records() {
            if let Ok(rcmap::CmapSubtable::Format14(t)) = rec.subtable(cmap.offset_data()) {
                c14 = Some(t);
            }
        }
        let Some(c14) = c14 else {
            return Err(("variants-read:no-format14-subtable".to_string(), json!({})));
        };
        let font = FontRef::new(&font_bytes)
            .map_err(|e| ("variants-read:font-unreadable".to_string(), json!({"error": e.to_string()})))?;
        let charmap = font.charmap();
        if !charmap.has_variant_map() {
            return Err(("Charmap::has_variant_map:false".to_string(), json!({})));
        }
        for &(s, c) in &queries {
            let want = want_variant(model.get(&(s, c)));
            let got_t = c14.map_variant(c, s);
            let got_c = charmap.map_variant(c, s);
            n += 2;
            for (api, got) in [("Cmap14::map_variant", got_t), ("Charmap::map_variant", got_c)] {
                if got != want {
                    let class = match (want, got) {
                        (None, _) => "spurious",
                        (_, None) => "missing",
                        (Some(MapVariant::UseDefault), _) => "default-answered-as-variant",
                        (Some(MapVariant::Variant(_)), Some(MapVariant::UseDefault)) => "variant-answered-as-default",
                        _ => "wrong-glyph",
                    };
                    return Err((
                        format!("{}:{}", api, class),
                        json!({"selector": format!("U+{:04X}", s), "codepoint": format!("U+{:04X}", c), "got": vstr(got), "want": vstr(want)}),
                    ));
                }
            }
        }
        let got_iter: Vec<(u32, u32, String)> = c14.iter().map(|(c, s, m)| (c, s, vstr(Some(m)))).collect();
        if got_iter != want_iter {
            let ix = got_iter.iter().zip(&want_iter).position(|(a, b)| a != b).unwrap_or(got_iter.len().min(want_iter.len()));
            return Err((
                "Cmap14::iter:differs".to_string(),
                json!({"index": ix, "got": got_iter.get(ix), "want": want_iter.get(ix), "got_len": got_iter.len(), "want_len": want_iter.len()}),
            ));
        }
        let got_iter2: Vec<(u32, u32, String)> = charmap.variant_mappings().map(|(c, s, m)| (c, s, vstr(Some(m)))).collect();
        if got_iter2 != want_iter {
            return Err((
                "Charmap::variant_mappings:differs".to_string(),
                json!({"got_len": got_iter2.len(), "want_len": want_iter.len()}),
            ));
        }
        // nominal lookups are unaffected by the extra record
        for (c, g) in &base {
            n += 1;
            if charmap.map(*c) != Some(GlyphId::new(*g as u32)) {
                return Err((
                    format!("Charmap::map:with-format14:U+{:04X}", c),
                    json!({"got": charmap.map(*c).map(|g| g.to_u32()), "want": g}),
                ));
            }
        }
        Ok(n)
    });
    match res {
        Err(p) => match lib_sig(&p) {
            Some(sig) => {
                ctx.violation(
                    &format!("variants-read-{}", sig),
                    json!({"panic": {"file": p.file, "line": p.line, "msg": p.msg}, "case": case_json}),
                    Some(&cmap_bytes),
                );
            }
            None => ctx.inconclusive(format!("harness panic {}:{} {}", p.file, p.line, p.msg)),
        },
        Ok(Err((sig, detail))) => {
            ctx.violation(&sig, json!({"detail": detail, "case": case_json}), Some(&cmap_bytes));
        }
        Ok(Ok(n)) => {
            ctx.count("cases:variants", 1);
            ctx.count("variant_lookups", n);
            ctx.count("variant_pairs_default", model.values().filter(|v| v.is_none()).count() as u64);
            ctx.count("variant_pairs_non_default", model.values().filter(|v| v.is_some()).count() as u64);
            ctx.count("variant_default_ranges", n_ranges_total);
            ctx.count("variant_default_ranges_of_256", n_split_255);
            ctx.count("variant_selector_records", selectors.len() as u64);
            ctx.count("variant_selector_records_without_tables", empty_selectors);
            if !model.is_empty() {
                ctx.nontrivial(digest);
                ctx.sample_by_kind("variants", case_json);
            }
        }
    }
}
