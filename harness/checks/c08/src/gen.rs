//! Workload generators for C08: mappings in the property's domain.
use crate::Map;
use vf_core::Rng;

pub const MAX_GID: u16 = 0xFFFE;

fn valid_cp(cp: u32) -> bool {
    cp != 0xFFFF && cp <= 0x10FFFF && !(0xD800..=0xDFFF).contains(&cp)
}

/// Insert keeping the mapping conflict-free and inside the domain.
fn put(map: &mut Map, cp: u32, gid: u32) {
    if !valid_cp(cp) {
        return;
    }
    let gid = gid.clamp(1, MAX_GID as u32) as u16;
    map.entry(cp).or_insert(gid);
}

const BMP_EDGES: [u32; 16] = [
    0x0, 0x1, 0x7F, 0x80, 0xFF, 0x100, 0x7FFE, 0x7FFF, 0x8000, 0x8001, 0xD7FF, 0xE000, 0xFFFC, 0xFFFD, 0xFFFE, 0xFFF0,
];
const SUPP_EDGES: [u32; 10] = [
    0x10000, 0x10001, 0x1FFFF, 0x20000, 0xE0100, 0xFFFFF, 0x100000, 0x10FFFD, 0x10FFFE, 0x10FFFF,
];
const GID_EDGES: [u32; 10] = [1, 2, 0xFF, 0x100, 0x7FFE, 0x7FFF, 0x8000, 0x8001, 0xFFFD, 0xFFFE];

#[derive(Clone, Copy, PartialEq, Eq)]
enum Plane {
    Bmp,
    Supp,
    Both,
}

fn rand_cp(rng: &mut Rng, plane: Plane) -> u32 {
    let supp = match plane {
        Plane::Bmp => false,
        Plane::Supp => true,
        Plane::Both => rng.bool(),
    };
    if supp {
        if rng.chance(1, 3) {
            let e = *rng.pick(&SUPP_EDGES) as i64 + rng.range(-3, 3);
            e.clamp(0x10000, 0x10FFFF) as u32
        } else if rng.chance(1, 2) {
            rng.range(0x10000, 0x10FFFF) as u32
        } else {
            // cluster so that runs / neighbours appear
            rng.range(0x1F000, 0x1F400) as u32
        }
    } else if rng.chance(1, 3) {
        let e = *rng.pick(&BMP_EDGES) as i64 + rng.range(-3, 3);
        e.clamp(0, 0xFFFE) as u32
    } else if rng.chance(1, 2) {
        rng.range(0, 0xFFFE) as u32
    } else {
        rng.range(0x20, 0x500) as u32
    }
}

fn rand_gid(rng: &mut Rng) -> u32 {
    if rng.chance(1, 3) {
        (*rng.pick(&GID_EDGES) as i64 + rng.range(-2, 2)).clamp(1, MAX_GID as i64) as u32
    } else if rng.chance(1, 2) {
        rng.range(1, MAX_GID as i64) as u32
    } else {
        rng.range(1, 2000) as u32
    }
}

fn pick_plane(rng: &mut Rng) -> Plane {
    match rng.below(4) {
        0 => Plane::Supp,
        1 => Plane::Both,
        _ => Plane::Bmp,
    }
}

fn dense_runs(rng: &mut Rng, map: &mut Map, plane: Plane, max_len: u32) {
    let runs = rng.range(1, 6);
    for _ in 0..runs {
        let start = rand_cp(rng, plane);
        let len = match rng.below(3) {
            0 => rng.range(1, 8) as u32,
            1 => rng.range(1, 300.min(max_len as i64)) as u32,
            _ => rng.range(1, max_len as i64) as u32,
        };
        let g0 = rand_gid(rng).min(MAX_GID as u32 - len.min(MAX_GID as u32 - 1));
        for k in 0..len {
            put(map, start + k, g0 + k);
        }
    }
}

fn sparse(rng: &mut Rng, map: &mut Map, plane: Plane, n: usize) {
    for _ in 0..n {
        let cp = rand_cp(rng, plane);
        let g = rand_gid(rng);
        put(map, cp, g);
    }
}

/// contiguous characters whose glyph ids are not in order: forces
/// idRangeOffset segments, with ordered sub-runs inside to exercise the
/// split/merge cost logic.
fn shuffled_runs(rng: &mut Rng, map: &mut Map, plane: Plane, max_len: u32) {
    let runs = rng.range(1, 5);
    for _ in 0..runs {
        let start = rand_cp(rng, plane);
        let len = if rng.bool() { rng.range(2, 12) } else { rng.range(2, max_len as i64) } as usize;
        let g0 = rand_gid(rng).min(MAX_GID as u32 - len as u32);
        let mut gids: Vec<u32> = (0..len as u32).map(|k| g0 + k).collect();
        match rng.below(5) {
            0 => gids.reverse(),
            1 => rng.shuffle(&mut gids),
            2 => {
                // shuffle the order of ascending chunks
                let mut chunks: Vec<Vec<u32>> = vec![];
                let mut i = 0;
                while i < len {
                    let l = (rng.range(1, 7) as usize).min(len - i);
                    chunks.push(gids[i..i + l].to_vec());
                    i += l;
                }
                rng.shuffle(&mut chunks);
                gids = chunks.concat();
            }
            3 => {
                // a few transpositions
                for _ in 0..rng.range(1, 4) {
                    let a = rng.usize(len);
                    let b = rng.usize(len);
                    gids.swap(a, b);
                }
            }
            _ => {
                // independent random gids (not a permutation; duplicates allowed)
                for g in gids.iter_mut() {
                    *g = rand_gid(rng);
                }
            }
        }
        for (k, g) in gids.iter().enumerate() {
            put(map, start + k as u32, *g);
        }
    }
}

fn boundary(rng: &mut Rng, map: &mut Map) {
    // run ending exactly at U+FFFE
    if rng.bool() {
        let len = rng.range(1, 40) as u32;
        let g0 = rand_gid(rng).min(MAX_GID as u32 - len);
        let scr = rng.bool();
        for k in 0..len {
            let g = if scr { g0 + (len - 1 - k) } else { g0 + k };
            put(map, 0xFFFE + 1 - len + k, g);
        }
    }
    // run starting at U+0000
    if rng.bool() {
        let len = rng.range(1, 40) as u32;
        let g0 = rand_gid(rng).min(MAX_GID as u32 - len);
        for k in 0..len {
            put(map, k, g0 + k);
        }
    }
    // run across U+7FFF/U+8000 with gids across 0x7FFF/0x8000
    if rng.bool() {
        let len = rng.range(2, 20) as u32;
        let s = 0x8000 - rng.range(1, len as i64 - 1).max(1) as u32;
        let g0 = (0x8000 - rng.range(0, len as i64) as u32).max(1);
        for k in 0..len {
            put(map, s + k, g0 + k);
        }
    }
    // around the surrogate gap
    if rng.bool() {
        for k in 0..rng.range(1, 5) as u32 {
            put(map, 0xD7FF - k, rand_gid(rng));
            put(map, 0xE000 + k, rand_gid(rng));
        }
    }
    // supplementary edges
    if rng.bool() {
        let len = rng.range(1, 20) as u32;
        let g0 = rand_gid(rng).min(MAX_GID as u32 - len);
        for k in 0..len {
            put(map, 0x10000 + k, g0 + k);
        }
    }
    if rng.bool() {
        let len = rng.range(1, 20) as u32;
        let g0 = rand_gid(rng).min(MAX_GID as u32 - len);
        for k in 0..len {
            put(map, 0x10FFFF + 1 - len + k, g0 + k);
        }
    }
    if map.is_empty() {
        put(map, 0xFFFE, rand_gid(rng));
    }
}

const DELTAS: [i64; 19] = [
    0, 1, -1, 255, -255, 32766, 32767, 32768, 32769, -32767, -32768, -32769, -32770, 65533, -65533, 65000, -65000, 40000,
    -40000,
];

fn delta_extremes(rng: &mut Rng, map: &mut Map) {
    let n = rng.range(1, 12);
    for _ in 0..n {
        let d = *rng.pick(&DELTAS) + if rng.chance(1, 4) { rng.range(-2, 2) } else { 0 };
        // cp such that gid = cp + d in 1..=0xFFFE, cp in 0..=0xFFFE
        let lo = (1 - d).max(0);
        let hi = (MAX_GID as i64 - d).min(0xFFFE);
        if lo > hi {
            continue;
        }
        let cp = if rng.bool() { rng.range(lo, hi) } else if rng.bool() { lo } else { hi };
        let len = if rng.chance(1, 3) { rng.range(1, 6) } else { 1 };
        for k in 0..len {
            put(map, (cp + k) as u32, (cp + k + d).clamp(1, MAX_GID as i64) as u32);
        }
    }
    if map.is_empty() {
        put(map, 0, 0x8000);
    }
}

fn huge(rng: &mut Rng, map: &mut Map) {
    match rng.below(4) {
        0 => {
            // one long dense BMP run (broken only by the surrogate gap)
            let n = rng.range(20_000, 60_000) as u32;
            let start = rng.range(0, 0x400) as u32;
            let g0 = rng.range(1, (MAX_GID as i64 - n as i64).max(1)) as u32;
            let mut g = g0;
            let mut cp = start;
            let mut left = n;
            while left > 0 && cp < 0xFFFF {
                if valid_cp(cp) {
                    put(map, cp, g);
                    g += 1;
                    left -= 1;
                }
                cp += 1;
            }
        }
        1 => {
            // supplementary sparse, up to 60000 entries
            let n = rng.range(20_000, 60_000) as usize;
            for _ in 0..n {
                put(map, rng.range(0x10000, 0x10FFFF) as u32, rng.range(1, MAX_GID as i64) as u32);
            }
        }
        2 => {
            // dense BMP with a few shuffled windows
            let n = rng.range(20_000, 50_000) as u32;
            let mut gids: Vec<u32> = (0..n).map(|k| 1 + k).collect();
            for _ in 0..rng.range(1, 6) {
                let w = rng.range(2, 200) as usize;
                let s = rng.usize(n as usize - w);
                let mut win = gids[s..s + w].to_vec();
                rng.shuffle(&mut win);
                gids[s..s + w].copy_from_slice(&win);
            }
            for (k, g) in gids.iter().enumerate() {
                put(map, 0x20 + k as u32, *g);
            }
        }
        _ => {
            // 30000 BMP + 30000 supplementary, both dense
            let n = rng.range(10_000, 30_000) as u32;
            for k in 0..n {
                put(map, 0x100 + k, 1 + k);
                put(map, 0x20000 + k, 30_001 + k);
            }
        }
    }
}

/// Upper bound on the byte length of the format-4 subtable the builder
/// produces: the cost of its greedy split (ordered sub-runs become delta
/// segments, stretches of unordered glyph ids become idRangeOffset segments);
/// the builder's merge step only ever lowers the total.
pub fn f4_upper_bound(map: &Map) -> usize {
    let bmp: Vec<(u32, u16)> = map.range(..0x10000).map(|(c, g)| (*c, *g)).collect();
    if bmp.is_empty() {
        return 0;
    }
    let n = bmp.len();
    let mut total = 16 + 8;
    let mut i = 0;
    while i < n {
        let mut j = i + 1;
        while j < n && bmp[j].0 == bmp[j - 1].0 + 1 {
            j += 1;
        }
        let mut k = i;
        let mut singles = 0usize;
        let flush = |singles: &mut usize, total: &mut usize| {
            if *singles == 1 {
                *total += 8;
            } else if *singles >= 2 {
                *total += 8 + 2 * *singles;
            }
            *singles = 0;
        };
        while k < j {
            let mut l = k + 1;
            while l < j && bmp[l].1 as u32 == bmp[l - 1].1 as u32 + 1 {
                l += 1;
            }
            if l - k >= 2 {
                flush(&mut singles, &mut total);
                total += 8;
            } else {
                singles += 1;
            }
            k = l;
        }
        flush(&mut singles, &mut total);
        i = j;
    }
    total
}

/// Keep the mapping inside the representable format-4 region.
fn fit_main_region(map: &mut Map) {
    while f4_upper_bound(map) > 0xFFFF {
        let bmp: Vec<u32> = map.range(..0x10000).map(|(c, _)| *c).collect();
        let drop = (bmp.len() / 10).max(1);
        for c in bmp.iter().rev().take(drop) {
            map.remove(c);
        }
    }
}

/// Remove the inputs that trigger defect #2 (gid - cp > 32767 for a BMP char)
/// so that half of the random cases exercise everything else while the defect
/// is open. (The other half keeps them.)
fn avoid_positive_wrap(map: &mut Map) {
    for (c, g) in map.iter_mut() {
        if *c <= 0xFFFF && (*g as i64 - *c as i64) > 32767 {
            let ng = (*c as i64 + 32767 - ((*g as i64) % 7)).clamp(1, MAX_GID as i64);
            *g = ng as u16;
        }
    }
}

pub fn gen_case(rng: &mut Rng, index: usize) -> (&'static str, Map) {
    let mut map = Map::new();
    let plane = pick_plane(rng);
    let kind_ix = if index % 97 == 96 { 6 } else { rng.below(6) };
    let kind = match kind_ix {
        0 => {
            dense_runs(rng, &mut map, plane, 3000);
            "dense-runs"
        }
        1 => {
            let n = match rng.below(3) {
                0 => rng.range(1, 10),
                1 => rng.range(1, 300),
                _ => rng.range(1, 6000),
            } as usize;
            sparse(rng, &mut map, plane, n);
            "sparse"
        }
        2 => {
            shuffled_runs(rng, &mut map, plane, 400);
            "shuffled-runs"
        }
        3 => {
            boundary(rng, &mut map);
            "boundary"
        }
        4 => {
            delta_extremes(rng, &mut map);
            "delta-extremes"
        }
        5 => {
            for _ in 0..rng.range(2, 3) {
                let p = pick_plane(rng);
                match rng.below(5) {
                    0 => dense_runs(rng, &mut map, p, 500),
                    1 => {
                        let n = rng.range(1, 400) as usize;
                        sparse(rng, &mut map, p, n)
                    }
                    2 => shuffled_runs(rng, &mut map, p, 100),
                    3 => boundary(rng, &mut map),
                    _ => delta_extremes(rng, &mut map),
                }
            }
            "mixed"
        }
        _ => {
            huge(rng, &mut map);
            "huge"
        }
    };
    if map.is_empty() {
        put(&mut map, rand_cp(rng, Plane::Bmp), rand_gid(rng));
    }
    if kind != "delta-extremes" && rng.chance(1, 4) {
        avoid_positive_wrap(&mut map);
    } else if kind == "delta-extremes" && rng.chance(1, 8) {
        avoid_positive_wrap(&mut map);
    }
    fit_main_region(&mut map);
    (kind, map)
}

fn scrambled_run(start: u32, n: u32, g0: u32) -> Map {
    // deterministic non-monotone gids: pairs swapped => no ordered sub-run of length >= 2 survives
    let mut m = Map::new();
    for k in 0..n {
        let kk = if k % 2 == 0 { k + 1 } else { k - 1 };
        let kk = if kk >= n { k } else { kk };
        put(&mut m, start + k, g0 + kk);
    }
    m
}

fn sparse_points(n: u32, step: u32, g0: u32) -> Map {
    let mut m = Map::new();
    let mut cp = 0x21;
    let mut placed = 0;
    while placed < n {
        if valid_cp(cp) {
            // gid close to cp: never a positive wrap
            put(&mut m, cp, g0 + placed % 50);
            placed += 1;
        }
        cp += step;
    }
    m
}

/// Fixed boundary cases inside the main region.
pub fn fixed_cases() -> Vec<(&'static str, Map)> {
    let mut v = vec![];
    // empty mapping
    v.push(("empty", Map::new()));
    // largest single idRangeOffset segment that fits: 16 + 16 + 2n <= 65535
    for n in [32749u32, 32750, 32751] {
        v.push(("f4-size-boundary", scrambled_run(0x20, n, 1)));
    }
    // most single-char segments that fit: 16 + 8(n+1) <= 65535
    for n in [8187u32, 8188] {
        v.push(("f4-size-boundary", sparse_points(n, 3, 1)));
    }
    // delta boundaries (single chars): gid - cp at ±32767/±32768 etc.
    for d in DELTAS {
        for cp in [0i64, 1, 0x7FFF, 0x8000, 0xFFFE] {
            let g = cp + d;
            if (1..=MAX_GID as i64).contains(&g) {
                let mut m = Map::new();
                put(&mut m, cp as u32, g as u32);
                v.push(("delta-single", m));
            }
        }
    }
    // full-BMP identity-like map: every BMP scalar except U+FFFF
    let mut m = Map::new();
    let mut g = 1u32;
    for cp in 0..0xFFFFu32 {
        if valid_cp(cp) {
            put(&mut m, cp, g);
            g += 1;
        }
    }
    v.push(("full-bmp", m));
    v
}

/// Mappings whose format-4 subtable cannot (or may not) fit in 64 KiB.
pub fn probe_cases(seed: u64, thorough: bool) -> Vec<(&'static str, Map)> {
    let mut v = vec![];
    // single scrambled run just over the limit and well over it
    for n in [32752u32, 32753, 33000, 40000] {
        v.push(("probe-one-range-offset-segment", scrambled_run(0x20, n, 1)));
    }
    // two scrambled runs: second segment's idRangeOffset = (2 + n1) * 2
    for n1 in [32760u32, 32765, 32766, 32767, 33000] {
        let mut m = scrambled_run(0x20, n1, 1);
        m.extend(scrambled_run(0x20 + n1 + 5, 6, 40000));
        v.push(("probe-two-range-offset-segments", m));
    }
    // too many single-char segments
    for n in [8189u32, 8190, 9000, 20000] {
        v.push(("probe-many-segments", sparse_points(n, 3, 1)));
    }
    if thorough {
        let mut rng = Rng::derive(seed, "c08-probe", 0);
        for _ in 0..24 {
            let n = rng.range(8189, 30000) as u32;
            v.push(("probe-many-segments", sparse_points(n, 2, rng.range(1, 1000) as u32)));
            let n1 = rng.range(32752, 50000) as u32;
            v.push(("probe-one-range-offset-segment", scrambled_run(rng.range(0, 0x100) as u32, n1, 1)));
        }
    }
    v
}
