fn main() {
    vf_core::main_with("C12", vf_c12::run, vf_c12::REPLAY);
}
