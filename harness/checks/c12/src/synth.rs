//! Tiny hand-assembled TrueType fonts whose programs exercise every component
//! of the retained interpreter state: function definitions (FDEF), instruction
//! definitions (IDEF — no corpus font has one), ppem-dependent storage and cvt
//! writes, twilight-zone points moved by `prep`.
//!
//! `synth-idef-a.ttf` defines opcode 0xA2 through IDEF, `synth-idef-b.ttf`
//! executes the same opcode in its glyph programs without defining it: if
//! instruction definitions survived a `reconfigure` from A to B, B's glyphs
//! would run stale code.
use super::*;

fn be16(v: &mut Vec<u8>, x: i32) {
    v.extend_from_slice(&(x as u16).to_be_bytes());
}
fn be32(v: &mut Vec<u8>, x: u32) {
    v.extend_from_slice(&x.to_be_bytes());
}

fn simple_glyph(points: &[(i16, i16)], instructions: &[u8]) -> Vec<u8> {
    let mut g = vec![];
    let (xmin, xmax) = (points.iter().map(|p| p.0).min().unwrap(), points.iter().map(|p| p.0).max().unwrap());
    let (ymin, ymax) = (points.iter().map(|p| p.1).min().unwrap(), points.iter().map(|p| p.1).max().unwrap());
    be16(&mut g, 1);
    for v in [xmin, ymin, xmax, ymax] {
        be16(&mut g, v as i32);
    }
    be16(&mut g, points.len() as i32 - 1);
    be16(&mut g, instructions.len() as i32);
    g.extend_from_slice(instructions);
    for _ in points {
        g.push(0x01); // on curve, 16-bit deltas
    }
    let mut last = 0i16;
    for p in points {
        be16(&mut g, (p.0 - last) as i32);
        last = p.0;
    }
    last = 0;
    for p in points {
        be16(&mut g, (p.1 - last) as i32);
        last = p.1;
    }
    while g.len() % 4 != 0 {
        g.push(0);
    }
    g
}

struct Spec {
    fpgm: Vec<u8>,
    prep: Vec<u8>,
    glyph_programs: Vec<Vec<u8>>,
    cvt: Vec<i16>,
    max_storage: u16,
    max_twilight: u16,
    max_fdefs: u16,
    max_idefs: u16,
    /// further tables (fvar, cvar) appended verbatim
    extra: Vec<([u8; 4], Vec<u8>)>,
}

fn build(spec: &Spec) -> Vec<u8> {
    let shapes: [&[(i16, i16)]; 3] = [&[(100, 0), (500, 0), (300, 700)], &[(50, 50), (650, 80), (630, 640), (40, 600)], &[(0, 0), (333, 10), (160, 555)]];
    let mut glyf = vec![];
    let mut loca = vec![0u32];
    // glyph 0: empty
    loca.push(0);
    for (i, prog) in spec.glyph_programs.iter().enumerate() {
        glyf.extend_from_slice(&simple_glyph(shapes[i % shapes.len()], prog));
        loca.push(glyf.len() as u32);
    }
    let n = loca.len() as u16 - 1;
    let mut head = vec![];
    be32(&mut head, 0x0001_0000);
    be32(&mut head, 0x0001_0000);
    be32(&mut head, 0);
    be32(&mut head, 0x5F0F_3CF5);
    be16(&mut head, 0x000B);
    be16(&mut head, 1000);
    head.extend_from_slice(&[0; 16]);
    for v in [0, 0, 700, 700] {
        be16(&mut head, v);
    }
    be16(&mut head, 0);
    be16(&mut head, 6);
    be16(&mut head, 2);
    be16(&mut head, 1); // long loca
    be16(&mut head, 0);
    let mut hhea = vec![];
    be32(&mut hhea, 0x0001_0000);
    for v in [800, -200, 0, 700, 0, 0, 700, 1, 0, 0, 0, 0, 0, 0, 0] {
        be16(&mut hhea, v);
    }
    be16(&mut hhea, n as i32);
    let mut hmtx = vec![];
    for i in 0..n {
        be16(&mut hmtx, 600 + 7 * i as i32);
        be16(&mut hmtx, 40);
    }
    let mut maxp = vec![];
    be32(&mut maxp, 0x0001_0000);
    let maxins = spec.glyph_programs.iter().map(|p| p.len()).max().unwrap_or(0).max(spec.fpgm.len()).max(spec.prep.len());
    for v in [n as usize, 8, 2, 0, 0, 2, spec.max_twilight as usize, spec.max_storage as usize, spec.max_fdefs as usize, spec.max_idefs as usize, 64, maxins, 0, 0] {
        be16(&mut maxp, v as i32);
    }
    let mut loca_b = vec![];
    for o in &loca {
        be32(&mut loca_b, *o);
    }
    let mut cvt = vec![];
    for c in &spec.cvt {
        be16(&mut cvt, *c as i32);
    }
    let mut tables = vec![(*b"head", head), (*b"hhea", hhea), (*b"maxp", maxp), (*b"hmtx", hmtx), (*b"loca", loca_b), (*b"glyf", glyf), (*b"fpgm", spec.fpgm.clone()), (*b"prep", spec.prep.clone()), (*b"cvt ", cvt)];
    tables.extend(spec.extra.iter().cloned());
    vf_core::gen::build_sfnt(0x0001_0000, &tables)
}

/// One-axis fvar (wght 100..400..900), a cvar with a single tuple (peak +1.0, all cvt
/// entries, word deltas) and an empty gvar.
fn fvar_cvar(deltas: &[i16], n_glyphs: u16) -> Vec<([u8; 4], Vec<u8>)> {
    let mut fvar = vec![];
    be32(&mut fvar, 0x0001_0000);
    for v in [16, 2, 1, 20, 0, 8] {
        be16(&mut fvar, v);
    }
    fvar.extend_from_slice(b"wght");
    for v in [100u32 << 16, 400 << 16, 900 << 16] {
        be32(&mut fvar, v);
    }
    be16(&mut fvar, 0);
    be16(&mut fvar, 256);
    let mut cvar = vec![];
    be16(&mut cvar, 1);
    be16(&mut cvar, 0);
    be16(&mut cvar, 1); // one tuple, no shared point numbers
    be16(&mut cvar, 14); // data offset
    let n = deltas.len();
    assert!(n >= 1 && n <= 64);
    be16(&mut cvar, (2 + 2 * n) as i32); // variation data size
    be16(&mut cvar, 0xA000); // embedded peak | private point numbers
    be16(&mut cvar, 0x4000); // peak +1.0
    cvar.push(0); // all cvt entries
    cvar.push(0x40 | (n as u8 - 1)); // word deltas
    for d in deltas {
        be16(&mut cvar, *d as i32);
    }
    // skrifa takes the axis count for cvar from gvar: an empty one (no glyph has variation data)
    let mut gvar = vec![];
    let end = 20 + 2 * (n_glyphs as u32 + 1);
    for v in [1, 0, 1, 0] {
        be16(&mut gvar, v);
    }
    be32(&mut gvar, end);
    be16(&mut gvar, n_glyphs as i32);
    be16(&mut gvar, 0);
    be32(&mut gvar, end);
    for _ in 0..=n_glyphs {
        be16(&mut gvar, 0);
    }
    vec![(*b"fvar", fvar), (*b"cvar", cvar), (*b"gvar", gvar)]
}

// opcodes
const PUSHB1: u8 = 0xB0;
const PUSHB2: u8 = 0xB1;
const PUSHB3: u8 = 0xB2;
const FDEF: u8 = 0x2C;
const ENDF: u8 = 0x2D;
const IDEF: u8 = 0x89;
const CALL: u8 = 0x2B;
const POP: u8 = 0x21;
const WS: u8 = 0x42;
const RS: u8 = 0x43;
const WCVTP: u8 = 0x44;
const MPPEM: u8 = 0x4B;
const SZPS: u8 = 0x16;
const MIAP0: u8 = 0x3E;
const SHPIX: u8 = 0x38;
const SVTCA_X: u8 = 0x01;
const MUL: u8 = 0x63;
const USER_OP: u8 = 0xA2;
const MD_ORIG: u8 = 0x4A;
const MD_CUR: u8 = 0x49;
const ADD: u8 = 0x60;

pub fn fonts() -> Vec<(String, Vec<u8>)> {
    // prep shared by both: ppem-dependent storage and cvt, a twilight point
    let prep = vec![
        PUSHB1, 2, MPPEM, WS, // storage[2] = ppem
        PUSHB2, 3, 77, WS, // storage[3] = 77
        PUSHB1, 1, MPPEM, PUSHB1, 64, MUL, WCVTP, // cvt[1] = ppem (26.6 * 64 / 64)
        PUSHB1, 0, SZPS, // twilight
        PUSHB2, 1, 0, MIAP0, // twilight point 1 := cvt[0]
        PUSHB1, 1, SZPS,
    ];
    // A: FDEF 0 (shift point 1) and IDEF 0xA2 (shift point 0 by storage[3]/… along x)
    let fpgm_a = vec![
        PUSHB1, 0, FDEF, SVTCA_X, PUSHB2, 1, 32, SHPIX, ENDF, //
        PUSHB1, USER_OP, IDEF, SVTCA_X, PUSHB2, 0, 64, SHPIX, PUSHB1, 5, POP, ENDF,
    ];
    // B: a differently laid out fpgm without IDEF: a stale definition would point into other code
    let fpgm_b = vec![
        PUSHB1, 0, FDEF, SVTCA_X, PUSHB2, 2, 48, SHPIX, PUSHB3, 1, 2, 3, POP, POP, POP, ENDF, //
        PUSHB1, 1, FDEF, PUSHB1, 2, RS, POP, ENDF,
    ];
    // reads the twilight zone's original and current positions (set up by prep) and shifts point 0 by their sum
    let twilight_reader = vec![SVTCA_X, PUSHB1, 0, PUSHB1, 0, SZPS, PUSHB2, 1, 0, MD_ORIG, PUSHB2, 1, 0, MD_CUR, ADD, PUSHB1, 1, SZPS, SHPIX];
    let progs_a = vec![vec![USER_OP], vec![PUSHB1, 0, CALL, USER_OP], vec![PUSHB2, 4, 9, WS, PUSHB2, 0, 128, WCVTP, USER_OP], twilight_reader.clone()];
    let progs_b = vec![vec![USER_OP], vec![PUSHB1, 0, CALL], vec![PUSHB1, 1, CALL, PUSHB2, 4, 9, WS, USER_OP], twilight_reader];
    let a = build(&Spec { fpgm: fpgm_a, prep: prep.clone(), glyph_programs: progs_a, cvt: vec![120, 0, 33, -7], max_storage: 6, max_twilight: 4, max_fdefs: 2, max_idefs: 1, extra: vec![] });
    let b = build(&Spec { fpgm: fpgm_b, prep, glyph_programs: progs_b, cvt: vec![90, 0, 12], max_storage: 8, max_twilight: 2, max_fdefs: 2, max_idefs: 1, extra: vec![] });
    // C: a variable font with cvar whose glyph programs read (large) control values along
    // both axes: stale cvt contents surviving a reconfigure would move points.
    const SVTCA_Y: u8 = 0x00;
    let fpgm_c = vec![PUSHB1, 0, FDEF, SVTCA_X, PUSHB2, 1, 32, SHPIX, ENDF];
    let prep_c = vec![PUSHB1, 2, MPPEM, WS];
    let progs_c = vec![
        vec![SVTCA_Y, PUSHB2, 0, 0, MIAP0],
        vec![SVTCA_X, PUSHB2, 1, 2, MIAP0, SVTCA_Y, PUSHB2, 2, 3, MIAP0],
        vec![SVTCA_Y, PUSHB2, 2, 4, MIAP0 | 1, SVTCA_X, PUSHB2, 0, 1, MIAP0 | 1],
    ];
    let c = build(&Spec {
        fpgm: fpgm_c,
        prep: prep_c,
        glyph_programs: progs_c,
        cvt: vec![700, 30000, -20000, 555, 12345],
        max_storage: 4,
        max_twilight: 2,
        max_fdefs: 1,
        max_idefs: 0,
        extra: fvar_cvar(&[40, -300, 500, 0, -7], 4),
    });
    vec![("synth-idef-a.ttf".to_string(), a), ("synth-idef-b.ttf".to_string(), b), ("synth-cvar.ttf".to_string(), c)]
}

/// Directed check for a variable font with cvar: a reused instance, whatever size and
/// location it was configured for before (including sizes far beyond the usual range,
/// which leave large scaled control values behind), must equal a fresh one in retained
/// state and in every drawing.
pub fn cvar_probe(ctx: &mut Ctx, fonts: &[Fnt]) {
    let Some(ci) = fonts.iter().position(|f| f.name == "synth-cvar.ttf") else {
        ctx.inconclusive("synthetic cvar font did not load");
        return;
    };
    let f = &fonts[ci];
    if f.axes != 1 {
        ctx.inconclusive("synthetic cvar font has no axis");
        return;
    }
    let others: Vec<usize> = fonts.iter().enumerate().filter(|(i, o)| *i != ci && o.name.starts_with("synth-")).map(|(i, _)| i).collect();
    let prev_sizes: [Option<f32>; 6] = [None, Some(9.0), Some(113.0), Some(700.0), Some(3000.0), Some(20000.0)];
    let locs: [i16; 5] = [0, 16384, -16384, 8192, 1];
    let mut cvar_effect_seen = false;
    for (pi, prev_size) in prev_sizes.iter().enumerate() {
        for (li, prev_loc) in locs.iter().enumerate() {
            // previous configuration: mostly the font itself, sometimes another synthetic font
            let pf = if (pi + li) % 4 == 3 && !others.is_empty() { &fonts[others[(pi + li) % others.len()]] } else { f };
            for size in [Some(8.0f32), Some(16.0), Some(200.0), None] {
                for loc in locs {
                    let t = (pi * 7 + li * 3) % N_TARGETS;
                    let what = format!("synth-cvar:prev={}:{:?}@{}->{:?}@{}:t{}", pf.name, prev_size, prev_loc, size, loc, t);
                    let r = ctx.run_case(&|| what.clone(), None, &|| {
                        let mut out: Vec<(String, Value)> = vec![];
                        let mut cmp = 0u64;
                        let sz = |s: &Option<f32>| s.map(Size::new).unwrap_or(Size::unscaled());
                        let pc: Vec<_> = if pf.axes == 1 { crate::ncoords(&[*prev_loc]) } else { vec![] };
                        let c = crate::ncoords(&[loc]);
                        let Ok(mut reused) = HintingInstance::new(&pf.outlines, sz(prev_size), LocationRef::new(&pc), pf.options(0, t)) else { return (out, cmp, false, true) };
                        for g in 0..pf.nglyphs {
                            if let Some(gl) = pf.outlines.get(GlyphId::new(g)) {
                                let _ = gl.draw(DrawSettings::hinted(&reused, false), &mut Rec::default());
                            }
                        }
                        if reused.reconfigure(&f.outlines, sz(&size), LocationRef::new(&c), f.options(0, t)).is_err() {
                            return (out, cmp, false, true);
                        }
                        let Ok(fresh) = HintingInstance::new(&f.outlines, sz(&size), LocationRef::new(&c), f.options(0, t)) else { return (out, cmp, false, true) };
                        let Ok(at_default) = HintingInstance::new(&f.outlines, sz(&size), LocationRef::default(), f.options(0, t)) else { return (out, cmp, false, true) };
                        // the workload must actually depend on cvar: away from the default the cvt differs
                        let effect = loc != 0 && fresh.verif_state() != at_default.verif_state();
                        cmp += 1;
                        if reused.verif_state() != fresh.verif_state() {
                            let (x, y) = (reused.verif_state().unwrap_or_default(), fresh.verif_state().unwrap_or_default());
                            let which: Vec<String> = x.lines().zip(y.lines()).filter(|(p, q)| p != q).map(|(p, _)| p.split('=').next().unwrap_or("").to_string()).collect();
                            out.push((format!("diff:d-reused-state:{}", what), json!({"differing_components": which})));
                        }
                        for g in 0..f.nglyphs {
                            let Some(gl) = f.outlines.get(GlyphId::new(g)) else { continue };
                            let mut p = vec![];
                            let o1 = draw_obs(&gl, &Sel::Hinted { inst: &fresh, pedantic: false }, None, &mut p);
                            let o2 = draw_obs(&gl, &Sel::Hinted { inst: &reused, pedantic: false }, None, &mut p);
                            cmp += 1;
                            if o1 != o2 {
                                out.push((format!("diff:d-reused-instance:{}:gid={}", what, g), describe_diff(&o1, &o2)));
                            }
                        }
                        (out, cmp, effect, false)
                    });
                    match r {
                        Ok((viol, cmp, effect, failed)) => {
                            ctx.evals(cmp);
                            ctx.count("synth_cvar_probe_comparisons", cmp);
                            if failed {
                                ctx.count("synth_cvar_probe_instance_failed", 1);
                            }
                            cvar_effect_seen |= effect;
                            for (s, d) in viol {
                                ctx.violation(&s, d, None);
                            }
                        }
                        Err(p) => ctx.judge_panic(&p, "synthetic cvar probe", json!({"case": what}), None),
                    }
                }
            }
        }
    }
    ctx.extra.insert("synth_cvar_font_cvt_depends_on_location".into(), json!(cvar_effect_seen));
    if !cvar_effect_seen {
        ctx.inconclusive("synthetic cvar font: the retained state never differed between the default and another location, so the cvar probe observed nothing");
    }
}

/// Directed check of reconfigure A -> B and B -> A on the synthetic fonts for every target and size.
pub fn idef_probe(ctx: &mut Ctx, fonts: &[Fnt]) {
    let (Some(a), Some(b)) = (fonts.iter().position(|f| f.name == "synth-idef-a.ttf"), fonts.iter().position(|f| f.name == "synth-idef-b.ttf")) else {
        ctx.inconclusive("synthetic IDEF fonts did not load");
        return;
    };
    let mut idef_active_seen = false;
    for t in 0..N_TARGETS {
        for size in SIZES {
            for (first, second) in [(a, b), (b, a)] {
                let (f1, f2) = (&fonts[first], &fonts[second]);
                let sz = size.map(Size::new).unwrap_or(Size::unscaled());
                let what = format!("synth-idef:{}->{}:t{}:size={:?}", f1.name, f2.name, t, size);
                let r = ctx.run_case(&|| what.clone(), None, &|| {
                    let mut out: Vec<(String, Value)> = vec![];
                    let mut cmp = 0u64;
                    let mut saw_idef = false;
                    let Ok(mut reused) = HintingInstance::new(&f1.outlines, sz, LocationRef::default(), f1.options(0, t)) else { return (out, cmp, saw_idef, true) };
                    if let Some(s) = reused.verif_state() {
                        if s.lines().any(|l| l.starts_with("instructions=") && l.contains("is_active: 1")) {
                            saw_idef = true;
                        }
                    }
                    // draw something through it first
                    for g in 0..f1.nglyphs {
                        if let Some(gl) = f1.outlines.get(GlyphId::new(g)) {
                            let _ = gl.draw(DrawSettings::hinted(&reused, false), &mut Rec::default());
                        }
                    }
                    if reused.reconfigure(&f2.outlines, sz, LocationRef::default(), f2.options(0, t)).is_err() {
                        return (out, cmp, saw_idef, true);
                    }
                    let Ok(fresh) = HintingInstance::new(&f2.outlines, sz, LocationRef::default(), f2.options(0, t)) else { return (out, cmp, saw_idef, true) };
                    cmp += 1;
                    if reused.verif_state() != fresh.verif_state() {
                        let (x, y) = (reused.verif_state().unwrap_or_default(), fresh.verif_state().unwrap_or_default());
                        let which: Vec<String> = x.lines().zip(y.lines()).filter(|(p, q)| p != q).map(|(p, _)| p.split('=').next().unwrap_or("").to_string()).collect();
                        out.push((format!("diff:d-reused-state:{}", what), json!({"differing_components": which})));
                    }
                    for pedantic in [false, true] {
                        for g in 0..f2.nglyphs {
                            let Some(gl) = f2.outlines.get(GlyphId::new(g)) else { continue };
                            let mut p = vec![];
                            let o1 = draw_obs(&gl, &Sel::Hinted { inst: &fresh, pedantic }, None, &mut p);
                            let o2 = draw_obs(&gl, &Sel::Hinted { inst: &reused, pedantic }, None, &mut p);
                            cmp += 1;
                            if o1 != o2 {
                                out.push((format!("diff:d-reused-instance:{}:gid={}", what, g), describe_diff(&o1, &o2)));
                            }
                        }
                    }
                    (out, cmp, saw_idef, false)
                });
                match r {
                    Ok((viol, cmp, saw, failed)) => {
                        ctx.evals(cmp);
                        ctx.count("synth_idef_probe_comparisons", cmp);
                        if failed {
                            ctx.count("synth_idef_probe_instance_failed", 1);
                        }
                        idef_active_seen |= saw;
                        for (s, d) in viol {
                            ctx.violation(&s, d, None);
                        }
                    }
                    Err(p) => ctx.judge_panic(&p, "synthetic IDEF probe", json!({"case": what}), None),
                }
            }
        }
    }
    ctx.extra.insert("synth_idef_font_defines_an_active_instruction_definition".into(), json!(idef_active_seen));
    if !idef_active_seen {
        ctx.inconclusive("synthetic font A did not end up with an active IDEF: the IDEF-retention probe observed nothing");
    }
}

