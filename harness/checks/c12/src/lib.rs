//! C12 — drawing is well-formed and independent of buffers, history and
//! threads. See /verif/DESIGN.md §3 "C12".
//!
//! For every (font, configuration) work item a baseline observation is taken
//! per glyph: "fresh hinting instance, serial, library-allocated memory" —
//! the exact f32 bit patterns of every pen command plus the returned
//! `AdjustedMetrics` (or the error). Every variation must reproduce it:
//!   a  repeat (same instance, and a second fresh instance)
//!   b  caller memory of the advertised size (+0..64), 8 start alignments,
//!      pre-filled 0x00 / 0xAA / random / left dirty from the previous glyph
//!   c  `LocationRef::default()` vs an explicit all-zero coordinate slice
//!   d  a hinting instance reused through `reconfigure` after a history of
//!      1..=6 other configurations (other fonts, formats, engines, targets,
//!      sizes, locations), incl. the hook comparison of the logical state
//!   e  different preceding draws (ascending / shuffled / none)
//!   f  16 threads drawing concurrently through one shared instance
//! and the stream grammar (TrueType outlines: `(M seg* Z)*`; all coordinates
//! finite) is checked on every successful baseline.
mod synth;

use serde_json::{json, Value};
use skrifa::instance::{LocationRef, NormalizedCoord, Size};
use skrifa::outline::pen::PathStyle;
use skrifa::outline::{
    AdjustedMetrics, DrawError, DrawSettings, Engine, GlyphStyles, Hinting, HintingInstance, HintingOptions, OutlineGlyph, OutlineGlyphCollection, OutlineGlyphFormat, OutlinePen,
    SmoothMode, Target,
};
use skrifa::raw::{FontRef, TableProvider};
use skrifa::{GlyphId, MetadataProvider};
use std::collections::BTreeMap;
use std::sync::atomic::{AtomicUsize, Ordering};
use std::sync::{Barrier, OnceLock};
use vf_core::{fnv64, guard, Args, Ctx, Digest, PanicInfo, PanicPolicy, Rng};

pub const REPLAY: Option<fn(&mut Ctx, &Args, &serde_json::Value, Option<&[u8]>)> = Some(replay);

const SIZES: [Option<f32>; 6] = [None, Some(8.0), Some(12.0), Some(16.0), Some(33.0), Some(113.0)];
const N_TARGETS: usize = 17;
const N_ENGINES: usize = 4;
const THREADS: usize = 16;

// ------------------------------------------------------------------ recording pen

const OP_MOVE: u32 = 0xFFF0_0001;
const OP_LINE: u32 = 0xFFF0_0002;
const OP_QUAD: u32 = 0xFFF0_0003;
const OP_CURVE: u32 = 0xFFF0_0004;
const OP_CLOSE: u32 = 0xFFF0_0005;

/// Commands as (opcode, argument count, f32 bit patterns ...).
#[derive(Default, Clone, PartialEq, Eq, Debug)]
struct Rec(Vec<u32>);

impl OutlinePen for Rec {
    fn move_to(&mut self, x: f32, y: f32) {
        self.0.extend_from_slice(&[OP_MOVE, x.to_bits(), y.to_bits()]);
    }
    fn line_to(&mut self, x: f32, y: f32) {
        self.0.extend_from_slice(&[OP_LINE, x.to_bits(), y.to_bits()]);
    }
    fn quad_to(&mut self, cx0: f32, cy0: f32, x: f32, y: f32) {
        self.0.extend_from_slice(&[OP_QUAD, cx0.to_bits(), cy0.to_bits(), x.to_bits(), y.to_bits()]);
    }
    fn curve_to(&mut self, cx0: f32, cy0: f32, cx1: f32, cy1: f32, x: f32, y: f32) {
        self.0.extend_from_slice(&[OP_CURVE, cx0.to_bits(), cy0.to_bits(), cx1.to_bits(), cy1.to_bits(), x.to_bits(), y.to_bits()]);
    }
    fn close(&mut self) {
        self.0.push(OP_CLOSE);
    }
}

fn op_len(op: u32) -> Option<usize> {
    match op {
        OP_MOVE | OP_LINE => Some(2),
        OP_QUAD => Some(4),
        OP_CURVE => Some(6),
        OP_CLOSE => Some(0),
        _ => None,
    }
}

/// Grammar of a successful stream. Returns (error, number of contours, number of commands).
fn grammar(cmds: &[u32], truetype: bool) -> (Option<String>, usize, usize) {
    let mut i = 0;
    let mut open = false;
    let mut contours = 0;
    let mut n = 0;
    while i < cmds.len() {
        let op = cmds[i];
        let Some(len) = op_len(op) else {
            return (Some(format!("harness: bad opcode at {}", i)), contours, n);
        };
        for k in 0..len {
            let v = f32::from_bits(cmds[i + 1 + k]);
            if !v.is_finite() {
                return (Some(format!("non-finite-coordinate:cmd={}", n)), contours, n);
            }
        }
        if truetype {
            match op {
                OP_MOVE => {
                    if open {
                        return (Some(format!("move-inside-open-contour:cmd={}", n)), contours, n);
                    }
                    open = true;
                }
                OP_CLOSE => {
                    if !open {
                        return (Some(format!("close-without-move:cmd={}", n)), contours, n);
                    }
                    open = false;
                    contours += 1;
                }
                _ => {
                    if !open {
                        return (Some(format!("segment-outside-contour:cmd={}", n)), contours, n);
                    }
                }
            }
        }
        i += 1 + len;
        n += 1;
    }
    if truetype && open {
        return (Some("contour-not-closed-at-end".into()), contours, n);
    }
    (None, contours, n)
}

/// What one draw call did.
#[derive(Clone, PartialEq, Eq, Debug)]
struct Obs {
    /// Ok(metrics bits) / Err(debug text of the DrawError) / Err("panic:..")
    res: Result<[u32; 5], String>,
    cmds: Vec<u32>,
}

fn metrics_bits(m: &AdjustedMetrics) -> [u32; 5] {
    [
        m.has_overlaps as u32,
        m.lsb.is_some() as u32,
        m.lsb.map(|v| v.to_bits()).unwrap_or(0),
        m.advance_width.is_some() as u32,
        m.advance_width.map(|v| v.to_bits()).unwrap_or(0),
    ]
}

fn describe_diff(a: &Obs, b: &Obs) -> Value {
    let first = a.cmds.iter().zip(b.cmds.iter()).position(|(x, y)| x != y);
    let show = |o: &Obs| match &o.res {
        Ok(m) => json!({"ok": true, "has_overlaps": m[0], "lsb": if m[1] == 1 { json!(f32::from_bits(m[2])) } else { Value::Null }, "advance": if m[3] == 1 { json!(f32::from_bits(m[4])) } else { Value::Null }, "words": o.cmds.len()}),
        Err(e) => json!({"ok": false, "err": e, "words": o.cmds.len()}),
    };
    let around = |o: &Obs, at: usize| -> Vec<String> { o.cmds.iter().skip(at.saturating_sub(2)).take(8).map(|w| if w >> 20 == 0xFFF { format!("op{}", w & 0xf) } else { format!("{}", f32::from_bits(*w)) }).collect() };
    let at = first.unwrap_or(a.cmds.len().min(b.cmds.len()));
    json!({"baseline": show(a), "variant": show(b), "first_differing_word": first, "baseline_at": around(a, at), "variant_at": around(b, at)})
}

// ------------------------------------------------------------------ configurations

#[derive(Clone, Debug, PartialEq)]
enum Mode {
    Unhinted { hb: bool },
    Hinted { engine: usize, target: usize, pedantic: bool },
}

#[derive(Clone, Debug, PartialEq)]
struct Config {
    size: Option<f32>,
    coords: Vec<i16>,
    mode: Mode,
}

impl Config {
    fn code(&self) -> String {
        let s = match self.size {
            None => "unscaled".to_string(),
            Some(v) => format!("{}", v),
        };
        let m = match &self.mode {
            Mode::Unhinted { hb } => format!("unhinted{}", if *hb { "-hb" } else { "" }),
            Mode::Hinted { engine, target, pedantic } => format!("hinted-e{}-t{}{}", engine, target, if *pedantic { "-ped" } else { "" }),
        };
        format!("size={};loc={:?};{}", s, self.coords, m)
    }
    fn size(&self) -> Size {
        match self.size {
            None => Size::unscaled(),
            Some(v) => Size::new(v),
        }
    }
}

fn target(i: usize) -> Target {
    if i % N_TARGETS == 0 {
        Target::Mono
    } else {
        let j = i % N_TARGETS - 1;
        Target::Smooth {
            mode: [SmoothMode::Normal, SmoothMode::Light, SmoothMode::Lcd, SmoothMode::VerticalLcd][j % 4],
            symmetric_rendering: (j / 4) % 2 == 0,
            preserve_linear_metrics: (j / 8) % 2 == 1,
        }
    }
}

struct Fnt<'a> {
    name: String,
    hash: u64,
    font: FontRef<'a>,
    outlines: OutlineGlyphCollection<'a>,
    axes: usize,
    nglyphs: u32,
    format: Option<OutlineGlyphFormat>,
    tt_programs: bool,
    styles: OnceLock<GlyphStyles>,
}

impl<'a> Fnt<'a> {
    fn styles(&self) -> GlyphStyles {
        self.styles.get_or_init(|| GlyphStyles::new(&self.outlines)).clone()
    }
    fn engine(&self, e: usize) -> Engine {
        match e % N_ENGINES {
            0 => Engine::Interpreter,
            // computing glyph styles inside the instance is costly for big fonts
            1 => {
                if self.nglyphs <= 600 {
                    Engine::Auto(None)
                } else {
                    Engine::Auto(Some(self.styles()))
                }
            }
            2 => Engine::AutoFallback,
            _ => Engine::Auto(Some(self.styles())),
        }
    }
    fn options(&self, engine: usize, target_ix: usize) -> HintingOptions {
        HintingOptions { engine: self.engine(engine), target: target(target_ix) }
    }
}

fn glyph_kind(f: &Fnt, gid: u32) -> &'static str {
    if f.format != Some(OutlineGlyphFormat::Glyf) {
        return "cff";
    }
    let (Ok(loca), Ok(glyf)) = (f.font.loca(None), f.font.glyf()) else { return "unknown" };
    match loca.get_glyf(GlyphId::new(gid), &glyf) {
        Ok(Some(skrifa::raw::tables::glyf::Glyph::Simple(_))) => "simple",
        Ok(Some(skrifa::raw::tables::glyf::Glyph::Composite(_))) => "composite",
        Ok(None) => "empty",
        Err(_) => "unreadable",
    }
}

fn ncoords(c: &[i16]) -> Vec<NormalizedCoord> {
    c.iter().map(|v| NormalizedCoord::from_bits(*v)).collect()
}

fn random_coords(rng: &mut Rng, axes: usize, style: usize) -> Vec<i16> {
    match style % 6 {
        0 => vec![],
        1 => (0..axes).map(|_| rng.range(-16384, 16384) as i16).collect(),
        2 => (0..axes).map(|_| 16384).collect(),
        3 => (0..axes).map(|_| -16384).collect(),
        4 => (0..axes).map(|_| if rng.bool() { rng.range(-16384, 16384) as i16 } else { 0 }).collect(),
        // shorter than the axis count
        _ => (0..axes.saturating_sub(1).max(1)).map(|_| rng.range(-16384, 16384) as i16).collect(),
    }
}

// ------------------------------------------------------------------ drawing under the monitors

enum Sel<'i> {
    Unhinted { size: Size, coords: &'i [NormalizedCoord], hb: bool },
    Hinted { inst: &'i HintingInstance, pedantic: bool },
}

fn draw_obs(glyph: &OutlineGlyph, sel: &Sel, mem: Option<&mut [u8]>, panics: &mut Vec<PanicInfo>) -> Obs {
    let mut rec = Rec::default();
    let r = guard(|| -> Result<AdjustedMetrics, DrawError> {
        let settings = match sel {
            Sel::Unhinted { size, coords, hb } => {
                let s = DrawSettings::unhinted(*size, LocationRef::new(coords));
                if *hb {
                    s.with_path_style(PathStyle::HarfBuzz)
                } else {
                    s
                }
            }
            Sel::Hinted { inst, pedantic } => DrawSettings::hinted(inst, *pedantic),
        };
        glyph.draw(settings.with_memory(mem), &mut rec)
    });
    match r {
        Ok(Ok(m)) => Obs { res: Ok(metrics_bits(&m)), cmds: rec.0 },
        Ok(Err(e)) => Obs { res: Err(format!("{:?}", e)), cmds: rec.0 },
        Err(p) => {
            let s = p.signature();
            if panics.len() < 8 {
                panics.push(p);
            }
            Obs { res: Err(s), cmds: rec.0 }
        }
    }
}

#[derive(Default)]
struct Report {
    counts: BTreeMap<String, u64>,
    labels: Vec<(String, String)>,
    distinct: Vec<(String, u64)>,
    violations: Vec<(String, Value)>,
    nontrivial: Vec<u64>,
    panics: Vec<(PanicInfo, String)>,
    samples: Vec<(String, Value)>,
    evals: u64,
    max_in_flight: usize,
}

impl Report {
    fn count(&mut self, k: &str, n: u64) {
        *self.counts.entry(k.to_string()).or_default() += n;
    }
    fn label(&mut self, k: &str, v: &str) {
        if !self.labels.iter().any(|(a, b)| a == k && b == v) {
            self.labels.push((k.to_string(), v.to_string()));
        }
    }
    fn violation(&mut self, sig: String, detail: Value) {
        if self.violations.len() < 12 && !self.violations.iter().any(|(s, _)| *s == sig) {
            self.violations.push((sig, detail));
        }
        self.count("mismatches_raw", 1);
    }
}

struct Item<'f, 'a> {
    fonts: &'f [Fnt<'a>],
    fi: usize,
    k: usize,
    cfg: Config,
    seed: u64,
    glyph_cap: usize,
    history_runs: usize,
    thread_run: bool,
    /// `--profile tsan`: only the baseline, one reused-instance history and the thread section (f) run
    threads_only: bool,
}

/// The hinting options + instance for a configuration; `None` when unhinted.
fn new_instance(f: &Fnt, cfg: &Config, coords: &[NormalizedCoord]) -> Option<Result<HintingInstance, String>> {
    match &cfg.mode {
        Mode::Unhinted { .. } => None,
        Mode::Hinted { engine, target, .. } => Some(HintingInstance::new(&f.outlines, cfg.size(), LocationRef::new(coords), f.options(*engine, *target)).map_err(|e| format!("{:?}", e))),
    }
}

fn inst_summary(i: &HintingInstance) -> String {
    format!("kind={} enabled={} size={:?} loc={:?} target={:?}", i.verif_kind(), i.is_enabled(), i.size().ppem().map(|v| v.to_bits()), i.location().coords(), i.target())
}

#[derive(Clone, Debug)]
struct Step {
    font: usize,
    size: Option<f32>,
    coords: Vec<i16>,
    engine: usize,
    target: usize,
    draws: Vec<u32>,
}

impl Step {
    fn code(&self, fonts: &[Fnt]) -> String {
        format!("{}:s{:?}:l{:?}:e{}:t{}:d{}", fonts[self.font].name, self.size, self.coords, self.engine, self.target, self.draws.len())
    }
}

fn gen_history(rng: &mut Rng, fonts: &[Fnt], own: usize) -> Vec<Step> {
    let n = 1 + rng.usize(6);
    let tt: Vec<usize> = fonts.iter().enumerate().filter(|(_, f)| f.tt_programs).map(|(i, _)| i).collect();
    let small: Vec<usize> = fonts.iter().enumerate().filter(|(_, f)| f.nglyphs <= 3000 && f.format.is_some()).map(|(i, _)| i).collect();
    (0..n)
        .map(|_| {
            let font = match rng.usize(10) {
                0..=2 => own,
                3..=6 if !tt.is_empty() => *rng.pick(&tt),
                _ if !small.is_empty() => *rng.pick(&small),
                _ => own,
            };
            let f = &fonts[font];
            let size = match rng.usize(5) {
                0 => None,
                1 => Some(rng.range(6, 200) as f32),
                2 => Some(rng.range(6 * 64, 60 * 64) as f32 / 64.0),
                _ => *rng.pick(&SIZES),
            };
            let style = if f.axes == 0 { 0 } else { rng.usize(6) };
            let coords = random_coords(rng, f.axes, style);
            // mostly the interpreter: that is the instance kind with retained state
            let engine = if rng.chance(3, 5) { 0 } else { rng.usize(N_ENGINES) };
            let engine = if engine % N_ENGINES == 1 && f.nglyphs > 600 { 3 } else { engine };
            let nd = rng.usize(4);
            let draws = (0..nd).map(|_| rng.u32() % f.nglyphs.max(1)).collect();
            Step { font, size, coords, engine, target: rng.usize(N_TARGETS), draws }
        })
        .collect()
}

/// Build an instance through a history, then reconfigure it for `cfg`.
fn reused_instance(fonts: &[Fnt], hist: &[Step], f: &Fnt, cfg: &Config, coords: &[NormalizedCoord], rep: &mut Report) -> Option<Result<HintingInstance, String>> {
    let Mode::Hinted { engine, target, .. } = &cfg.mode else { return None };
    let mut inst: Option<HintingInstance> = None;
    for st in hist {
        let hf = &fonts[st.font];
        let c = ncoords(&st.coords);
        let size = st.size.map(Size::new).unwrap_or(Size::unscaled());
        let opts = hf.options(st.engine, st.target);
        match inst.as_mut() {
            None => match HintingInstance::new(&hf.outlines, size, LocationRef::new(&c), opts) {
                Ok(i) => inst = Some(i),
                Err(_) => rep.count("history_step_failed", 1),
            },
            Some(i) => {
                if i.reconfigure(&hf.outlines, size, LocationRef::new(&c), opts).is_err() {
                    rep.count("history_step_failed", 1);
                }
            }
        }
        rep.count("history_steps", 1);
        if let Some(i) = inst.as_ref() {
            rep.label("history_kinds", &format!("{}:{:?}", i.verif_kind(), hf.format));
            for g in &st.draws {
                if let Some(glyph) = hf.outlines.get(GlyphId::new(*g)) {
                    let mut rec = Rec::default();
                    let _ = glyph.draw(DrawSettings::hinted(i, false), &mut rec);
                    rep.count("history_draws", 1);
                }
            }
        }
    }
    let opts = f.options(*engine, *target);
    Some(match inst {
        None => HintingInstance::new(&f.outlines, cfg.size(), LocationRef::new(coords), opts).map_err(|e| format!("{:?}", e)),
        Some(mut i) => i.reconfigure(&f.outlines, cfg.size(), LocationRef::new(coords), opts).map(|_| i).map_err(|e| format!("{:?}", e)),
    })
}

fn eval_item(it: &Item) -> Report {
    let mut rep = Report::default();
    let f = &it.fonts[it.fi];
    let cfg = &it.cfg;
    let mut rng = Rng::derive(it.seed, "c12-item", (it.fi * 100_003 + it.k) as u64);
    let coords = ncoords(&cfg.coords);
    let code = cfg.code();
    let ident = |gid: u32| format!("{}:gid={}:{}", f.name, gid, code);
    let mut panics: Vec<PanicInfo> = vec![];

    // ---- glyph sample
    let mut gids: Vec<u32> = if (f.nglyphs as usize) <= it.glyph_cap {
        (0..f.nglyphs).collect()
    } else {
        let mut v: Vec<u32> = (0..4.min(f.nglyphs)).collect();
        while v.len() < it.glyph_cap {
            let g = rng.u32() % f.nglyphs;
            if !v.contains(&g) {
                v.push(g);
            }
        }
        v.sort_unstable();
        v
    };
    gids.retain(|g| f.outlines.get(GlyphId::new(*g)).is_some());
    let glyphs: Vec<(u32, OutlineGlyph)> = gids.iter().map(|g| (*g, f.outlines.get(GlyphId::new(*g)).unwrap())).collect();
    if glyphs.is_empty() {
        rep.count("items_without_glyphs", 1);
        return rep;
    }
    let hinted = matches!(cfg.mode, Mode::Hinted { .. });
    let pedantic = matches!(cfg.mode, Mode::Hinted { pedantic: true, .. });
    let hb = matches!(cfg.mode, Mode::Unhinted { hb: true });
    let hinting = if hinted { Hinting::Embedded } else { Hinting::None };
    let truetype = f.format == Some(OutlineGlyphFormat::Glyf);

    // ---- baseline: fresh instance, serial, library memory, ascending order
    let i0 = match new_instance(f, cfg, &coords) {
        None => None,
        Some(Ok(i)) => Some(i),
        Some(Err(e)) => {
            // the configuration cannot be instantiated: every other way to get there must fail alike
            rep.count("instance_new_failed", 1);
            rep.label("instance_errors", &e.chars().take(60).collect::<String>());
            let hist = gen_history(&mut rng, it.fonts, it.fi);
            if let Some(r) = reused_instance(it.fonts, &hist, f, cfg, &coords, &mut rep) {
                rep.evals += 1;
                rep.count("cmp:d-reconfigure-result", 1);
                match r {
                    Err(e2) if e2 == e => {}
                    other => rep.violation(
                        format!("diff:d-reconfigure-result:{}:{}", f.name, code),
                        json!({"fresh": e, "reused": other.as_ref().map(|i| inst_summary(i)).map_err(|e| e.clone()), "history": hist.iter().map(|s| s.code(it.fonts)).collect::<Vec<_>>()}),
                    ),
                }
            }
            return rep;
        }
    };
    let sel0 = match &i0 {
        Some(i) => Sel::Hinted { inst: i, pedantic },
        None => Sel::Unhinted { size: cfg.size(), coords: &coords, hb },
    };
    let state0 = i0.as_ref().map(|i| (i.verif_state(), inst_summary(i)));
    if let Some(i) = &i0 {
        rep.label("hinting_kinds_reached", &format!("{}:{}:{:?}", i.verif_kind(), if i.is_enabled() { "enabled" } else { "disabled" }, f.format));
        if let Mode::Hinted { engine, target, .. } = &cfg.mode {
            rep.label("engines_targets", &format!("e{}:t{}", engine, target));
        }
    } else {
        rep.label("hinting_kinds_reached", &format!("unhinted{}:{:?}", if hb { "-harfbuzz" } else { "" }, f.format));
    }
    let base: Vec<Obs> = glyphs.iter().map(|(_, g)| draw_obs(g, &sel0, None, &mut panics)).collect();
    let mut any_ok_nonempty = false;
    for ((gid, _), b) in glyphs.iter().zip(&base) {
        rep.evals += 1;
        match &b.res {
            Ok(_) => {
                rep.count("baseline_ok", 1);
                let (err, contours, ncmd) = grammar(&b.cmds, truetype);
                rep.count("contours_checked", contours as u64);
                rep.count("commands_checked", ncmd as u64);
                if let Some(e) = err {
                    if e.starts_with("harness") {
                        rep.count("harness_grammar_problem", 1);
                    } else {
                        rep.violation(format!("malformed-stream:{}:{}", e.split(':').next().unwrap_or(""), ident(*gid)), json!({"problem": e, "words": b.cmds.len()}));
                    }
                }
                if !b.cmds.is_empty() {
                    any_ok_nonempty = true;
                }
            }
            Err(e) => {
                rep.count("baseline_err", 1);
                rep.label("draw_errors", &e.chars().take(48).collect::<String>());
            }
        }
    }
    let compare = |rep: &mut Report, kind: &str, gi: usize, got: &Obs, extra: Value| {
        rep.evals += 1;
        rep.count(&format!("cmp:{}", kind), 1);
        if *got != base[gi] {
            let mut d = describe_diff(&base[gi], got);
            d["variant_info"] = extra;
            d["item"] = json!({"font": f.name, "k": it.k, "config": code});
            rep.violation(format!("diff:{}:{}", kind, ident(glyphs[gi].0)), d);
        }
    };

    // ---- (a) repeat through the same instance
    if !it.threads_only {
        for (gi, (_, g)) in glyphs.iter().enumerate() {
            let o = draw_obs(g, &sel0, None, &mut panics);
            compare(&mut rep, "a-repeat", gi, &o, Value::Null);
        }
    }

    // ---- (e) other preceding draws: second fresh instance, shuffled order; per-glyph fresh instance
    if !it.threads_only {
        let i1 = new_instance(f, cfg, &coords).and_then(|r| r.ok());
        let sel1 = match &i1 {
            Some(i) => Sel::Hinted { inst: i, pedantic },
            None => Sel::Unhinted { size: cfg.size(), coords: &coords, hb },
        };
        if let (Some(i), Some((s0, sum0))) = (&i1, &state0) {
            rep.evals += 1;
            rep.count("cmp:a-second-fresh-instance-state", 1);
            if i.verif_state() != *s0 || inst_summary(i) != *sum0 {
                rep.violation(format!("diff:a-second-fresh-instance-state:{}:{}", f.name, code), json!({"first": sum0, "second": inst_summary(i)}));
            }
        }
        let mut order: Vec<usize> = (0..glyphs.len()).collect();
        rng.shuffle(&mut order);
        for gi in order {
            let o = draw_obs(&glyphs[gi].1, &sel1, None, &mut panics);
            compare(&mut rep, "e-shuffled-order", gi, &o, Value::Null);
        }
        if hinted {
            for _ in 0..3.min(glyphs.len()) {
                let gi = rng.usize(glyphs.len());
                if let Some(Ok(i)) = new_instance(f, cfg, &coords) {
                    let o = draw_obs(&glyphs[gi].1, &Sel::Hinted { inst: &i, pedantic }, None, &mut panics);
                    compare(&mut rep, "e-no-preceding-draw", gi, &o, Value::Null);
                }
            }
        }
    }

    // ---- (b) caller memory
    if !it.threads_only {
        let max_need = glyphs.iter().map(|(_, g)| g.draw_memory_size(hinting)).max().unwrap_or(0);
        let mut big = vec![0x5Au8; max_need + 64 + 16];
        for (gi, (gid, g)) in glyphs.iter().enumerate() {
            let need = g.draw_memory_size(hinting);
            if need > 0 {
                rep.count("glyphs_needing_memory", 1);
            }
            for v in 0..4usize {
                let align = (gi + v * 3 + it.k) % 8;
                let extra = match v {
                    0 => 0,
                    1 => 1 + rng.usize(64),
                    2 => 0,
                    _ => [1usize, 2, 3, 4, 7, 8, 63, 64][(gi + it.k) % 8],
                };
                let fill = (gi + v + it.k) % 4;
                let basep = big.as_ptr() as usize;
                let off = (align + 8 - basep % 8) % 8;
                let slice = &mut big[off..off + need + extra];
                match fill {
                    0 => slice.fill(0),
                    1 => slice.fill(0xAA),
                    2 => {
                        let r = rng.bytes(slice.len());
                        slice.copy_from_slice(&r);
                    }
                    _ => {} // dirty from the previous glyph
                }
                let o = draw_obs(g, &sel0, Some(slice), &mut panics);
                rep.count(&format!("mem:align{}", align), 1);
                rep.count(["mem:fill-zero", "mem:fill-aa", "mem:fill-random", "mem:dirty-reuse"][fill], 1);
                rep.count(if extra == 0 { "mem:exact-size" } else { "mem:oversize" }, 1);
                rep.evals += 1;
                rep.count("cmp:b-caller-memory", 1);
                if o != base[gi] {
                    // one signature per (font, glyph kind, mode, location class): the glyph id, size and buffer are in the detail
                    let kind = glyph_kind(f, *gid);
                    let mode_code = code.rsplit(';').next().unwrap_or("");
                    let loc = if cfg.coords.iter().all(|c| *c == 0) { "default-location" } else { "non-default-location" };
                    let mut d = describe_diff(&base[gi], &o);
                    d["variant_info"] = json!({"advertised": need, "extra": extra, "start_alignment_mod8": align, "prefill": (["zero", "0xAA", "random", "dirty"][fill])});
                    d["item"] = json!({"font": f.name, "k": it.k, "config": code, "gid": gid});
                    rep.violation(format!("diff:b-caller-memory:{}:{}-glyph:{}:{}", f.name, kind, mode_code, loc), d);
                }
            }
        }
    }

    // ---- (c) no location vs explicit all-zero location
    if !it.threads_only && cfg.coords.iter().all(|c| *c == 0) {
        let zlen = if f.axes == 0 { 1 + it.k % 2 } else { f.axes + (it.k % 3 == 2) as usize };
        let zeros = vec![NormalizedCoord::ZERO; zlen];
        let none: [NormalizedCoord; 0] = [];
        for (which, cs) in [("explicit-zeros", &zeros[..]), ("empty", &none[..])] {
            let iz = match &cfg.mode {
                Mode::Unhinted { .. } => None,
                Mode::Hinted { engine, target, .. } => match HintingInstance::new(&f.outlines, cfg.size(), LocationRef::new(cs), f.options(*engine, *target)) {
                    Ok(i) => Some(i),
                    Err(e) => {
                        rep.violation(format!("diff:c-zero-location-instance:{}:{}", f.name, code), json!({"location": which, "error": format!("{:?}", e)}));
                        continue;
                    }
                },
            };
            if let (Some(i), Some((s0, sum0))) = (&iz, &state0) {
                rep.evals += 1;
                rep.count("cmp:c-zero-location-state", 1);
                // (the reported location()/size() of the instance are not part of the property: only the hinting state is)
                if i.verif_state() != *s0 || i.verif_kind() != i0.as_ref().map(|x| x.verif_kind()).unwrap_or("") || i.is_enabled() != i0.as_ref().map(|x| x.is_enabled()).unwrap_or(false) {
                    rep.violation(format!("diff:c-zero-location-state:{}:{}", f.name, code), json!({"location": which, "default": sum0, "zeros": inst_summary(i)}));
                }
            }
            let selz = match &iz {
                Some(i) => Sel::Hinted { inst: i, pedantic },
                None => Sel::Unhinted { size: cfg.size(), coords: cs, hb },
            };
            for (gi, (_, g)) in glyphs.iter().enumerate() {
                let o = draw_obs(g, &selz, None, &mut panics);
                compare(&mut rep, "c-zero-location", gi, &o, json!({"location": which, "len": cs.len()}));
            }
        }
    }

    // ---- (d) reused instance after a history
    let mut reused_for_threads: Option<HintingInstance> = None;
    if hinted {
        for h in 0..it.history_runs {
            let hist = gen_history(&mut rng, it.fonts, it.fi);
            let hist_codes: Vec<String> = hist.iter().map(|s| s.code(it.fonts)).collect();
            let mut hd = Digest::new();
            for c in &hist_codes {
                hd.str(c);
            }
            rep.distinct.push(("reconfigure_histories".into(), hd.finish()));
            rep.count(&format!("history_len:{}", hist.len()), 1);
            let Some(r) = reused_instance(it.fonts, &hist, f, cfg, &coords, &mut rep) else { continue };
            let last = hist_codes.last().cloned().unwrap_or_default();
            match r {
                Err(e) => {
                    rep.violation(format!("diff:d-reconfigure-result:{}:{}", f.name, code), json!({"fresh": "Ok", "reused": e, "history": hist_codes}));
                }
                Ok(ri) => {
                    if let Some((s0, sum0)) = &state0 {
                        rep.evals += 1;
                        rep.count("cmp:d-reused-state", 1);
                        let s = ri.verif_state();
                        if s != *s0 || inst_summary(&ri) != *sum0 {
                            let which = match (&s, s0) {
                                (Some(a), Some(b)) => a.lines().zip(b.lines()).filter(|(x, y)| x != y).map(|(x, _)| x.split('=').next().unwrap_or("").to_string()).collect::<Vec<_>>(),
                                _ => vec!["kind".to_string()],
                            };
                            rep.violation(
                                format!("diff:d-reused-state:{}:{}:after={}", f.name, code, last),
                                json!({"fresh": sum0, "reused": inst_summary(&ri), "differing_components": which, "history": hist_codes, "item": {"font": f.name, "k": it.k}}),
                            );
                        }
                    }
                    let mut order: Vec<usize> = (0..glyphs.len()).collect();
                    rng.shuffle(&mut order);
                    for gi in order {
                        let o = draw_obs(&glyphs[gi].1, &Sel::Hinted { inst: &ri, pedantic }, None, &mut panics);
                        compare(&mut rep, "d-reused-instance", gi, &o, json!({"history": hist_codes}));
                    }
                    if h == 0 {
                        reused_for_threads = Some(ri);
                    }
                }
            }
        }
    }

    // ---- (f) threads through one shared instance
    if it.thread_run {
        // a never-drawn-with fresh instance (lazy initialisation races) or the reused one
        let fresh_t = if it.k % 2 == 0 { new_instance(f, cfg, &coords).and_then(|r| r.ok()) } else { None };
        let shared: Option<&HintingInstance> = if hinted { fresh_t.as_ref().or(reused_for_threads.as_ref()).or(i0.as_ref()) } else { None };
        let in_flight = AtomicUsize::new(0);
        let max_seen = AtomicUsize::new(0);
        let barrier = Barrier::new(THREADS);
        let seed = rng.u64();
        let results: Vec<(Vec<(usize, Obs, usize)>, Vec<PanicInfo>)> = std::thread::scope(|s| {
            let handles: Vec<_> = (0..THREADS)
                .map(|t| {
                    let glyphs = &glyphs;
                    let coords = &coords;
                    let (in_flight, max_seen, barrier) = (&in_flight, &max_seen, &barrier);
                    let size = cfg.size();
                    s.spawn(move || {
                        let mut rng = Rng::derive(seed, "c12-thread", t as u64);
                        let mut order: Vec<usize> = vec![];
                        for _ in 0..3 {
                            let mut o: Vec<usize> = (0..glyphs.len()).collect();
                            rng.shuffle(&mut o);
                            order.extend(o);
                        }
                        let mut out = Vec::with_capacity(order.len());
                        let mut panics = vec![];
                        let sel = match shared {
                            Some(i) => Sel::Hinted { inst: i, pedantic },
                            None => Sel::Unhinted { size, coords, hb },
                        };
                        let mut mem = vec![0u8; 0];
                        barrier.wait();
                        for gi in order {
                            for _ in 0..rng.usize(3) {
                                std::thread::yield_now();
                            }
                            let g = &glyphs[gi].1;
                            let own_mem = t % 4 == 3;
                            let n = in_flight.fetch_add(1, Ordering::SeqCst) + 1;
                            max_seen.fetch_max(n, Ordering::SeqCst);
                            let o = if own_mem {
                                let need = g.draw_memory_size(hinting);
                                if mem.len() < need + 8 {
                                    mem.resize(need + 8, 0);
                                }
                                // content dependence is (b)'s business: same content as library memory here
                                mem.fill(0);
                                let off = t % 8;
                                draw_obs(g, &sel, Some(&mut mem[off..off + need]), &mut panics)
                            } else {
                                draw_obs(g, &sel, None, &mut panics)
                            };
                            in_flight.fetch_sub(1, Ordering::SeqCst);
                            out.push((gi, o, t));
                        }
                        (out, panics)
                    })
                })
                .collect();
            handles.into_iter().filter_map(|h| h.join().ok()).collect()
        });
        rep.count("thread_runs", 1);
        if results.len() != THREADS {
            rep.count("harness_thread_join_failed", 1);
        }
        rep.max_in_flight = max_seen.load(Ordering::SeqCst);
        for (outs, ps) in results {
            for p in ps {
                if panics.len() < 8 {
                    panics.push(p);
                }
            }
            for (gi, o, t) in outs {
                rep.count("thread_draws", 1);
                compare(&mut rep, "f-concurrent", gi, &o, json!({"thread": t, "threads": THREADS}));
            }
        }
    }

    // ---- the shared instance must be logically unchanged by everything drawn through it
    if let (Some(i), Some((s0, sum0))) = (&i0, &state0) {
        rep.evals += 1;
        rep.count("cmp:instance-state-after-draws", 1);
        if i.verif_state() != *s0 || inst_summary(i) != *sum0 {
            rep.violation(format!("diff:instance-state-changed-by-draws:{}:{}", f.name, code), json!({"before": sum0, "after": inst_summary(i)}));
        }
    }

    // ---- evidence
    if any_ok_nonempty {
        for ((gid, _), b) in glyphs.iter().zip(&base) {
            if b.res.is_ok() && !b.cmds.is_empty() {
                let mut d = Digest::new();
                d.u64(f.hash);
                d.u32(*gid);
                d.str(&code);
                rep.nontrivial.push(d.finish());
            }
        }
    }
    rep.label("fonts", &f.name);
    rep.distinct.push(("fonts_x_glyphs".into(), {
        let mut d = Digest::new();
        d.u64(f.hash);
        d.u64(glyphs.len() as u64);
        d.u64(it.k as u64);
        d.finish()
    }));
    rep.count("glyphs_baselined", glyphs.len() as u64);
    if rep.samples.is_empty() {
        if let Some(((gid, _), b)) = glyphs.iter().zip(&base).find(|(_, b)| b.res.is_ok() && b.cmds.len() > 8) {
            rep.samples.push((
                format!("{:?}:{}", f.format, if hinted { "hinted" } else { "unhinted" }),
                json!({"font": f.name, "gid": gid, "config": code, "stream_words": b.cmds.len(), "metrics_bits": b.res.as_ref().ok(), "variants_compared": rep.evals}),
            ));
        }
    }
    for p in panics {
        rep.panics.push((p, ident(0)));
    }
    rep
}

fn apply(ctx: &mut Ctx, rep: Report) {
    ctx.evals(rep.evals);
    for (k, n) in &rep.counts {
        ctx.count(k, *n);
    }
    for (k, v) in &rep.labels {
        ctx.label(k, v);
    }
    for (k, d) in &rep.distinct {
        ctx.distinct(k, *d);
    }
    for d in &rep.nontrivial {
        ctx.nontrivial(*d);
    }
    for (k, v) in rep.samples {
        ctx.sample_by_kind(&k, v);
    }
    for (sig, detail) in rep.violations {
        ctx.violation(&sig, detail, None);
    }
    for (p, what) in rep.panics {
        ctx.judge_panic(&p, "OutlineGlyph::draw", json!({"case": what}), None);
    }
    if rep.max_in_flight > 0 {
        ctx.count(&format!("threads:max_draws_in_flight>={}", if rep.max_in_flight >= 8 { 8 } else if rep.max_in_flight >= 2 { 2 } else { 1 }), 1);
    }
}

/// The k-th configuration of a font (deterministic; covers sizes, locations, modes cyclically).
fn config_for(f: &Fnt, k: usize, seed: u64) -> Config {
    let mut rng = Rng::derive(seed, "c12-config", f.hash ^ k as u64);
    let size = SIZES[(k + k / 12) % SIZES.len()];
    let loc_style = if f.axes == 0 { 0 } else { (k / SIZES.len() + k / 2) % 6 };
    let coords = random_coords(&mut rng, f.axes, loc_style);
    // 1/6 unhinted FreeType, 1/12 unhinted HarfBuzz, rest hinted
    let mode = match k % 12 {
        1 | 7 => Mode::Unhinted { hb: false },
        4 => Mode::Unhinted { hb: true },
        _ => {
            let j = k / 2 + k / 12;
            Mode::Hinted { engine: [0, 0, 1, 0, 2, 3][j % 6], target: (k * 5 + k / 17) % N_TARGETS, pedantic: k % 5 == 3 }
        }
    };
    Config { size, coords, mode }
}

fn load_fonts<'a>(corpus: &'a [vf_core::CorpusFont], synth: &'a [(String, Vec<u8>)]) -> Vec<Fnt<'a>> {
    let mut v = vec![];
    let mut push = |name: String, data: &'a [u8]| {
        for index in 0..4u32 {
            let Ok(font) = FontRef::from_index(data, index) else { break };
            let outlines = font.outline_glyphs();
            let Some(format) = outlines.format() else { break };
            let nglyphs = font.maxp().map(|m| m.num_glyphs() as u32).unwrap_or(0);
            if nglyphs == 0 {
                break;
            }
            let axes = font.axes().len();
            let tt_programs = format == OutlineGlyphFormat::Glyf && (font.data_for_tag(skrifa::raw::types::Tag::new(b"fpgm")).is_some() || font.data_for_tag(skrifa::raw::types::Tag::new(b"prep")).is_some());
            v.push(Fnt {
                name: if index == 0 { name.clone() } else { format!("{}#{}", name, index) },
                hash: fnv64(data) ^ index as u64,
                font,
                outlines,
                axes,
                nglyphs,
                format: Some(format),
                tt_programs,
                styles: OnceLock::new(),
            });
            if !name.ends_with(".ttc") {
                break;
            }
        }
    };
    for c in corpus {
        push(c.name.clone(), &c.data[..]);
    }
    for (n, d) in synth {
        push(n.clone(), &d[..]);
    }
    v
}

fn item_params(ctx: &Ctx, k: usize) -> (usize, usize, bool) {
    if ctx.profile == "tsan" {
        // ThreadSanitizer build (5-15x slower): few glyphs, one history (its reused instance is the one the threads share
        // for odd k), always the thread section
        return (ctx.tier.pick(6, 10), 1, true);
    }
    let glyph_cap = ctx.tier.pick(40, 96);
    let history_runs = ctx.tier.pick(2, 4);
    let thread_run = ctx.tier.pick(k % 3 == 0, k % 2 == 0);
    (glyph_cap, history_runs, thread_run)
}

fn run_item(ctx: &mut Ctx, fonts: &[Fnt], fi: usize, k: usize) {
    let cfg = config_for(&fonts[fi], k, ctx.seed);
    let (glyph_cap, history_runs, thread_run) = item_params(ctx, k);
    let it = Item { fonts, fi, k, cfg, seed: ctx.seed, glyph_cap, history_runs, thread_run, threads_only: ctx.profile == "tsan" };
    let label = || format!("{} k={} {}", fonts[fi].name, k, it.cfg.code());
    // (under ThreadSanitizer the cpu-time bound of `run_case` does not apply: the slow-down is the instrumentation's)
    let r = if it.threads_only { guard(|| eval_item(&it)) } else { ctx.run_case(&label, Some(fonts[fi].font.table_directory.offset_data().as_bytes()), &|| eval_item(&it)) };
    match r {
        Ok(rep) => apply(ctx, rep),
        Err(p) => {
            // a panic outside the per-draw guards: instance construction, reconfigure, memory sizing
            let detail = json!({"font": fonts[fi].name, "k": k, "config": it.cfg.code()});
            ctx.judge_panic(&p, "HintingInstance::new / reconfigure / draw_memory_size", detail, None);
        }
    }
}

// ------------------------------------------------------------------ Miri slice

/// The slice run under Miri (extra stage "miri" of stages.json). skrifa carves typed
/// slices (`Point<F26Dot6>`, `Point<i32>`, `i32`, `u16`, `PointFlags`) out of the caller's
/// `&mut [u8]` (outline/glyf/memory.rs: integer align-up + `bytemuck::try_cast_slice_mut`).
/// A handful of glyphs of tiny TrueType fonts is drawn unhinted (FreeType and HarfBuzz
/// path styles, default and non-default location) and interpreter-hinted (programs with
/// stack, cvt, storage and twilight use) with library memory, then with caller buffers at
/// 8 start alignments and sizes advertised..=advertised+8 with different pre-fills; every
/// observation must equal the library-memory one. What Miri adds to the value oracle:
/// misaligned or out-of-bounds typed accesses, reads of uninitialised bytes, aliasing
/// violations between the carved slices.
fn miri_slice(ctx: &mut Ctx, _args: &Args) {
    ctx.assumptions.push(
        "Miri slice: alignment is checked on the concrete addresses (8 start residues x 9 sizes per glyph and mode), not with -Zmiri-symbolic-alignment-check: \
         the library aligns inside a byte buffer by integer arithmetic (its own temporary memory is a `[u8; N]` on the stack), which the symbolic check rejects by design"
            .into(),
    );
    let dir = format!("{}/font-test-data/test_data/ttf", vf_core::repo_dir());
    let mut datas: Vec<(String, Vec<u8>)> = synth::fonts();
    for name in ["vazirmatn_var_trimmed.ttf", "glyf_components.ttf", "cvar.ttf"] {
        match std::fs::read(format!("{}/{}", dir, name)) {
            Ok(d) => datas.push((name.to_string(), d)),
            Err(e) => ctx.inconclusive(format!("cannot read {}: {}", name, e)),
        }
    }
    let fonts = load_fonts(&[], &datas);
    ctx.extra.insert("miri_fonts".into(), json!(fonts.iter().map(|f| f.name.clone()).collect::<Vec<_>>()));
    let thorough = ctx.tier.is_thorough();
    // (font, glyph ids, configurations)
    let hinted = |size: f32, target: usize, pedantic: bool| Config { size: Some(size), coords: vec![], mode: Mode::Hinted { engine: 0, target, pedantic } };
    let unh = |size: Option<f32>, coords: Vec<i16>, hb: bool| Config { size, coords, mode: Mode::Unhinted { hb } };
    let mut plan: Vec<(&str, Vec<u32>, Vec<Config>)> = vec![
        ("synth-idef-a.ttf", if thorough { vec![1, 2, 3, 4] } else { vec![2, 4] }, vec![hinted(16.0, 1, false), unh(Some(12.0), vec![], false)]),
        ("vazirmatn_var_trimmed.ttf", if thorough { vec![1, 2, 3] } else { vec![2] }, vec![unh(Some(16.0), vec![8192], false), unh(None, vec![-16384], true)]),
        ("glyf_components.ttf", if thorough { vec![2, 4, 6, 8] } else { vec![3] }, vec![unh(Some(33.0), vec![], false)]),
    ];
    if thorough {
        plan.push(("synth-idef-b.ttf", vec![1, 2, 3, 4], vec![hinted(12.0, 0, true), hinted(113.0, 9, false)]));
        plan.push(("cvar.ttf", vec![0], vec![hinted(16.0, 1, false), unh(Some(8.0), vec![16384], false)]));
        plan.push(("vazirmatn_var_trimmed.ttf", vec![1], vec![hinted(12.0, 1, false), unh(Some(113.0), vec![3000], true)]));
    }
    let mut rng = Rng::derive(ctx.seed, "c12-miri", 0);
    for (name, gids, cfgs) in plan {
        let Some(f) = fonts.iter().find(|f| f.name == name) else {
            ctx.inconclusive(format!("font {} did not load", name));
            continue;
        };
        for cfg in cfgs {
            let t0 = ctx.elapsed_s();
            let code = cfg.code();
            let coords = ncoords(&cfg.coords);
            let is_hinted = matches!(cfg.mode, Mode::Hinted { .. });
            let pedantic = matches!(cfg.mode, Mode::Hinted { pedantic: true, .. });
            let hb = matches!(cfg.mode, Mode::Unhinted { hb: true });
            let hinting = if is_hinted { Hinting::Embedded } else { Hinting::None };
            let inst = match guard(|| new_instance(f, &cfg, &coords)) {
                Ok(None) => None,
                Ok(Some(Ok(i))) => Some(i),
                Ok(Some(Err(e))) => {
                    ctx.count("instance_new_failed", 1);
                    ctx.label("instance_errors", &e.chars().take(60).collect::<String>());
                    continue;
                }
                Err(p) => {
                    ctx.judge_panic(&p, "HintingInstance::new", json!({"font": f.name, "config": code}), None);
                    continue;
                }
            };
            if let Some(i) = &inst {
                // the hook must be compiled in (cfg googlefonts_fontations_verif reaches the Miri build)
                ctx.label("hinting_kinds_reached", &format!("{}:{}:state_hook={}", i.verif_kind(), if i.is_enabled() { "enabled" } else { "disabled" }, i.verif_state().is_some()));
            } else {
                ctx.label("hinting_kinds_reached", &format!("unhinted{}", if hb { "-harfbuzz" } else { "" }));
            }
            let sel = match &inst {
                Some(i) => Sel::Hinted { inst: i, pedantic },
                None => Sel::Unhinted { size: cfg.size(), coords: &coords, hb },
            };
            for gid in &gids {
                let Some(g) = f.outlines.get(GlyphId::new(*gid)) else { continue };
                let mut panics: Vec<PanicInfo> = vec![];
                let base = draw_obs(&g, &sel, None, &mut panics);
                ctx.eval();
                ctx.count(if base.res.is_ok() { "baseline_ok" } else { "baseline_err" }, 1);
                if let Err(e) = &base.res {
                    ctx.label("draw_errors", &e.chars().take(48).collect::<String>());
                }
                if base.res.is_ok() {
                    let (err, contours, ncmd) = grammar(&base.cmds, true);
                    ctx.count("contours_checked", contours as u64);
                    ctx.count("commands_checked", ncmd as u64);
                    if let Some(e) = err {
                        ctx.violation(&format!("malformed-stream:{}:{}:gid={}:{}", e.split(':').next().unwrap_or(""), f.name, gid, code), json!({"problem": e}), None);
                    }
                }
                let need = g.draw_memory_size(hinting);
                ctx.count(if need > 0 { "glyphs_needing_memory" } else { "glyphs_needing_no_memory" }, 1);
                // backing store with spare room; `u8` elements: the allocation promises no alignment
                let mut big = vec![0x5Au8; need + 8 + 8 + 8];
                let mut variants = 0u64;
                for align in 0..8usize {
                    for extra in 0..=8usize {
                        // quick: both ends of the size range and one size depending on the alignment
                        if !thorough && !(extra == 0 || extra == 8 || extra == 1 + align % 7) {
                            continue;
                        }
                        let fill = (align + extra) % 4;
                        let basep = big.as_ptr() as usize;
                        let off = (align + 8 - basep % 8) % 8;
                        let slice = &mut big[off..off + need + extra];
                        match fill {
                            0 => slice.fill(0),
                            1 => slice.fill(0xAA),
                            2 => {
                                let r = rng.bytes(slice.len());
                                slice.copy_from_slice(&r);
                            }
                            _ => {} // dirty from the previous draw
                        }
                        let o = draw_obs(&g, &sel, Some(slice), &mut panics);
                        variants += 1;
                        ctx.eval();
                        ctx.count("cmp:b-caller-memory", 1);
                        ctx.count(&format!("mem:align{}", align), 1);
                        ctx.count(&format!("mem:extra{}", extra), 1);
                        if o != base {
                            let kind = glyph_kind(f, *gid);
                            let mode_code = code.rsplit(';').next().unwrap_or("");
                            let loc = if cfg.coords.iter().all(|c| *c == 0) { "default-location" } else { "non-default-location" };
                            let mut d = describe_diff(&base, &o);
                            d["variant_info"] = json!({"advertised": need, "extra": extra, "start_alignment_mod8": align, "prefill": (["zero", "0xAA", "random", "dirty"][fill])});
                            d["item"] = json!({"font": f.name, "config": code, "gid": gid});
                            ctx.violation(&format!("diff:b-caller-memory:{}:{}-glyph:{}:{}", f.name, kind, mode_code, loc), d, None);
                        }
                    }
                }
                // a buffer one byte short of what is advertised must be refused, not overrun
                if need > 0 {
                    let basep = big.as_ptr() as usize;
                    let off = (8 - basep % 8) % 8;
                    // worst case for the carver: aligned start, so no slack is consumed by alignment
                    let short = need.saturating_sub(1 + std::mem::align_of::<i32>());
                    let o = draw_obs(&g, &sel, Some(&mut big[off..off + short]), &mut panics);
                    ctx.eval();
                    ctx.count("mem:short_buffer_draws", 1);
                    match &o.res {
                        Err(e) if e.contains("InsufficientMemory") => ctx.count("mem:short_buffer_refused", 1),
                        Err(e) => ctx.label("short_buffer_other_results", &e.chars().take(48).collect::<String>()),
                        Ok(_) => {
                            if o != base {
                                ctx.violation(&format!("diff:b-short-caller-memory:{}:gid={}:{}", f.name, gid, code), describe_diff(&base, &o), None);
                            }
                        }
                    }
                }
                // a second library-memory draw after all the caller-memory ones
                let again = draw_obs(&g, &sel, None, &mut panics);
                ctx.eval();
                ctx.count("cmp:a-repeat", 1);
                if again != base {
                    ctx.violation(&format!("diff:a-repeat:{}:gid={}:{}", f.name, gid, code), describe_diff(&base, &again), None);
                }
                if base.res.is_ok() && !base.cmds.is_empty() {
                    let mut d = Digest::new();
                    d.u64(f.hash);
                    d.u32(*gid);
                    d.str(&code);
                    ctx.nontrivial(d.finish());
                    ctx.sample_by_kind(
                        &format!("miri:{}:{}", f.name, if is_hinted { "hinted" } else { "unhinted" }),
                        json!({"font": f.name, "gid": gid, "config": code, "stream_words": base.cmds.len(), "advertised_memory": need, "caller_memory_variants_compared": variants}),
                    );
                }
                for p in panics {
                    ctx.judge_panic(&p, "OutlineGlyph::draw", json!({"case": format!("{}:gid={}:{}", f.name, gid, code)}), None);
                }
            }
            ctx.label("fonts", &f.name);
            let dt = ctx.elapsed_s() - t0;
            ctx.count(&format!("wall_ms:miri:{}:{}", f.name, if is_hinted { "hinted" } else { "unhinted" }), (dt * 1000.0) as u64);
        }
    }
}

pub fn run(ctx: &mut Ctx, args: &Args) {
    ctx.policy = PanicPolicy::Totality;
    ctx.rule = "a (font, glyph, size, location, hinting options) whose baseline draw (fresh instance, serial, library memory) succeeded with a non-empty \
                command stream and was compared against the variants a..f of its work item; digest = (font hash, glyph id, configuration)"
        .into();
    ctx.assumptions = vec![
        "a hinting instance is only used with glyphs of the font it is currently configured for".into(),
        "caller memory is at least OutlineGlyph::draw_memory_size(Hinting::Embedded for hinted draws, Hinting::None otherwise) bytes".into(),
        "thread interleavings are sampled (16 threads, barrier start, seeded yields); data races are excluded by the type system (draw takes &HintingInstance, no unsafe)".into(),
        "normalized coordinates are passed directly (F2Dot14 in [-1,1]); avar is not involved".into(),
        "stream grammar is only demanded of TrueType (glyf) outlines; finiteness of all formats".into(),
    ];
    if cfg!(miri) || args.profile == "miri" {
        return miri_slice(ctx, args);
    }
    let corpus = vf_core::corpus_fonts();
    let synth = synth::fonts();
    let fonts = load_fonts(&corpus, &synth);
    ctx.extra.insert("fonts_with_outlines".into(), json!(fonts.len()));
    ctx.extra.insert("fonts_with_truetype_programs".into(), json!(fonts.iter().filter(|f| f.tt_programs).map(|f| f.name.clone()).collect::<Vec<_>>()));
    // `--profile tsan` (extra stage "tsan", /verif/tools/stage_tsan.sh): binary and std are built with ThreadSanitizer.
    // Only baseline + one reconfigure history + the 16-thread section (f) of every item run, for the first 24
    // configurations of every font (these cover unhinted, HarfBuzz style and all four hinting engines). A data race on the
    // shared `&HintingInstance` / font data ends the process with a TSan report (exit 66), which the driver turns into a
    // violation; the equality oracle of (f) stays on.
    let tsan = ctx.profile == "tsan";
    if tsan {
        ctx.assumptions.push("tsan slice: per item only the serial baseline, one reconfigure history and the 16 threads drawing through one shared instance run (24 configurations per font, <= 10 glyphs each); ThreadSanitizer watches every access (std instrumented too, -Zbuild-std)".into());
    }
    let per_font = if tsan { ctx.tier.pick(4usize, 24) } else { ctx.tier.pick(540usize, 4000) };
    let mut item = 0usize;
    for k in 0..per_font {
        // a fresh permutation of the fonts per round so that a shard does not always get the same (cheap or costly) fonts
        let mut perm: Vec<usize> = (0..fonts.len()).collect();
        Rng::derive(ctx.seed, "c12-font-order", k as u64).shuffle(&mut perm);
        for fi in perm {
            let mine = ctx.mine(item);
            item += 1;
            if !mine {
                continue;
            }
            run_item(ctx, &fonts, fi, k);
        }
    }
    // directed: the IDEF-retention question (instance.rs setup() resizes `instructions` without clear)
    if ctx.shard.0 == 0 && !tsan {
        synth::idef_probe(ctx, &fonts);
        synth::cvar_probe(ctx, &fonts);
    }
}

fn replay(ctx: &mut Ctx, _args: &Args, rec: &Value, _input: Option<&[u8]>) {
    ctx.policy = PanicPolicy::Totality;
    let d = &rec["detail"];
    let (Some(name), Some(k)) = (d["item"]["font"].as_str(), d["item"]["k"].as_u64()) else {
        ctx.inconclusive("replay record has no item identity");
        return;
    };
    let corpus = vf_core::corpus_fonts();
    let synth = synth::fonts();
    let fonts = load_fonts(&corpus, &synth);
    if let Some(fi) = fonts.iter().position(|f| f.name == name) {
        run_item(ctx, &fonts, fi, k as usize);
    } else {
        ctx.inconclusive(format!("font {} not in corpus", name));
    }
}
